(* HeapP17: the part of _in_place_op between DuplicatingGraph and the re-creation of the views: every step extends the heap
   without touching the frozen originals. *)
From Coq Require Import List Arith Bool PeanoNat Lia.
Import ListNotations.
From MG Require Import Model.Heap.
From MG.Proofs Require Import HeapP1 HeapWfb HeapP2 HeapP3 HeapP8 HeapP10 HeapP11 HeapP12 HeapP13 HeapP14 HeapP15.

(* hh' extends hh: the tensors of X are untouched, the others are at most weakened, old lists / operations / arrays are kept *)
Record Ext (X : list id) (hh hh' : heap) : Prop := mkExt {
  e_next : h_next hh <= h_next hh';
  e_X : forall t, In t X -> getT hh' t = getT hh t;
  e_alloc : forall t r, getT hh t = Some r -> exists r', getT hh' t = Some r' /\ weaker r r' /\ t_data r' = t_data r;
  e_lst : forall p, p < h_next hh -> lst_of hh' p = lst_of hh p;
  e_ops : forall o r, getO hh o = Some r -> getO hh' o = Some r;
  e_arr : forall a, getA hh a <> None -> getA hh' a = getA hh a
}.

Lemma Ext_refl X h : Ext X h h.
Proof. constructor; auto. intros t r E. exists r. split; auto. split; [apply weaker_refl|auto]. Qed.

Lemma weaker_trans r1 r2 r3 : weaker r1 r2 -> weaker r2 r3 -> weaker r1 r3.
Proof. unfold weaker. intros (A1 & A2 & A3 & A4 & A5) (B1 & B2 & B3 & B4 & B5).
  repeat split; try congruence.
  - destruct A4, B4; try (left; congruence); right; congruence.
  - destruct A5, B5; try (left; congruence); right; congruence. Qed.

Lemma Ext_trans X h1 h2 h3 : Ext X h1 h2 -> Ext X h2 h3 -> Ext X h1 h3.
Proof. intros A B. constructor.
  - pose proof (e_next _ _ _ A). pose proof (e_next _ _ _ B). lia.
  - intros t Ht. rewrite (e_X _ _ _ B t Ht). apply (e_X _ _ _ A t Ht).
  - intros t r E. destruct (e_alloc _ _ _ A t r E) as (r' & E' & Wk & D). destruct (e_alloc _ _ _ B t r' E') as (r'' & E'' & Wk' & D').
    exists r''. split; auto. split; [eapply weaker_trans; eauto|congruence].
  - intros p Hp. rewrite (e_lst _ _ _ B) by (pose proof (e_next _ _ _ A); lia). apply (e_lst _ _ _ A p Hp).
  - intros o r E. apply (e_ops _ _ _ B). apply (e_ops _ _ _ A). exact E.
  - intros a Ha. rewrite (e_arr _ _ _ B); [apply (e_arr _ _ _ A a Ha)|]. rewrite (e_arr _ _ _ A a Ha). exact Ha. Qed.

Lemma Ext_new_array X h base buf h' a : wfx X h -> new_array h base buf = (h', a) -> Ext X h h'.
Proof. intros W NA. apply new_array_spec in NA. destruct NA as (N1 & N2 & N3 & N4 & N5 & N6 & N7 & N8).
  constructor.
  - lia.
  - intros t _. unfold getT. now rewrite N1.
  - intros t r E. exists r. unfold getT. rewrite N1. split; auto. split; [apply weaker_refl|auto].
  - intros p _. unfold lst_of. now rewrite N4.
  - intros o r E. unfold getO. now rewrite N2.
  - intros a0 Ha. apply N8. intros ->. apply Ha. apply get_None_keys. intros Hin. apply (x_lt_arr _ _ W) in Hin. lia. Qed.

Lemma Ext_view_array X h a0 h' a : wfx X h -> view_array h a0 = Some (h', a) -> Ext X h h'.
Proof. unfold view_array. intros W H. apply bind_Some in H. destruct H as (ra & _ & H).
  match type of H with Some ?XX = _ => assert (NA : XX = (h', a)) by congruence end.
  eapply Ext_new_array; eauto. Qed.

(* the listing discipline of the frozen tensors: a frozen tensor other than the root is listed only by frozen tensors *)
Definition Unl (X : list id) (root : id) (hh : heap) : Prop :=
  forall t r c, getT hh t = Some r -> In c (lst_of hh (t_children r)) -> In c X -> c <> root -> In t X.

Record FreshT (hh' : heap) (t : id) : Prop := mkFresh {
  f_unl : forall q r, getT hh' q = Some r -> ~ In t (lst_of hh' (t_children r));
  f_nobase : forall q r, getT hh' q = Some r -> t_base r <> Some t
}.

Lemma apply_op_frozen X root hh k vars keep d hh' t :
  wfx X hh -> Unl X root hh -> (forall x, In x X -> x < h_next hh) ->
  (forall v, In v vars -> ~ In v X) -> (forall v, In v vars -> v < h_next hh) -> (forall v, In v keep -> v < h_next hh) ->
  apply_op hh k vars keep d = Some (hh', t) ->
  wfx X hh' /\ Unl X root hh' /\ Ext X hh hh' /\ FreshT hh' t /\ ApplyOp hh k vars keep d hh' t.
Proof. intros W U HX Hv1 Hv2 Hk H.
  pose proof (wfx_apply_op X hh k vars keep d hh' t W Hv2 Hk H) as W'.
  pose proof (apply_op_spec _ _ _ _ _ _ _ H) as S.
  assert (Hold : forall q r', getT hh' q = Some r' -> q <> t -> exists r, getT hh q = Some r /\ weaker r r' /\ t_data r' = t_data r /\
                  (In q X -> r' = r)).
  { intros q r' E Nq. rewrite (ao_told _ _ _ _ _ _ _ S q Nq) in E. destruct (mem q vars) eqn:Em.
    - destruct (getT hh q) as [r|] eqn:Eq; [|discriminate]. simpl in E. inversion E; subst r'.
      exists r. split; auto. split; [exact (touch_weaker false r)|]. split; [destruct r; reflexivity|].
      intros Hq. apply mem_In in Em. exfalso. eapply Hv1; eauto.
    - exists r'. split; auto. split; [apply weaker_refl|auto]. }
  assert (Htlt : forall q r, getT hh q = Some r -> q < t).
  { intros q r E. rewrite (ao_t _ _ _ _ _ _ _ S). assert (q < h_next hh); [apply (x_lt_t _ _ W); eapply get_keys; exact E|lia]. }
  assert (Hlst_old : forall q r, getT hh q = Some r -> lst_of hh' (t_children r) = lst_of hh (t_children r)).
  { intros q r E. apply (ao_lst _ _ _ _ _ _ _ S). pose proof (proj1 (x_tens _ _ W q r E)). rewrite (ao_t _ _ _ _ _ _ _ S). lia. }
  split; [exact W'|]. split; [|split; [|split]]; auto.
  - (* Unl *)
    intros q r' c E Hc HcX Hcr. destruct (Nat.eq_dec q t) as [->|Nq].
    + rewrite (ao_tnew _ _ _ _ _ _ _ S) in E. inversion E; subst r'. simpl in Hc. rewrite (ao_lnew _ _ _ _ _ _ _ S) in Hc. destruct Hc.
    + destruct (Hold q r' E Nq) as (r & Er & (_ & Hl & _) & _). rewrite Hl, (Hlst_old q r Er) in Hc. eapply U; eauto.
  - (* Ext *)
    constructor.
    + rewrite (ao_next _ _ _ _ _ _ _ S). lia.
    + intros x Hx. assert (x <> t) by (apply HX in Hx; rewrite (ao_t _ _ _ _ _ _ _ S); lia).
      rewrite (ao_told _ _ _ _ _ _ _ S x H0). destruct (mem x vars) eqn:Em; auto. apply mem_In in Em. exfalso. eapply Hv1; eauto.
    + intros q r E. assert (q <> t) by (apply Htlt in E; lia).
      rewrite (ao_told _ _ _ _ _ _ _ S q H0), E. destruct (mem q vars); simpl.
      * eexists. split; [reflexivity|]. split; [exact (touch_weaker false r)|destruct r; reflexivity].
      * exists r. split; auto. split; [apply weaker_refl|auto].
    + intros p Hp. apply (ao_lst _ _ _ _ _ _ _ S). rewrite (ao_t _ _ _ _ _ _ _ S). lia.
    + intros o r E. rewrite (ao_o_old _ _ _ _ _ _ _ S); auto. intros ->.
      assert (In (h_next hh) (keys (h_o hh))) by (eapply get_keys; exact E). apply (x_lt_o _ _ W) in H0. lia.
    + intros a _. unfold getA. now rewrite (ao_arr _ _ _ _ _ _ _ S).
  - (* the new tensor is referenced by nobody *)
    constructor.
    + intros q r' E Hin. destruct (Nat.eq_dec q t) as [->|Nq].
      * rewrite (ao_tnew _ _ _ _ _ _ _ S) in E. inversion E; subst r'. simpl in Hin. rewrite (ao_lnew _ _ _ _ _ _ _ S) in Hin. destruct Hin.
      * destruct (Hold q r' E Nq) as (r & Er & (_ & Hl & _) & _). rewrite Hl, (Hlst_old q r Er) in Hin.
        destruct (proj2 (proj2 (proj2 (x_tens _ _ W q r Er))) t Hin) as (_ & rc & Erc & _). apply Htlt in Erc. lia.
    + intros q r' E Eb. destruct (Nat.eq_dec q t) as [->|Nq].
      * rewrite (ao_tnew _ _ _ _ _ _ _ S) in E. inversion E; subst r'. discriminate.
      * destruct (Hold q r' E Nq) as (r & Er & (_ & _ & _ & Hb & _) & _).
        assert (t_base r = Some t) by (destruct Hb; congruence).
        destruct (proj1 (proj2 (proj2 (x_tens _ _ W q r Er))) t H0) as (_ & rb & Erb). apply Htlt in Erb. lia. Qed.
