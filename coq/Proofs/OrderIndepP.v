(* Order independence of the reverse sweep, componentwise over Z: two processing orders that both list every tensor
   before its non-constant inputs leave the SAME gradient in every free leaf (same entries at every position).
   Derived from backward_order_adjoint by pairing with unit perturbations of one leaf. *)
From Coq Require Import ZArith List Arith Lia Bool.
Import ListNotations.
From MG Require Import Base.EngCore Base.EngOrder.

Local Open Scope Z_scope.
Notation zdot := (dot Z 0 Z.add Z.mul).
Notation zleaf_sum := (leaf_sum Z 0 Z.add Z.mul).

Definition unitv (i : nat) : list Z := repeat 0 i ++ [1].

Lemma zdot_unit : forall i g, zdot g (unitv i) = nth i g 0.
Proof.
  induction i as [|i IH]; intros [|x g]; cbn [unitv repeat app dot nth]; try reflexivity.
  - destruct g; cbn [dot]; lia.
  - fold (unitv i). rewrite IH. lia.
Qed.

(* perturbation of the single leaf j, in coordinate i *)
Definition delta1 (j i : nat) : nat -> list Z := fun k => if Nat.eqb k j then unitv i else [].

Lemma zleaf_sum_single : forall (delta : nat -> list Z) (Q : list (node Z)) (G : list (list Z)) (n0 j : nat),
  (forall k, k <> (n0 + j)%nat -> delta k = []) ->
  zleaf_sum delta n0 Q G =
  match nth_error Q j, nth_error G j with
  | Some n, Some g => if is_free_leaf Z n then zdot g (delta (n0 + j)%nat) else 0
  | _, _ => 0 end.
Proof.
  intros delta Q. induction Q as [|n Q IH]; intros G n0 j Hd.
  - destruct j; reflexivity.
  - destruct G as [|g G].
    + cbn [leaf_sum]. destruct j; cbn [nth_error]; [reflexivity|]. destruct (nth_error Q j); reflexivity.
    + cbn [leaf_sum]. destruct j as [|j]; cbn [nth_error].
      * rewrite Nat.add_0_r.
        assert (Hrest : zleaf_sum delta (S n0) Q G = 0).
        { clear IH. revert G. generalize (le_n (S n0)). generalize (S n0) at 2 3 as m.
          induction Q as [|n' Q IHQ]; intros m Hm G; [reflexivity|].
          destruct G as [|g' G]; [reflexivity|]. cbn [leaf_sum].
          rewrite (Hd m) by lia. rewrite dot_nil_r. rewrite (IHQ (S m)) by lia.
          destruct (is_free_leaf Z n'); reflexivity. }
        rewrite Hrest. lia.
      * rewrite (Hd n0) by lia. rewrite dot_nil_r.
        rewrite (IH G (S n0) j) by (intros k Hk; apply Hd; lia).
        replace (S n0 + j)%nat with (n0 + S j)%nat by lia.
        destruct (is_free_leaf Z n); reflexivity.
Qed.

Theorem order_independent_Z : forall (P : list (node Z)),
  wf Z P -> ops_ok Z 0 Z.add Z.mul P ->
  forall (L : nat) (seed : list Z) (o1 o2 : list nat),
  (L < length P)%nat -> valid_rest Z P o1 -> In L o1 -> valid_rest Z P o2 -> In L o2 ->
  let G0 := upd Z Z.add (repeat [] (length P)) L seed in
  let G1 := sweepL Z Z.add P o1 G0 in
  let G2 := sweepL Z Z.add P o2 G0 in
  forall j, is_free_leaf Z (nth j P (Leaf Z true)) = true ->
  forall i, nth i (nth j G1 []) 0 = nth i (nth j G2 []) 0.
Proof.
  intros P Hwf Hok L seed o1 o2 HL Hv1 Hin1 Hv2 Hin2 G0 G1 G2 j Hj i.
  assert (HG0 : length G0 = length P) by (unfold G0; rewrite length_upd; apply repeat_length).
  destruct (sweepL_inv Z 0 1 Z.add Z.mul Z.sub Z.opp Zth (fun _ => []) P Hwf Hok o1 [] G0 HG0 Hv1 (fun _ _ H => H)) as (_ & Hl1 & _).
  destruct (sweepL_inv Z 0 1 Z.add Z.mul Z.sub Z.opp Zth (fun _ => []) P Hwf Hok o2 [] G0 HG0 Hv2 (fun _ _ H => H)) as (_ & Hl2 & _).
  fold G1 in Hl1. fold G2 in Hl2.
  assert (Hjlt : (j < length P)%nat).
  { destruct (Nat.lt_ge_cases j (length P)) as [H|H]; [exact H|]. rewrite nth_overflow in Hj by exact H. discriminate. }
  pose proof (backward_order_adjoint Z 0 1 Z.add Z.mul Z.sub Z.opp Zth (delta1 j i) P Hwf Hok L seed o1 HL Hv1 Hin1) as [E1 _].
  pose proof (backward_order_adjoint Z 0 1 Z.add Z.mul Z.sub Z.opp Zth (delta1 j i) P Hwf Hok L seed o2 HL Hv2 Hin2) as [E2 _].
  fold G0 in E1, E2. fold G1 in E1. fold G2 in E2.
  assert (Hsingle : forall G, length G = length P -> zleaf_sum (delta1 j i) 0 P G = nth i (nth j G []) 0).
  { intros G HG. rewrite (zleaf_sum_single (delta1 j i) P G 0 j).
    - cbn [Nat.add]. unfold vec in *. destruct (nth_error P j) as [n|] eqn:En; [|apply nth_error_None in En; lia].
      destruct (nth_error G j) as [g|] eqn:Eg; [|apply nth_error_None in Eg; lia].
      rewrite (nth_error_nth P j (Leaf Z true) En) in Hj. rewrite Hj.
      rewrite (nth_error_nth G j [] Eg). unfold delta1. rewrite Nat.eqb_refl. apply zdot_unit.
    - intros k Hk. unfold delta1. cbn [Nat.add] in Hk. destruct (Nat.eqb_spec k j); [contradiction|reflexivity]. }
  etransitivity; [symmetry; exact (Hsingle G1 Hl1)|]. rewrite E1, <- E2. exact (Hsingle G2 Hl2).
Qed.

(* the same fact for ANY ring (R for meaning), in dual form: the two results pair identically with every perturbation of the leaves *)
Theorem order_independent_dual :
  forall (A : Type) (a0 a1 : A) (add mul sub : A -> A -> A) (opp : A -> A),
  ring_theory a0 a1 add mul sub opp (@eq A) ->
  forall (P : list (node A)), wf A P -> ops_ok A a0 add mul P ->
  forall (L : nat) (seed : list A) (o1 o2 : list nat),
  (L < length P)%nat -> valid_rest A P o1 -> In L o1 -> valid_rest A P o2 -> In L o2 ->
  let G0 := upd A add (repeat [] (length P)) L seed in
  forall delta : nat -> list A,
  leaf_sum A a0 add mul delta 0 P (sweepL A add P o1 G0) = leaf_sum A a0 add mul delta 0 P (sweepL A add P o2 G0).
Proof.
  intros A a0 a1 add mul sub opp Rth P Hwf Hok L seed o1 o2 HL Hv1 Hin1 Hv2 Hin2 G0 delta.
  pose proof (backward_order_adjoint A a0 a1 add mul sub opp Rth delta P Hwf Hok L seed o1 HL Hv1 Hin1) as [E1 _].
  pose proof (backward_order_adjoint A a0 a1 add mul sub opp Rth delta P Hwf Hok L seed o2 HL Hv2 Hin2) as [E2 _].
  fold G0 in E1, E2. rewrite E1, E2. reflexivity.
Qed.
