(* HeapP24: T4: what a successful in-place statement leaves behind (success_spec), relative to the heap h3 handed to
   DuplicatingGraph and the graph g. *)
From Coq Require Import List Arith Bool PeanoNat Lia.
Import ListNotations.
From MG Require Import Model.Heap.
From MG.Proofs Require Import HeapP1 HeapWfb HeapP2 HeapP3 HeapP4 HeapP5 HeapP6 HeapP7 HeapP8 HeapP10 HeapP11 HeapP12 HeapP13 HeapP14 HeapP15 HeapP16 HeapP17 HeapP18 HeapP19 HeapP20 HeapP22 HeapP23.

Section Spec.
Variables (h3 : heap) (root : id) (h4 : heap) (g : list node) (tb : tens) (L : list id).
Hypothesis W3 : wf h3.
Hypothesis DS : DupSpec h3 root h4 g tb L.
Variables (m : id) (k : nat) (inputs : list id) (masked : bool) (nm : node).

Let X := map n_t g.
Let I : Inv h3 (h_next h3) (t_base tb) h4 g L := ds_inv _ _ _ _ _ _ DS.
Let ins := map (ph_if_exists g) inputs.

Local Notation FZ := (FZ root h4 g).
Local Notation LI := (LI h3 h4 g).
Local Notation Last := (Last h4).

(* the creator of the result of the in-place operation (after ApplyMask when masked) *)
Definition res_op (hh : heap) (B : id) (oc : id) : Prop :=
  if masked then exists pmv rp oc1, getO hh oc = Some (mkO K_APPLYMASK [pmv; n_p nm] []) /\ getT hh pmv = Some rp /\
                                    t_creator rp = Some oc1 /\ getO hh oc1 = Some (mkO k ins []) /\ h_next h4 <= pmv < B
  else getO hh oc = Some (mkO k ins []).

Definition ResT (hh : heap) (B : id) (x : id) : Prop :=
  exists rp oc, getT hh x = Some rp /\ t_creator rp = Some oc /\ res_op hh B oc /\ h_next h4 <= x.

(* transfer to a heap in which the tensors below B that are not frozen, and the operations, are kept (up to weakening) *)
Lemma res_op_tr hh hh' B oc :
  (forall q r, getT hh q = Some r -> h_next h4 <= q < B -> exists r', getT hh' q = Some r' /\ t_creator r' = t_creator r) ->
  (forall o r, getO hh o = Some r -> getO hh' o = Some r) ->
  res_op hh B oc -> res_op hh' B oc.
Proof. intros HT HO. unfold res_op. destruct masked.
  - intros (pmv & rp & oc1 & A & B0 & C & D & F). destruct (HT _ _ B0 F) as (rp' & B' & Wc).
    exists pmv, rp', oc1. repeat split; auto; try congruence; try lia.
  - apply HO. Qed.

Lemma res_op_mono hh B B' oc : B <= B' -> res_op hh B oc -> res_op hh B' oc.
Proof. intros Hle. unfold res_op. destruct masked; auto.
  intros (pmv & rp & oc1 & A & B0 & C & D & F). exists pmv, rp, oc1. repeat split; auto; lia. Qed.

Lemma Ext_tr hh hh' : Ext X hh hh' ->
  (forall q r, getT hh q = Some r -> exists r', getT hh' q = Some r' /\ t_creator r' = t_creator r) /\
  (forall o r, getO hh o = Some r -> getO hh' o = Some r).
Proof. intros E. split.
  - intros q r A. destruct (e_alloc _ _ _ E _ _ A) as (r' & A' & (Wc & _) & _). eauto.
  - apply (e_ops _ _ _ E). Qed.

Lemma ResT_ext hh hh' B x : Ext X hh hh' -> ResT hh B x -> ResT hh' B x.
Proof. intros E (rp & oc & A & B0 & C & D). destruct (Ext_tr hh hh' E) as (HT & HO).
  destruct (HT _ _ A) as (rp' & A' & Wc). exists rp', oc. split; auto. split; [congruence|]. split; auto.
  eapply res_op_tr; eauto. Qed.

(* tensors of h3 outside the family that are not operands *)
Definition UT (hh : heap) : Prop := forall q, q < h_next h3 -> ~ In q X -> ~ In q inputs -> getT hh q = getT h4 q.

Lemma UT_apply_op hh kk vars keep d hh' t : UT hh -> h_next h3 <= h_next hh ->
  (forall v, In v vars -> h_next h3 <= v \/ In v inputs) ->
  ApplyOp hh kk vars keep d hh' t -> UT hh'.
Proof. intros U Hn Hv S q Hq HqX Hqi. rewrite (ao_told _ _ _ _ _ _ _ S).
  - destruct (mem q vars) eqn:E; [|apply U; auto]. apply mem_In in E. apply Hv in E. destruct E; [lia|tauto].
  - rewrite (ao_t _ _ _ _ _ _ _ S). lia. Qed.

Record SuccFacts (h6 h12 : heap) (am : id) (broot : id) (r2 : tens) (path : list node) : Prop := mkSF {
  sf_wf : wf h12;
  sf_ut : forall q, q < h_next h3 -> ~ In q X -> ~ In q inputs -> getT h12 q = getT h4 q;
  sf_ops : forall o r, getO h4 o = Some r -> getO h12 o = Some r;
  sf_ph : forall n, In n g -> exists rp4 rp, getT h4 (n_p n) = Some rp4 /\ getT h12 (n_p n) = Some rp /\ weaker rp4 rp /\ t_data rp = t_data rp4;
  sf_root : exists rs oc, getT h12 root = Some rs /\ t_base rs = None /\ t_creator rs = Some oc /\ h_next h4 <= oc /\ t_data rs = am /\
            t_grad rs = false /\ t_vgrad rs = false /\
            (match t_base r2 with
             | None => res_op h12 (h_next h12) oc
             | Some _ => exists pmv2, getO h12 oc = Some (mkO K_UNVIEW [h_next h3; pmv2] (map n_p (tl (rev path)))) /\ ResT h12 (h_next h12) pmv2
             end);
  sf_rootarr : getA h12 am = Some (mkA None broot);
  sf_members : forall n par, In n g -> n_parent n = Some par ->
     exists rc oc kd ra, getT h12 (n_t n) = Some rc /\ t_base rc = Some root /\ t_creator rc = Some oc /\ h_next h4 <= oc /\
       getO h12 oc = Some (mkO kd [par] []) /\ orig_kind h3 (n_t n) kd /\ t_grad rc = false /\ t_vgrad rc = false /\
       h_next h4 <= t_data rc /\ getA h12 (t_data rc) = Some ra /\ a_base ra = Some am /\ a_buf ra = broot;
  sf_lists : forall n, In n g -> exists r, getT h12 (n_t n) = Some r /\ lst_of h12 (t_children r) = fkids h3 (n_t n)
}.


Lemma rebuild_fold_J hb rs broot : t_base rs = None -> h_next h4 <= h_next hb ->
  forall gs g1 hh hh', g = g1 ++ gs -> (forall n, In n gs -> n_parent n <> None) -> LI gs hh -> LJ h3 root g hb rs broot gs hh ->
  fold_left rebuild_step gs (Some hh) = Some hh' -> LI [] hh' /\ LJ h3 root g hb rs broot [] hh'.
Proof. intros Hrs Hb4. induction gs as [|n gs IH]; intros g1 hh hh' Eg Hnr Li Lj H.
  - simpl in H. inversion H; subst. auto.
  - destruct (n_parent n) as [par|] eqn:Ep; [|exfalso; apply (Hnr n); simpl; auto].
    destruct (rebuild_one h3 root h4 g tb L W3 DS g1 n gs par hh Eg Ep Li) as (hh1 & E & Li').
    cbn [fold_left] in H. rewrite E in H.
    pose proof (rebuild_one_J h3 root h4 g tb L W3 DS hb rs broot Hrs Hb4 g1 n gs par hh hh1 Eg Ep Li Lj E) as Lj'.
    apply (IH (g1 ++ [n]) hh1 hh'); auto.
    + rewrite <- app_assoc. exact Eg.
    + intros n' Hn'. apply Hnr. simpl; auto. Qed.

Lemma ins_vars v : In v ins -> h_next h3 <= v \/ In v inputs.
Proof. intros Hv. apply in_map_iff in Hv. destruct Hv as (i & <- & Hi). unfold ph_if_exists.
  destruct (gfind g i) as [n|] eqn:E; auto. left. apply gfind_In in E. apply (i_p _ _ _ _ _ _ I n (proj1 E)). Qed.

Theorem success_spec h6 r2 am at_ broot path :
  FZ h6 -> UT h6 -> getA h6 at_ <> None -> getA h6 am = Some (mkA None broot) -> (t_base r2 = None -> at_ = am) ->
  getT h3 m = Some r2 -> root = (match t_base r2 with Some b => b | None => m end) ->
  gfind g m = Some nm -> In m X ->
  (forall i, In i inputs -> getT h3 i <> None) ->
  (forall x, In x path -> In x g) ->
  exists h12, inplace_success h6 g m k inputs masked am at_ root path = Some (Done h12) /\ SuccFacts h6 h12 am broot r2 path.
Proof. intros F6 U6 Hat Ham Hatam Hm Hroot Hnm HmX Hin Hpath.
  destruct (ds_head _ _ _ _ _ _ DS) as (g2 & Eg).
  assert (Hrootnode : In (root, h_next h3, None) g) by (rewrite Eg; simpl; auto).
  assert (Hnm_in : In nm g) by (apply gfind_In in Hnm; tauto).
  pose proof (next34 h3 root h4 g tb L DS) as N34.
  assert (Hn46 : h_next h4 <= h_next h6) by (destruct F6 as (_ & _ & E); apply (e_next _ _ _ E)).
  unfold inplace_success. fold ins.
  (* the in-place operation itself *)
  assert (Hins : forall v, In v ins -> getT h6 v <> None /\ v < h_next h6 /\ ~ In v X).
  { intros v Hv. apply in_map_iff in Hv. destruct Hv as (i & <- & Hi). specialize (Hin i Hi).
    destruct (getT h3 i) as [ri|] eqn:Ei; [|congruence].
    destruct (phx_alloc h3 root h4 g tb L W3 DS h6 i ri F6 Ei). split; auto. split; auto.
    apply (phx_notX h3 root h4 g tb L DS). eapply getT_lt; eauto. }
  destruct (apply_op_ex h6 k ins [] at_ (fun v Hv => proj1 (Hins v Hv))) as (h7 & pmv & AO1).
  rewrite AO1. cbn [bind].
  destruct (FZ_apply_op h3 root h4 g tb L DS h6 k ins [] at_ h7 pmv F6 (fun v Hv => proj2 (proj2 (Hins v Hv))) (fun v Hv => proj1 (proj2 (Hins v Hv))) (fun v (Hv : In v []) => match Hv with end) AO1)
    as (F7 & Fr7 & S1 & E67).
  assert (U7 : UT h7) by (apply (UT_apply_op h6 k ins [] at_ h7 pmv U6); [lia|apply ins_vars|exact S1]).
  rewrite Hnm. cbn [bind].
  assert (Hpmv_ge : h_next h4 <= pmv) by (rewrite (ao_t _ _ _ _ _ _ _ S1); lia).
  (* ApplyMask *)
  assert (exists h8 pmv2 o8, (if masked then apply_op h7 K_APPLYMASK [pmv; n_p nm] [] at_ else Some (h7, pmv)) = Some (h8, pmv2) /\
            FZ h8 /\ FreshT h8 pmv2 /\ Ext X h6 h8 /\ UT h8 /\ h_next h4 <= pmv2 < h_next h8 /\
            getT h8 pmv2 = Some (mkT (Some o8) None (S pmv2) (S (S pmv2)) at_ false false) /\ lst_of h8 (S pmv2) = [] /\
            res_op h8 pmv2 o8 /\ h_next h4 <= o8)
    as (h8 & pmv2 & o8 & E8 & F8 & Fr8 & E68 & U8 & Hp2 & Et8 & Hl8 & R8 & Ho8).
  { unfold res_op. destruct masked.
    - assert (Hnp7 : exists rp, getT h7 (n_p nm) = Some rp).
      { destruct (ph_final h3 root h4 g tb L W3 DS nm Hnm_in) as (r0 & l & _ & _ & E3 & _).
        destruct (FZ_alloc root h4 g h7 _ _ F7 E3) as (rp & Erp & _). eauto. }
      destruct Hnp7 as (rp7 & Erp7).
      pose proof (ao_tnew _ _ _ _ _ _ _ S1) as Et7.
      assert (Hv : forall v, In v [pmv; n_p nm] -> getT h7 v <> None /\ v < h_next h7 /\ ~ In v X).
      { intros v [<-|[<-|[]]].
        - split; [congruence|]. split; [eapply FZ_tlt; eauto|]. intros Hx. apply (X_lt h3 root h4 g tb L DS) in Hx. lia.
        - split; [congruence|]. split; [eapply FZ_tlt; eauto|]. apply (np_notX h3 root h4 g tb L DS); auto. }
      destruct (apply_op_ex h7 K_APPLYMASK [pmv; n_p nm] [] at_ (fun v Hv' => proj1 (Hv v Hv'))) as (h8 & pmv2 & AO2).
      destruct (FZ_apply_op h3 root h4 g tb L DS h7 K_APPLYMASK _ [] at_ h8 pmv2 F7 (fun v Hv' => proj2 (proj2 (Hv v Hv'))) (fun v Hv' => proj1 (proj2 (Hv v Hv'))) (fun v (Hv' : In v []) => match Hv' with end) AO2)
        as (F8 & Fr8 & S2 & E78).
      pose proof (e_next _ _ _ E67) as N67.
      exists h8, pmv2, (h_next h7). split; [exact AO2|]. split; [exact F8|]. split; [exact Fr8|].
      split; [eapply Ext_trans; eauto|]. split.
      { apply (UT_apply_op h7 K_APPLYMASK [pmv; n_p nm] [] at_ h8 pmv2 U7); [lia| |exact S2]. intros v [<-|[<-|[]]]; left; [lia|].
        pose proof (i_p _ _ _ _ _ _ I nm Hnm_in). lia. }
      split; [rewrite (ao_t _ _ _ _ _ _ _ S2), (ao_next _ _ _ _ _ _ _ S2); lia|].
      split; [apply (ao_tnew _ _ _ _ _ _ _ S2)|]. split; [apply (ao_lnew _ _ _ _ _ _ _ S2)|]. split; [|lia].
      assert (Hpmv_lt : pmv < h_next h7) by (eapply FZ_tlt; eauto).
      eexists pmv, _, (h_next h6). split; [apply (ao_o _ _ _ _ _ _ _ S2)|]. split.
      { rewrite (ao_told _ _ _ _ _ _ _ S2) by (rewrite (ao_t _ _ _ _ _ _ _ S2); lia).
        unfold mem; cbn [existsb]. rewrite Nat.eqb_refl. cbn [orb]. rewrite Et7. reflexivity. }
      split; [reflexivity|]. split.
      { rewrite (ao_o_old _ _ _ _ _ _ _ S2) by (apply Nat.lt_neq; pose proof (ao_next _ _ _ _ _ _ _ S1); lia). apply (ao_o _ _ _ _ _ _ _ S1). }
      rewrite (ao_t _ _ _ _ _ _ _ S2). lia.
    - exists h7, pmv, (h_next h6). split; auto. split; auto. split; auto. split; auto. split; auto.
      split; [rewrite (ao_t _ _ _ _ _ _ _ S1), (ao_next _ _ _ _ _ _ _ S1); lia|].
      split; [apply (ao_tnew _ _ _ _ _ _ _ S1)|]. split; [apply (ao_lnew _ _ _ _ _ _ _ S1)|]. split; [apply (ao_o _ _ _ _ _ _ _ S1)|lia]. }
  rewrite E8. cbn [bind].
  (* UnView *)
  assert (Em8 : getT h8 m = Some r2).
  { pose proof F8 as (_ & _ & E48). rewrite (e_X _ _ _ E48 m HmX). rewrite (i_tget _ _ _ _ _ _ I); auto. eapply getT_lt; eauto. }
  rewrite Em8. cbn [bind].
  assert (exists h9 mutant o9, (match t_base r2 with
             | None => Some (h8, pmv2)
             | Some _ => match g with [] => None | nb :: _ => apply_op h8 K_UNVIEW [n_p nb; pmv2] (map n_p (tl (rev path))) am end
             end) = Some (h9, mutant) /\ FZ h9 /\ FreshT h9 mutant /\ Ext X h6 h9 /\ UT h9 /\ h_next h4 <= mutant < h_next h9 /\
            getT h9 mutant = Some (mkT (Some o9) None (S mutant) (S (S mutant)) am false false) /\ lst_of h9 (S mutant) = [] /\ h_next h4 <= o9 /\
            (match t_base r2 with
             | None => res_op h9 mutant o9
             | Some _ => exists pmv2', getO h9 o9 = Some (mkO K_UNVIEW [h_next h3; pmv2'] (map n_p (tl (rev path)))) /\ ResT h9 mutant pmv2' /\ pmv2' < mutant
             end))
    as (h9 & mutant & o9 & E9 & F9 & Fr9 & E69 & U9 & Hmu & Et9 & Hl9 & Ho9 & R9).
  { destruct (t_base r2) as [bb|] eqn:Eb2.
    - assert (Hnp8 : forall n, In n g -> exists rp, getT h8 (n_p n) = Some rp).
      { intros n Hn. destruct (ph_final h3 root h4 g tb L W3 DS n Hn) as (r0 & l & _ & _ & E3 & _).
        destruct (FZ_alloc root h4 g h8 _ _ F8 E3) as (rp & Erp & _). eauto. }
      assert (Hv : forall v, In v [n_p (root, h_next h3, None); pmv2] -> getT h8 v <> None /\ v < h_next h8 /\ ~ In v X).
      { intros v [<-|[<-|[]]].
        - destruct (Hnp8 _ Hrootnode) as (rp & Erp). split; [congruence|]. split; [eapply FZ_tlt; eauto|]. apply (np_notX h3 root h4 g tb L DS); auto.
        - split; [congruence|]. split; [lia|]. intros Hx. apply (X_lt h3 root h4 g tb L DS) in Hx. lia. }
      assert (Hk : forall v, In v (map n_p (tl (rev path))) -> v < h_next h8).
      { intros v Hv'. apply in_map_iff in Hv'. destruct Hv' as (n & <- & Hn).
        assert (In n path). { apply in_rev. destruct (rev path); simpl in Hn; [destruct Hn|simpl; auto]. }
        destruct (Hnp8 n (Hpath n H)) as (rp & Erp). eapply FZ_tlt; eauto. }
      destruct (apply_op_ex h8 K_UNVIEW [n_p (root, h_next h3, None); pmv2] (map n_p (tl (rev path))) am (fun v Hv' => proj1 (Hv v Hv'))) as (h9 & mutant & AO3).
      destruct (FZ_apply_op h3 root h4 g tb L DS h8 K_UNVIEW _ _ am h9 mutant F8 (fun v Hv' => proj2 (proj2 (Hv v Hv'))) (fun v Hv' => proj1 (proj2 (Hv v Hv'))) Hk AO3)
        as (F9 & Fr9 & S3 & E89).
      pose proof (e_next _ _ _ E68) as N68.
      exists h9, mutant, (h_next h8). split; [rewrite Eg; exact AO3|]. split; [exact F9|]. split; [exact Fr9|].
      split; [eapply Ext_trans; eauto|]. split.
      { apply (UT_apply_op h8 K_UNVIEW [n_p (root, h_next h3, None); pmv2] (map n_p (tl (rev path))) am h9 mutant U8); [lia| |exact S3]. intros v [<-|[<-|[]]]; left; [unfold n_p; simpl; lia|lia]. }
      split; [rewrite (ao_t _ _ _ _ _ _ _ S3), (ao_next _ _ _ _ _ _ _ S3); lia|].
      split; [apply (ao_tnew _ _ _ _ _ _ _ S3)|]. split; [apply (ao_lnew _ _ _ _ _ _ _ S3)|]. split; [lia|].
      exists pmv2. split; [apply (ao_o _ _ _ _ _ _ _ S3)|]. split; [|rewrite (ao_t _ _ _ _ _ _ _ S3); lia].
      apply (ResT_ext h8 h9 mutant pmv2 E89).
      eexists _, o8. split; [exact Et8|]. split; [reflexivity|]. split; [|lia].
      eapply res_op_mono; [|exact R8]. rewrite (ao_t _ _ _ _ _ _ _ S3). lia.
    - rewrite (Hatam eq_refl) in Et8. exists h8, pmv2, o8.
      split; [reflexivity|]. split; [exact F8|]. split; [exact Fr8|]. split; [exact E68|]. split; [exact U8|]. split; [exact Hp2|].
      split; [exact Et8|]. split; [exact Hl8|]. split; [exact Ho8|]. exact R8. }
  rewrite E9. cbn [bind].
  (* the base is re-populated *)
  set (rs := mkT (Some o9) None (S mutant) (S (S mutant)) am false false) in *.
  unfold mirror. rewrite Et9. cbn [bind].
  pose proof F9 as (W9 & Un9 & E49).
  assert (HrootX : In root X) by (change root with (n_t (root, h_next h3, None)); now apply in_map).
  assert (Hroot9 : exists rt, getT h9 root = Some rt).
  { destruct (i_ph _ _ _ _ _ _ I _ Hrootnode) as (rt & _ & E1 & _). unfold n_t in E1; simpl in E1.
    exists rt. rewrite (e_X _ _ _ E49 root HrootX). rewrite (i_tget _ _ _ _ _ _ I); auto. eapply getT_lt; eauto. }
  destruct Hroot9 as (rt & Ert).
  assert (Hmr : mutant <> root) by (apply (X_lt h3 root h4 g tb L DS) in HrootX; lia).
  assert (W11 : wfx (rm root X) (delT (setT h9 root rs) mutant)).
  { apply (wfx_move X h9 root mutant rt rs); auto.
    - discriminate.
    - apply (f_unl _ _ Fr9).
    - apply (f_nobase _ _ Fr9).
    - intros Hx. apply (X_lt h3 root h4 g tb L DS) in Hx. lia. }
  set (h11 := delT (setT h9 root rs) mutant) in *.
  assert (NDt : NoDup (root :: map n_t g2)).
  { pose proof (i_tnd _ _ _ _ _ _ I) as Q. rewrite Eg in Q. exact Q. }
  assert (ND1 : ~ In root (map n_t g2)) by (inversion NDt; assumption).
  assert (EX : rm root X = map n_t g2).
  { unfold X. rewrite Eg. simpl. unfold n_t at 1; simpl. now apply rm_head_nodup. }
  rewrite EX in W11.
  assert (Hget11 : forall q, getT h11 q = if Nat.eqb mutant q then None else if Nat.eqb root q then Some rs else getT h9 q).
  { intros q. unfold h11, getT, delT, setT; simpl. rewrite get_del by (apply NoDup_keys_put, (x_nd_t _ _ W9)). now rewrite get_put. }
  assert (Hget11' : forall q, q <> mutant -> q <> root -> getT h11 q = getT h9 q).
  { intros q N1 N2. rewrite Hget11. destruct (Nat.eqb mutant q) eqn:Q1; [apply Nat.eqb_eq in Q1; congruence|].
    destruct (Nat.eqb root q) eqn:Q2; [apply Nat.eqb_eq in Q2; congruence|]. reflexivity. }
  (* iteration order *)
  assert (PT : ph_tree h3 g h11).
  { intros n Hn. destruct (ph_tree_ext h3 root h4 g tb L W3 DS h9 E49 n Hn) as (rp & Erp & Elst). exists rp. split; auto.
    pose proof (i_p _ _ _ _ _ _ I n Hn). rewrite Hget11'; auto; [lia|].
    apply (X_lt h3 root h4 g tb L DS) in HrootX. lia. }
  rewrite (nodes_eq h3 root h4 g tb L DS h11 PT). cbn [bind].
  (* the views are re-created *)
  assert (Li : LI g2 h11).
  { split; [exact W11|]. split; [|split; [|split; [|split; [|split]]]].
    - intros t r c E Hc Hcg. rewrite Hget11 in E.
      destruct (Nat.eqb mutant t) eqn:Q1; [discriminate|].
      destruct (Nat.eqb root t) eqn:Q2.
      + inversion E; subst r. simpl in Hc. change (lst_of h11 (S mutant)) with (lst_of h9 (S mutant)) in Hc. rewrite Hl9 in Hc. destruct Hc.
      + apply Nat.eqb_neq in Q2.
        assert (In t X).
        { eapply (Un9 t r c); eauto.
          - unfold X. rewrite Eg. simpl. auto.
          - intros ->. tauto. }
        unfold X in H. rewrite Eg in H. simpl in H. destruct H as [H|H]; [unfold n_t in H; simpl in H; congruence|exact H].
    - intros n Hn. assert (HnX : In (n_t n) X) by (unfold X; rewrite Eg; simpl; right; now apply in_map).
      rewrite Hget11'.
      + rewrite (e_X _ _ _ E49 _ HnX). apply (i_tget _ _ _ _ _ _ I). apply (X_lt h3 root h4 g tb L DS); auto.
      + apply (X_lt h3 root h4 g tb L DS) in HnX. lia.
      + intros Q2. apply ND1. rewrite <- Q2. now apply in_map.
    - intros n Hn Hn2. rewrite Eg in Hn. destruct Hn as [<-|Hn]; [|tauto].
      exists rs. unfold n_t; simpl. split.
      + rewrite Hget11. destruct (Nat.eqb mutant root) eqn:Q; [apply Nat.eqb_eq in Q; congruence|]. now rewrite Nat.eqb_refl.
      + simpl. change (getA h11 am) with (getA h9 am). rewrite (e_arr _ _ _ E69); congruence.
    - intros o r E. change (getO h11 o) with (getO h9 o). apply (e_ops _ _ _ E49). exact E.
    - intros n r0 Hn Er0. change (lst_of h11 (t_children r0)) with (lst_of h9 (t_children r0)).
      pose proof (proj1 (wf_tens _ W3 _ _ Er0)) as Hp. rewrite (e_lst _ _ _ E49) by lia.
      apply (h1_lst_old h3 root h4 g tb L DS). exact Hp.
    - change (h_next h11) with (h_next h9). apply (e_next _ _ _ E49). }
  assert (Hn411 : h_next h4 <= h_next h11) by (change (h_next h11) with (h_next h9); apply (e_next _ _ _ E49)).
  assert (Lj : LJ h3 root g h11 rs broot g2 h11).
  { split; [auto|]. split.
    { rewrite Hget11. destruct (Nat.eqb mutant root) eqn:Q; [apply Nat.eqb_eq in Q; congruence|]. now rewrite Nat.eqb_refl. }
    split.
    { intros n' par' Hn' Hn'2 Hp'. exfalso. rewrite Eg in Hn'. destruct Hn' as [<-|Hn']; [discriminate|tauto]. }
    split. { simpl. change (getA h11 am) with (getA h9 am). rewrite (e_arr _ _ _ E69); congruence. }
    split.
    { intros n' Hn' Hn'2. rewrite Eg in Hn'. destruct Hn' as [<-|Hn']; [|tauto].
      exists rs. unfold n_t; simpl. split.
      { rewrite Hget11. destruct (Nat.eqb mutant root) eqn:Q; [apply Nat.eqb_eq in Q; congruence|]. now rewrite Nat.eqb_refl. }
      simpl. change (lst_of h11 (S mutant)) with (lst_of h9 (S mutant)). rewrite Hl9. symmetry. apply filter_notin_all.
      intros c0 Hc0. apply negb_false_iff, mem_In.
      destruct (fkid_in_g h3 root h4 g tb L W3 DS _ c0 Hrootnode Hc0) as (Hcg & _).
      unfold X in Hcg. rewrite Eg in Hcg. simpl in Hcg. destruct Hcg as [Q|Q]; auto.
      unfold n_t in Q; simpl in Q. apply fkids_kids in Hc0. apply (kid_gt _ _ _ W3) in Hc0. unfold n_t in Hc0; simpl in Hc0. lia. }
    split; [auto|]. split; [auto|]. auto. }
  rewrite Eg. cbn [fold_left rebuild_step n_parent snd].
  assert (Hnr : forall n, In n g2 -> n_parent n <> None).
  { intros n Hn Hp. assert (Hng : In n g) by (rewrite Eg; simpl; auto).
    pose proof (g_parent h3 root h4 g tb L DS n Hng) as Q. rewrite Hp in Q. subst n.
    apply ND1. change root with (n_t (root, h_next h3, None)). now apply in_map. }
  destruct (rebuild_fold h3 root h4 g tb L W3 DS g2 [(root, h_next h3, None)] h11 Eg Hnr Li) as (h12 & E12 & _).
  destruct (rebuild_fold_J h11 rs broot eq_refl Hn411 g2 [(root, h_next h3, None)] h11 h12 Eg Hnr Li Lj E12) as (Li12 & Lj12).
  rewrite E12. cbn [bind]. exists h12. split; auto.
  destruct Lj12 as (J1 & J2 & J3 & J4 & J5 & J6 & J7 & J8).
  destruct Li12 as (W12 & _ & _ & _ & Hops12 & _ & _).
  assert (Hkeep : forall q r, getT h9 q = Some r -> ~ In q X -> q <> mutant -> getT h12 q = Some r).
  { intros q r E Hq Hqm. rewrite J1; auto.
    - rewrite Hget11'; auto. intros ->. tauto.
    - change (h_next h11) with (h_next h9). eapply FZ_tlt; eauto. }
  assert (Hres12 : forall B oc, B <= mutant -> res_op h9 B oc -> res_op h12 (h_next h12) oc).
  { intros B oc HB R. assert (Hn11 : h_next h11 = h_next h9) by reflexivity.
    eapply res_op_mono with (B := B); [lia|]. eapply res_op_tr; [| |exact R].
    - intros q r E Hq. exists r. split; auto. apply Hkeep; auto; [|lia].
      intros Hx. apply (X_lt h3 root h4 g tb L DS) in Hx. lia.
    - intros o r E. rewrite J6; auto. change (h_next h11) with (h_next h9).
      apply (x_lt_o _ _ W9). eapply get_keys; exact E. }
  constructor.
  - apply wfx_nil. exact W12.
  - intros q Hq HqX Hqi. rewrite <- (U9 q Hq HqX Hqi).
    assert (getT h12 q = getT h11 q) as -> by (apply J1; auto; lia).
    apply Hget11'; [lia|]. intros ->. tauto.
  - exact Hops12.
  - intros n Hn. destruct (ph_final h3 root h4 g tb L W3 DS n Hn) as (r0 & l & _ & _ & E3 & _).
    destruct (e_alloc _ _ _ E49 _ _ E3) as (rp & Erp & Wk & Hd). eexists. exists rp. split; [exact E3|]. split; auto.
    pose proof (i_p _ _ _ _ _ _ I n Hn). apply Hkeep; auto; [|lia]. apply (np_notX h3 root h4 g tb L DS); auto.
  - exists rs, o9. split; [exact J2|]. split; [reflexivity|]. split; [reflexivity|]. split; [exact Ho9|]. split; [reflexivity|].
    split; [reflexivity|]. split; [reflexivity|].
    destruct (t_base r2) as [bb|].
    + destruct R9 as (pmv2' & A & (rp & oc & B1 & B2 & B3 & B4) & C). exists pmv2'. split.
      * rewrite J6; auto. change (h_next h11) with (h_next h9). apply (x_lt_o _ _ W9). eapply get_keys; exact A.
      * exists rp, oc. split; [|split; [auto|split; [|auto]]].
        -- apply Hkeep; auto; [|lia]. intros Hx. apply (X_lt h3 root h4 g tb L DS) in Hx. lia.
        -- eapply Hres12; [|exact B3]. lia.
    + eapply Hres12; [|exact R9]. lia.
  - exact J4.
  - intros n par Hn Hp. destruct (J3 n par Hn (fun H => H) Hp) as (rc & oc & kd & ra & M1 & M2 & M3 & M4 & M5 & M6 & M7 & M8 & M9 & M10 & M11 & M12).
    exists rc, oc, kd, ra. repeat split; auto; lia.
  - intros n Hn. destruct (J5 n Hn (fun H => H)) as (r & Er & El). exists r. split; auto. rewrite El.
    apply filter_id. intros c0 _. reflexivity. Qed.

End Spec.
