(* HeapP2: the well-formedness predicate [wf] (Prop), its equivalence with the boolean [wfb], first consequences. *)
From Coq Require Import List Arith Bool PeanoNat Lia.
Import ListNotations.
From MG Require Import Model.Heap.
From MG.Proofs Require Import HeapP1 HeapWfb.

Definition hasbase (h : heap) (c : id) : bool :=
  match getT h c with Some rc => isSome (t_base rc) | None => false end.

(* a member c of the children list of t *)
Definition child_wf (h : heap) (t c : id) : Prop :=
  t < c /\ exists rc, getT h c = Some rc /\
    (t_base rc <> None -> t_grad rc = false /\ exists o ro, t_creator rc = Some o /\ getO h o = Some ro).

Definition tens_wf (h : heap) (t : id) (r : tens) : Prop :=
  t_children r < h_next h /\ t_ops r < h_next h /\ (forall b, t_base r = Some b -> b < t /\ exists rb, getT h b = Some rb) /\
  forall c, In c (lst_of h (t_children r)) -> child_wf h t c.

Definition oper_wf (h : heap) (r : oper) : Prop :=
  (forall v, In v (o_vars r) -> v < h_next h) /\ (forall v, In v (o_keep r) -> v < h_next h).

Record wf (h : heap) : Prop := mkWf {
  wf_nd_t : NoDup (keys (h_t h));
  wf_nd_o : NoDup (keys (h_o h));
  wf_nd_set : NoDup (keys (h_set h));
  wf_nd_lst : NoDup (keys (h_lst h));
  wf_nd_arr : NoDup (keys (h_arr h));
  wf_lt_t : forall k, In k (keys (h_t h)) -> k < h_next h;
  wf_lt_o : forall k, In k (keys (h_o h)) -> k < h_next h;
  wf_lt_set : forall k, In k (keys (h_set h)) -> k < h_next h;
  wf_lt_lst : forall k, In k (keys (h_lst h)) -> k < h_next h;
  wf_lt_arr : forall k, In k (keys (h_arr h)) -> k < h_next h;
  wf_tens : forall t r, getT h t = Some r -> tens_wf h t r;
  wf_oper : forall o r, getO h o = Some r -> oper_wf h r;
  (* no tensor is listed twice, in one list or in the lists of two tensors: the children lists form a forest *)
  wf_par : NoDup (flat_map (fun p => lst_of h (t_children (snd p))) (h_t h));
  (* different tensors own different list / set objects *)
  wf_pdc : NoDup (map (fun p => t_children (snd p)) (h_t h));
  wf_pdo : NoDup (map (fun p => t_ops (snd p)) (h_t h))
}.

(* ------------------------------------------------------------------ reflection *)

Lemma nodupb_NoDup l : nodupb l = true <-> NoDup l.
Proof. induction l; simpl.
  - split; auto. constructor.
  - rewrite andb_true_iff, negb_true_iff, mem_false, IHl. split.
    + intros [H1 H2]; constructor; auto.
    + intros H; inversion H; auto. Qed.

Lemma ltall_spec n l : ltall n l = true <-> forall k, In k l -> k < n.
Proof. unfold ltall. rewrite forallb_forall. split; intros H k Hk; specialize (H k Hk).
  - now apply Nat.ltb_lt. - now apply Nat.ltb_lt. Qed.

Lemma child_ok_spec h t c : child_ok h t c = true <-> child_wf h t c.
Proof. unfold child_ok, child_wf. rewrite andb_true_iff, Nat.ltb_lt.
  split; intros [H1 H2]; split; auto.
  - destruct (getT h c) as [rc|]; [|discriminate]. exists rc; split; auto.
    intros HB. apply orb_true_iff in H2. destruct H2 as [H2|H2].
    + destruct (t_base rc); simpl in *; congruence.
    + apply andb_true_iff in H2. destruct H2 as [H2 H3]. apply negb_true_iff in H2. split; auto.
      destruct (t_creator rc) as [o|]; [|discriminate]. destruct (getO h o) as [ro|] eqn:E; [|discriminate]. eauto.
  - destruct H2 as (rc & -> & H3). destruct (t_base rc) as [b|]; simpl; auto.
    destruct H3 as (H3 & o & ro & -> & ->); [discriminate|]. rewrite H3. reflexivity. Qed.

Lemma tens_ok_spec h t r : tens_ok h t r = true <-> tens_wf h t r.
Proof. unfold tens_ok, tens_wf. rewrite !andb_true_iff, !Nat.ltb_lt, forallb_forall.
  split.
  - intros [[[H1 H2] H3] H4]. split; [|split; [|split]]; auto.
    + intros b Hb. rewrite Hb in H3. apply andb_true_iff in H3. destruct H3 as [H3 H3']. split; [now apply Nat.ltb_lt|].
      destruct (getT h b) as [rb|]; [eauto|discriminate].
    + intros c Hc. apply child_ok_spec; auto.
  - intros (H1 & H2 & H3 & H4). split; [split; [split|]|]; auto.
    + destruct (t_base r) as [b|]; auto. destruct (H3 b eq_refl) as (H5 & rb & ->). simpl. rewrite andb_true_r. apply Nat.ltb_lt; auto.
    + intros c Hc. apply child_ok_spec; auto. Qed.

Lemma oper_ok_spec h r : oper_ok h r = true <-> oper_wf h r.
Proof. unfold oper_ok, oper_wf. now rewrite andb_true_iff, !ltall_spec. Qed.

Lemma forallb_pairs {A} (l : list (id * A)) (f : id -> A -> bool) :
  NoDup (keys l) ->
  (forallb (fun p => f (fst p) (snd p)) l = true <-> forall k v, get l k = Some v -> f k v = true).
Proof. intros ND. rewrite forallb_forall. split.
  - intros H k v Hg. apply (H (k, v)). now apply get_In.
  - intros H [k v] Hin. simpl. apply H. now apply In_get. Qed.

Theorem wfb_wf h : wfb h = true <-> wf h.
Proof. unfold wfb. rewrite !andb_true_iff, !nodupb_NoDup, !ltall_spec. split.
  - intros [[[[[[[[[[[[[[H1 H2] H3] H4] H5] H6] H7] H8] H9] H10] H11] H12] H13] H14] H15].
    constructor; auto.
    + intros t r Hg. apply tens_ok_spec. revert t r Hg. apply (forallb_pairs (h_t h) (tens_ok h)); auto.
    + intros o r Hg. apply oper_ok_spec. revert o r Hg. apply (forallb_pairs (h_o h) (fun _ => oper_ok h)); auto.
  - intros W. destruct W. repeat split; auto.
    + apply (forallb_pairs (h_t h) (tens_ok h)); auto. intros; apply tens_ok_spec; eauto.
    + apply (forallb_pairs (h_o h) (fun _ => oper_ok h)); auto. intros; apply oper_ok_spec; eauto. Qed.

Lemma wf_empty : wf empty_heap.
Proof. apply wfb_wf. reflexivity. Qed.

(* ------------------------------------------------------------------ consequences: the forest of children lists *)

Lemma getT_lt h t r : wf h -> getT h t = Some r -> t < h_next h.
Proof. intros W H. apply (wf_lt_t _ W). eapply get_keys; eauto. Qed.

Lemma kids_spec h t c : In c (kids h t) <-> exists r, getT h t = Some r /\ In c (lst_of h (t_children r)).
Proof. unfold kids. destruct (getT h t) as [r|]; split.
  - intros H; eauto. - intros (r' & E & H); congruence. - simpl; tauto. - intros (r' & E & _); discriminate. Qed.

Lemma kid_wf h t c : wf h -> In c (kids h t) -> child_wf h t c.
Proof. intros W H. apply kids_spec in H. destruct H as (r & Hr & Hc). exact (proj2 (proj2 (proj2 (wf_tens _ W _ _ Hr))) c Hc). Qed.

Lemma kid_gt h t c : wf h -> In c (kids h t) -> t < c.
Proof. intros W H. exact (proj1 (kid_wf _ _ _ W H)). Qed.

Lemma kid_alloc h t c : wf h -> In c (kids h t) -> exists rc, getT h c = Some rc.
Proof. intros W H. destruct (kid_wf _ _ _ W H) as (_ & rc & E & _); eauto. Qed.

Lemma NoDup_flat_map_inv {A B} (f : A -> list B) l :
  NoDup (flat_map f l) ->
  (forall a, In a l -> NoDup (f a)) /\
  (forall l1 a l2 b x, l = l1 ++ a :: l2 -> In b l2 -> In x (f a) -> In x (f b) -> False).
Proof. induction l as [|a0 r IH]; simpl; intros ND.
  - split; [tauto|]. intros [|] ? ? ? ? E; discriminate.
  - apply NoDup_app_inv in ND. destruct ND as (N1 & N2 & D). destruct (IH N2) as [IH1 IH2]. split.
    + intros a [<-|Ha]; auto.
    + intros [|a1 l1] a l2 b x E Hb Hxa Hxb; simpl in E; inversion E; subst.
      * apply (D x); auto. apply in_flat_map; eauto.
      * eapply IH2; eauto. Qed.

Lemma kids_NoDup h t : wf h -> NoDup (kids h t).
Proof. intros W. unfold kids. destruct (getT h t) as [r|] eqn:E; [|constructor].
  apply get_In in E. destruct (NoDup_flat_map_inv _ _ (wf_par _ W)) as [H _].
  apply (H (t, r) E). Qed.

Lemma kid_parent_unique h t1 t2 c : wf h -> In c (kids h t1) -> In c (kids h t2) -> t1 = t2.
Proof. intros W H1 H2. apply kids_spec in H1, H2. destruct H1 as (r1 & E1 & H1), H2 as (r2 & E2 & H2).
  destruct (Nat.eq_dec t1 t2) as [|N]; auto. exfalso.
  apply get_In in E1, E2.
  destruct (NoDup_flat_map_inv _ _ (wf_par _ W)) as [_ H].
  destruct (in_split _ _ E1) as (l1 & l2 & EQ).
  rewrite EQ in E2. apply in_app_or in E2. destruct E2 as [E2|[E2|E2]].
  - destruct (in_split _ _ E2) as (l3 & l4 & EQ2). subst l1.
    rewrite <- app_assoc in EQ. simpl in EQ. eapply (H l3 (t2, r2) (l4 ++ (t1, r1) :: l2) (t1, r1) c EQ); simpl; auto.
    rewrite in_app_iff; simpl; auto.
  - inversion E2; congruence.
  - eapply (H l1 (t1, r1) l2 (t2, r2) c EQ); simpl; auto. Qed.
