(* HeapP18: the success path of _in_place_op up to the re-creation of the views. *)
From Coq Require Import List Arith Bool PeanoNat Lia.
Import ListNotations.
From MG Require Import Model.Heap.
From MG.Proofs Require Import HeapP1 HeapWfb HeapP2 HeapP3 HeapP4 HeapP5 HeapP6 HeapP7 HeapP8 HeapP10 HeapP11 HeapP12 HeapP13 HeapP14 HeapP15 HeapP16 HeapP17.

Section Success.
Variables (h3 : heap) (root : id) (h4 : heap) (g : list node) (tb : tens) (L : list id).
Hypothesis W3 : wf h3.
Hypothesis DS : DupSpec h3 root h4 g tb L.

Let X := map n_t g.
Let I : Inv h3 (h_next h3) (t_base tb) h4 g L := ds_inv _ _ _ _ _ _ DS.

Lemma X_lt x : In x X -> x < h_next h3.
Proof. intros Hx. apply in_map_iff in Hx. destruct Hx as (n & <- & Hn). apply (i_tlt _ _ _ _ _ _ I n Hn). Qed.

Lemma next34 : h_next h3 <= h_next h4.
Proof. apply (i_next _ _ _ _ _ _ I). Qed.

Lemma node_nonroot n : In n g -> n_t n <> root -> exists q, n_parent n = Some q /\ In (n_t n) (fkids h3 q) /\ In q X.
Proof. intros Hn Hr. pose proof (g_parent h3 root h4 g tb L DS n Hn) as HP.
  destruct (n_parent n) as [q|] eqn:Eq.
  - exists q. split; auto. split; auto. eapply g_parent_in; eauto.
  - subst n. exfalso. apply Hr. reflexivity. Qed.

Lemma Unl_h4 : Unl X root h4.
Proof. intros t r c E Hc HcX Hcr.
  destruct (h1_lister h3 root h4 g tb L W3 DS t r c E Hc (X_lt c HcX)) as (Ht & E3 & Hc3).
  apply in_map_iff in HcX. destruct HcX as (n & <- & Hn).
  destruct (node_nonroot n Hn Hcr) as (q & Eq & Hfk & HqX).
  assert (t = q); [|now subst].
  eapply (kid_parent_unique h3 t q (n_t n) W3).
  - apply kids_spec. eauto. - now apply fkids_kids. Qed.

Lemma parent_before n par g1 gs : g = g1 ++ n :: gs -> n_parent n = Some par -> In par (map n_t g1).
Proof. intros Eg Hp. assert (Hn : In n g) by (rewrite Eg; apply in_or_app; simpl; auto).
  destruct (i_pord _ _ _ _ _ _ I n par Hn Hp) as (nq & Hq & <- & Hlt).
  rewrite Eg in Hq. apply in_app_or in Hq. destruct Hq as [Hq|[<-|Hq]].
  - now apply in_map. - lia.
  - pose proof (i_psort _ _ _ _ _ _ I g1 n gs Eg nq Hq). lia. Qed.

(* ------------------------------------------------------------------ the frozen phase *)
Definition FZ (hh : heap) : Prop := wfx X hh /\ Unl X root hh /\ Ext X h4 hh.

Lemma FZ_h4 : FZ h4.
Proof. split; [apply (dup_wfx h3 root h4 g tb L W3 DS)|]. split; [apply Unl_h4|apply Ext_refl]. Qed.

Lemma Unl_same hh hh' : h_t hh' = h_t hh -> h_lst hh' = h_lst hh -> Unl X root hh -> Unl X root hh'.
Proof. intros E1 E2 U t r c E Hc. unfold getT in E. rewrite E1 in E. unfold lst_of in Hc. rewrite E2 in Hc. eapply U; eauto. Qed.

Lemma FZ_new_array hh base buf hh' a : FZ hh -> new_array hh base buf = (hh', a) -> FZ hh'.
Proof. intros (W & U & E) NA. split; [eapply wfx_new_array; eauto|]. split.
  - pose proof (new_array_spec _ _ _ _ _ NA) as (N1 & _ & _ & N4 & _). eapply Unl_same; eauto.
  - eapply Ext_trans; eauto. eapply Ext_new_array; eauto. Qed.

Lemma FZ_view_array hh a0 hh' a : FZ hh -> view_array hh a0 = Some (hh', a) -> FZ hh'.
Proof. intros (W & U & E) VA. split; [eapply wfx_view_array; eauto|]. split.
  - pose proof (view_array_spec _ _ _ _ VA) as (N1 & _ & _ & N4 & _). eapply Unl_same; eauto.
  - eapply Ext_trans; eauto. eapply Ext_view_array; eauto. Qed.

Lemma FZ_X_lt hh x : FZ hh -> In x X -> x < h_next hh.
Proof. intros (_ & _ & E) Hx. pose proof (e_next _ _ _ E). pose proof next34. apply X_lt in Hx. lia. Qed.

Lemma FZ_apply_op hh k vars keep d hh' t : FZ hh ->
  (forall v, In v vars -> ~ In v X) -> (forall v, In v vars -> v < h_next hh) -> (forall v, In v keep -> v < h_next hh) ->
  apply_op hh k vars keep d = Some (hh', t) ->
  FZ hh' /\ FreshT hh' t /\ ApplyOp hh k vars keep d hh' t /\ Ext X hh hh'.
Proof. intros F Hv1 Hv2 Hk H. pose proof F as (W & U & E).
  destruct (apply_op_frozen X root hh k vars keep d hh' t W U (fun x => FZ_X_lt hh x F) Hv1 Hv2 Hk H) as (W' & U' & E' & Fr & S).
  split; [|auto]. split; auto. split; auto. eapply Ext_trans; eauto. Qed.

(* placeholders are never frozen; an input that belongs to the family is read through its placeholder *)
Lemma phx_notX v : v < h_next h3 -> ~ In (ph_if_exists g v) X.
Proof. intros Hv Hin. unfold ph_if_exists in Hin. destruct (gfind g v) as [n|] eqn:E.
  - apply gfind_In in E. apply X_lt in Hin. pose proof (i_p _ _ _ _ _ _ I n (proj1 E)). lia.
  - apply gfind_None in E. tauto. Qed.

Lemma np_notX n : In n g -> ~ In (n_p n) X.
Proof. intros Hn Hin. apply X_lt in Hin. pose proof (i_p _ _ _ _ _ _ I n Hn). lia. Qed.

Lemma FZ_alloc hh t r : FZ hh -> getT h4 t = Some r -> exists r', getT hh t = Some r' /\ weaker r r' /\ t_data r' = t_data r.
Proof. intros (_ & _ & E). apply (e_alloc _ _ _ E). Qed.

Lemma phx_alloc hh v r : FZ hh -> getT h3 v = Some r -> getT hh (ph_if_exists g v) <> None /\ ph_if_exists g v < h_next hh.
Proof. intros F E. pose proof F as (Wh & _ & Ex).
  assert (exists r4, getT h4 (ph_if_exists g v) = Some r4) as (r4 & E4).
  { unfold ph_if_exists. destruct (gfind g v) as [n|] eqn:Eg.
    - apply gfind_In in Eg. destruct (ph_final h3 root h4 g tb L W3 DS n (proj1 Eg)) as (r0 & l & _ & _ & F3 & _). eauto.
    - exists r. eapply h1_orig; eauto. }
  destruct (FZ_alloc hh _ _ F E4) as (r' & E' & _). split; [congruence|].
  apply (x_lt_t _ _ Wh). eapply get_keys; exact E'. Qed.

End Success.
