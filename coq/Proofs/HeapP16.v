(* HeapP16: the heap produced by DuplicatingGraph is well formed, except that every original shares its _ops set with its
   placeholder: wfx (map n_t g) h1. *)
From Coq Require Import List Arith Bool PeanoNat Lia.
Import ListNotations.
From MG Require Import Model.Heap.
From MG.Proofs Require Import HeapP1 HeapWfb HeapP2 HeapP3 HeapP4 HeapP5 HeapP6 HeapP7 HeapP8 HeapP10 HeapP11 HeapP12.

Section DupWfx.
Variables (h0 : heap) (b : id) (h1 : heap) (g : list node) (tb : tens) (L : list id).
Hypothesis W : wf h0.
Hypothesis DS : DupSpec h0 b h1 g tb L.

Let bph := h_next h0.
Let rb := t_base tb.
Let I : Inv h0 bph rb h1 g L := ds_inv _ _ _ _ _ _ DS.
Let W0 : wfx [] h0 := proj2 (wfx_nil h0) W.

(* a tensor of h1 is an original (unchanged) or a placeholder *)
Lemma h1_tensor q r : getT h1 q = Some r ->
  (q < h_next h0 /\ getT h0 q = Some r) \/
  (exists n r0 l, In n g /\ q = n_p n /\ getT h0 (n_t n) = Some r0 /\ t_grad r0 = false /\
                  r = with_children (with_base r0 (bb bph rb n)) l /\ h_next h0 <= l < h_next h1 /\
                  lst_of h1 l = map (ph_if_exists g) (fkids h0 (n_t n))).
Proof. intros E. assert (In q (keys (h_t h1))) as Hk by (eapply get_keys; exact E).
  rewrite (i_tkeys _ _ _ _ _ _ I), in_app_iff in Hk. destruct Hk as [Hk|Hk].
  - left. apply (wf_lt_t _ W) in Hk. split; auto. rewrite <- (i_tget _ _ _ _ _ _ I); auto.
  - right. apply in_map_iff in Hk. destruct Hk as (n & <- & Hn).
    destruct (ph_final h0 b h1 g tb L W DS n Hn) as (r0 & l & E1 & E2 & E3 & E4 & E5 & E6).
    exists n, r0, l. rewrite E3 in E. inversion E; subst r. repeat split; auto.
    + apply (i_L _ _ _ _ _ _ I) in E5. lia.
    + unfold lst_of. now rewrite E6. Qed.

Lemma h1_lst_old p : p < h_next h0 -> lst_of h1 p = lst_of h0 p.
Proof. intros Hp. unfold lst_of. now rewrite (i_lget _ _ _ _ _ _ I). Qed.

Lemma h1_orig q r : getT h0 q = Some r -> getT h1 q = Some r.
Proof. intros E. rewrite (i_tget _ _ _ _ _ _ I); auto. eapply getT_lt; eauto. Qed.

Lemma h1_op q r : getO h0 q = Some r -> exists r', getO h1 q = Some r'.
Proof. intros E. rewrite (i_oget _ _ _ _ _ _ I), E. simpl. eauto. Qed.

Lemma root_node : In (b, h_next h0, None) g.
Proof. destruct (ds_head _ _ _ _ _ _ DS) as (g2 & ->). simpl; auto. Qed.

Lemma nd_in c : In c (map n_t g) -> In (nd g c) g /\ n_t (nd g c) = c.
Proof. intros Hc. apply in_map_iff in Hc. destruct Hc as (n & <- & Hn).
  rewrite (nd_t h0 b h1 g tb L DS n Hn). auto. Qed.

Lemma phx_fam c : In c (map n_t g) -> ph_if_exists g c = n_p (nd g c).
Proof. intros Hc. unfold ph_if_exists, nd. apply in_map_iff in Hc. destruct Hc as (n & <- & Hn).
  now rewrite (gfind_orig h0 b h1 g tb L DS n Hn). Qed.

Lemma fkid_in_g n c : In n g -> In c (fkids h0 (n_t n)) -> In c (map n_t g) /\ n_parent (nd g c) = Some (n_t n).
Proof. intros Hn Hc.
  destruct (ph_final h0 b h1 g tb L W DS n Hn) as (r0 & l & E1 & E2 & E3 & E4 & E5 & E6).
  destruct (i_ph _ _ _ _ _ _ I n Hn) as (r0' & rp & F1 & F2 & F3 & F4).
  rewrite E3 in F2. inversion F2; subst rp. destruct F4 as [F4|(l' & _ & _ & _ & F5)].
  - exfalso. apply (f_equal t_children) in F4. simpl in F4. rewrite E1 in F1. inversion F1; subst r0'.
    pose proof (proj1 (wf_tens _ W _ _ E1)). lia.
  - assert (Hcg : In c (map n_t g)) by auto. split; auto.
    destruct (nd_in c Hcg) as (Hnd & Hndt).
    pose proof (g_parent h0 b h1 g tb L DS (nd g c) Hnd) as HP.
    destruct (n_parent (nd g c)) as [q|] eqn:Eq.
    + f_equal. rewrite Hndt in HP. eapply kid_parent_unique; eauto using fkids_kids.
    + (* c would be the root: but the root is not below any member *)
      exfalso. rewrite HP in Hndt. unfold n_t in Hndt; simpl in Hndt. subst c.
      apply fkids_kids in Hc. apply (kid_gt _ _ _ W) in Hc.
      assert (desc h0 b (n_t n)).
      { pose proof (ds_pre _ _ _ _ _ _ DS) as HPre.
        assert (In (n_t n) (map fst (pre (dup_fuel h0) h0 None b))).
        { rewrite <- HPre, map_map. apply in_map_iff. exists n. auto. }
        eapply pre_desc; eauto. }
      apply (desc_le _ _ _ W) in H. lia. Qed.

Lemma ph_lt n c : In n g -> In c (fkids h0 (n_t n)) -> n_p n < ph_if_exists g c.
Proof. intros Hn Hc. destruct (fkid_in_g n c Hn Hc) as (Hcg & Hpar).
  rewrite (phx_fam c Hcg). destruct (nd_in c Hcg) as (Hnd & Hndt).
  destruct (i_pord _ _ _ _ _ _ I (nd g c) (n_t n) Hnd Hpar) as (nq & A & B & C).
  assert (nq = n) by (eapply NoDup_map_inj; [apply (i_tnd _ _ _ _ _ _ I)| | |]; auto). now subst nq. Qed.

Lemma phx_inj c1 c2 : In c1 (map n_t g) -> In c2 (map n_t g) -> ph_if_exists g c1 = ph_if_exists g c2 -> c1 = c2.
Proof. intros H1 H2 E. rewrite (phx_fam c1 H1), (phx_fam c2 H2) in E.
  destruct (nd_in c1 H1) as (A1 & B1). destruct (nd_in c2 H2) as (A2 & B2).
  assert (nd g c1 = nd g c2) by (eapply NoDup_map_inj; [apply (i_pnd _ _ _ _ _ _ I)| | |]; auto). congruence. Qed.

Lemma child_wf_h1 t c : child_wf h0 t c -> child_wf h1 t c.
Proof. apply child_wf_mono.
  - intros r E. exists r. split; [now apply h1_orig|apply weaker_refl].
  - intros q r E. now apply (h1_op q r). Qed.

Theorem dup_wfx : wfx (map n_t g) h1.
Proof. constructor.
  - apply (Inv_nd_t h0 bph rb W h1 g L I).
  - rewrite (i_okeys _ _ _ _ _ _ I). apply W.
  - rewrite (i_set _ _ _ _ _ _ I). apply W.
  - apply (Inv_nd_lst h0 bph rb W h1 g L I).
  - rewrite (i_arr _ _ _ _ _ _ I). apply W.
  - intros k Hk. rewrite (i_tkeys _ _ _ _ _ _ I), in_app_iff in Hk. destruct Hk as [Hk|Hk].
    + apply (wf_lt_t _ W) in Hk. pose proof (i_next _ _ _ _ _ _ I). lia.
    + apply in_map_iff in Hk. destruct Hk as (n & <- & Hn). apply (i_p _ _ _ _ _ _ I n Hn).
  - intros k Hk. rewrite (i_okeys _ _ _ _ _ _ I) in Hk. apply (wf_lt_o _ W) in Hk. pose proof (i_next _ _ _ _ _ _ I). lia.
  - intros k Hk. rewrite (i_set _ _ _ _ _ _ I) in Hk. apply (wf_lt_set _ W) in Hk. pose proof (i_next _ _ _ _ _ _ I). lia.
  - intros k Hk. rewrite (i_lkeys _ _ _ _ _ _ I), in_app_iff in Hk. destruct Hk as [Hk|Hk].
    + apply (wf_lt_lst _ W) in Hk. pose proof (i_next _ _ _ _ _ _ I). lia.
    + apply (i_L _ _ _ _ _ _ I) in Hk. lia.
  - intros k Hk. rewrite (i_arr _ _ _ _ _ _ I) in Hk. apply (wf_lt_arr _ W) in Hk. pose proof (i_next _ _ _ _ _ _ I). lia.
  - (* tensors *)
    intros q r E. pose proof (i_next _ _ _ _ _ _ I) as HN.
    destruct (h1_tensor q r E) as [(Hq & E0)|(n & r0 & l & Hn & -> & E0 & G0 & -> & Hl & Hlst)].
    + destruct (wf_tens _ W q r E0) as (A & B & C & D). split; [lia|]. split; [lia|]. split.
      * intros b0 Eb. destruct (C b0 Eb) as (C1 & rb0 & C2). split; auto. exists rb0. now apply h1_orig.
      * intros c Hc. rewrite (h1_lst_old _ A) in Hc. apply child_wf_h1. auto.
    + destruct (wf_tens _ W _ _ E0) as (A & B & C & D). simpl.
      split; [simpl; lia|]. split; [simpl; lia|]. split.
      * simpl. intros b0 Eb. unfold bb in Eb. destruct (n_parent n) as [qq|] eqn:Epar.
        -- inversion Eb; subst b0. pose proof root_node as HR.
           assert (n_p n <> bph).
           { intros Ep. assert (n = (b, h_next h0, None)) by (eapply NoDup_map_inj; [apply (i_pnd _ _ _ _ _ _ I)| | |]; auto).
             subst n. unfold n_parent in Epar; simpl in Epar. discriminate. }
           pose proof (i_p _ _ _ _ _ _ I n Hn). split; [destruct (Nat.eq_dec (n_p n) bph) as [Q|Q]; [congruence|unfold bph in *; lia]|].
           destruct (ph_final h0 b h1 g tb L W DS _ HR) as (r1 & l1 & _ & _ & F & _). unfold n_p in F; simpl in F. eauto.
        -- pose proof (g_parent h0 b h1 g tb L DS n Hn) as HP. rewrite Epar in HP. subst n.
           unfold n_t in E0; simpl in E0. pose proof (ds_b _ _ _ _ _ _ DS) as Hb. rewrite Hb in E0. inversion E0; subst r0.
           unfold rb in Eb. destruct (C b0 Eb) as (C1 & rb0 & C2). unfold n_p; simpl.
           unfold n_t in C1; simpl in C1. split; [apply (getT_lt _ _ _ W) in Hb; lia|]. exists rb0. now apply h1_orig.
      * simpl. rewrite Hlst. intros c' Hc'. apply in_map_iff in Hc'. destruct Hc' as (c & <- & Hc).
        destruct (fkid_in_g n c Hn Hc) as (Hcg & Hpar). destruct (nd_in c Hcg) as (Hnd & Hndt).
        split; [now apply ph_lt|].
        destruct (ph_final h0 b h1 g tb L W DS _ Hnd) as (rc & lc & F1 & F2 & F3 & _).
        rewrite (phx_fam c Hcg). eexists. split; [exact F3|]. simpl. intros _. split; auto.
        rewrite Hndt in F1.
        destruct (kid_wf _ _ _ W (fkids_kids _ _ _ Hc)) as (_ & rc' & Erc & K). rewrite F1 in Erc. inversion Erc; subst rc'.
        unfold fkids in Hc. apply filter_In in Hc. destruct Hc as [_ Hb]. unfold hasbase in Hb. rewrite F1 in Hb.
        destruct K as (_ & o & ro & Eo & Ego); [destruct (t_base rc); discriminate|].
        destruct (h1_op o ro Ego) as (ro' & Ego'). exists o, ro'. auto.
  - (* operations *)
    intros o r E. rewrite (i_oget _ _ _ _ _ _ I) in E. destruct (getO h0 o) as [r0|] eqn:E0; [|discriminate].
    simpl in E. inversion E; subst r. destruct (wf_oper _ W _ _ E0) as (A & B). pose proof (i_next _ _ _ _ _ _ I) as HN.
    split; simpl.
    + intros v Hv. apply in_map_iff in Hv. destruct Hv as (v0 & <- & Hv0). apply A in Hv0.
      unfold sigma. destruct (mem o (ops_of h0 v0)); [|lia].
      unfold ph_if_exists. destruct (gfind g v0) as [n|] eqn:Eg; [|lia].
      apply gfind_In in Eg. apply (i_p _ _ _ _ _ _ I n (proj1 Eg)).
    + intros v Hv. apply B in Hv. lia.
  - (* NoDup of each list *)
    intros q r E.
    destruct (h1_tensor q r E) as [(Hq & E0)|(n & r0 & l & Hn & -> & E0 & G0 & -> & Hl & Hlst)].
    + rewrite (h1_lst_old _ (proj1 (wf_tens _ W q r E0))). apply (x_kids_nd _ _ W0 q r E0).
    + simpl. rewrite Hlst. apply (proj2 (NoDup_map_iff (ph_if_exists g) (fkids h0 (n_t n)) (fkids_NoDup _ _ W))).
      intros c1 c2 H1 H2 Eq. apply phx_inj; auto; eapply fkid_in_g; eauto.
  - (* one parent *)
    intros t1 r1 t2 r2 c H1 H2 Hc1 Hc2.
    destruct (h1_tensor t1 r1 H1) as [(Hq1 & E1)|(n1 & r01 & l1 & Hn1 & -> & E1 & G1 & -> & Hl1 & Hlst1)];
    destruct (h1_tensor t2 r2 H2) as [(Hq2 & E2)|(n2 & r02 & l2 & Hn2 & -> & E2 & G2 & -> & Hl2 & Hlst2)].
    + rewrite (h1_lst_old _ (proj1 (wf_tens _ W _ _ E1))) in Hc1. rewrite (h1_lst_old _ (proj1 (wf_tens _ W _ _ E2))) in Hc2.
      eapply (x_par _ _ W0); eauto.
    + exfalso. rewrite (h1_lst_old _ (proj1 (wf_tens _ W _ _ E1))) in Hc1. simpl in Hc2. rewrite Hlst2 in Hc2.
      destruct (proj2 (proj2 (proj2 (wf_tens _ W _ _ E1))) c Hc1) as (_ & rc & Erc & _). apply (getT_lt _ _ _ W) in Erc.
      apply in_map_iff in Hc2. destruct Hc2 as (c2 & <- & Hc2). pose proof (ph_lt n2 c2 Hn2 Hc2). pose proof (i_p _ _ _ _ _ _ I n2 Hn2). lia.
    + exfalso. rewrite (h1_lst_old _ (proj1 (wf_tens _ W _ _ E2))) in Hc2. simpl in Hc1. rewrite Hlst1 in Hc1.
      destruct (proj2 (proj2 (proj2 (wf_tens _ W _ _ E2))) c Hc2) as (_ & rc & Erc & _). apply (getT_lt _ _ _ W) in Erc.
      apply in_map_iff in Hc1. destruct Hc1 as (c1 & <- & Hc1). pose proof (ph_lt n1 c1 Hn1 Hc1). pose proof (i_p _ _ _ _ _ _ I n1 Hn1). lia.
    + simpl in Hc1, Hc2. rewrite Hlst1 in Hc1. rewrite Hlst2 in Hc2.
      apply in_map_iff in Hc1. destruct Hc1 as (c1 & <- & Hc1). apply in_map_iff in Hc2. destruct Hc2 as (c2 & Eq & Hc2).
      destruct (fkid_in_g n1 c1 Hn1 Hc1) as (Hg1 & _). destruct (fkid_in_g n2 c2 Hn2 Hc2) as (Hg2 & _).
      apply phx_inj in Eq; auto. subst c2.
      assert (n_t n1 = n_t n2) by (eapply kid_parent_unique; eauto using fkids_kids).
      assert (n1 = n2) by (eapply NoDup_map_inj; [apply (i_tnd _ _ _ _ _ _ I)| | |]; auto). now subst.
  - (* lists are not shared *)
    intros t1 r1 t2 r2 H1 H2 Eq.
    destruct (h1_tensor t1 r1 H1) as [(Hq1 & E1)|(n1 & r01 & l1 & Hn1 & -> & E1 & G1 & -> & Hl1 & Hlst1)];
    destruct (h1_tensor t2 r2 H2) as [(Hq2 & E2)|(n2 & r02 & l2 & Hn2 & -> & E2 & G2 & -> & Hl2 & Hlst2)].
    + eapply (x_pdc _ _ W0); eauto.
    + exfalso. simpl in Eq. pose proof (proj1 (wf_tens _ W _ _ E1)). lia.
    + exfalso. simpl in Eq. pose proof (proj1 (wf_tens _ W _ _ E2)). lia.
    + f_equal. eapply (i_ldist _ _ _ _ _ _ I n1 n2); eauto. simpl. lia.
  - (* sets are shared only between an original and its placeholder *)
    intros t1 r1 t2 r2 H1 H2 X1 X2 Eq.
    destruct (h1_tensor t1 r1 H1) as [(Hq1 & E1)|(n1 & r01 & l1 & Hn1 & -> & E1 & G1 & -> & Hl1 & Hlst1)];
    destruct (h1_tensor t2 r2 H2) as [(Hq2 & E2)|(n2 & r02 & l2 & Hn2 & -> & E2 & G2 & -> & Hl2 & Hlst2)].
    + eapply (x_pdo _ _ W0 t1 r1 t2 r2); eauto.
    + exfalso. simpl in Eq. apply X1. assert (t1 = n_t n2) by (eapply (x_pdo _ _ W0 t1 r1 (n_t n2) r02); eauto).
      subst t1. now apply in_map.
    + exfalso. simpl in Eq. apply X2. assert (n_t n1 = t2) by (eapply (x_pdo _ _ W0 (n_t n1) r01 t2 r2); eauto).
      subst t2. now apply in_map.
    + simpl in Eq. assert (n_t n1 = n_t n2) by (eapply (x_pdo _ _ W0 (n_t n1) r01 (n_t n2) r02); eauto).
      f_equal. eapply NoDup_map_inj; [apply (i_tnd _ _ _ _ _ _ I)| | |]; auto. Qed.

(* who lists an original in h1: the same tensors as in h0 *)
Lemma h1_lister t r c : getT h1 t = Some r -> In c (lst_of h1 (t_children r)) -> c < h_next h0 ->
  t < h_next h0 /\ getT h0 t = Some r /\ In c (lst_of h0 (t_children r)).
Proof. intros E Hc Hlt.
  destruct (h1_tensor t r E) as [(Hq & E0)|(n & r0 & l & Hn & -> & E0 & G0 & -> & Hl & Hlst)].
  - rewrite (h1_lst_old _ (proj1 (wf_tens _ W _ _ E0))) in Hc. auto.
  - exfalso. simpl in Hc. rewrite Hlst in Hc. apply in_map_iff in Hc. destruct Hc as (c0 & <- & Hc0).
    pose proof (ph_lt n c0 Hn Hc0). pose proof (i_p _ _ _ _ _ _ I n Hn). lia. Qed.

End DupWfx.
