(* HeapP7: restore_old_graph and free_placeholders undo DuplicatingGraph: T1 dup_restore. *)
From Coq Require Import List Arith Bool PeanoNat Lia.
Import ListNotations.
From MG Require Import Model.Heap.
From MG.Proofs Require Import HeapP1 HeapWfb HeapP2 HeapP3 HeapP4 HeapP5 HeapP6.

(* ------------------------------------------------------------------ deleting several keys *)
Fixpoint dels {A} (l : list (id * A)) (ks : list id) : list (id * A) :=
  match ks with [] => l | k :: r => dels (del l k) r end.

Lemma filter_id {A} (f : A -> bool) l : (forall x, In x l -> f x = true) -> filter f l = l.
Proof. induction l; simpl; intros H; auto. rewrite H by auto. f_equal. apply IHl; auto. Qed.

Lemma filter_none {A} (f : A -> bool) l : (forall x, In x l -> f x = false) -> filter f l = [].
Proof. induction l; simpl; intros H; auto. rewrite H by auto. apply IHl; auto. Qed.

Lemma keys_del_filter {A} (l : list (id * A)) k : NoDup (keys l) ->
  keys (del l k) = filter (fun x => negb (Nat.eqb x k)) (keys l).
Proof. induction l as [|[k0 v0] r IH]; simpl; auto. intros ND; inversion ND; subst.
  destruct (Nat.eqb k k0) eqn:E.
  - apply Nat.eqb_eq in E; subst k0. rewrite Nat.eqb_refl. simpl.
    symmetry. apply filter_id. intros x Hx. apply negb_true_iff, Nat.eqb_neq. intros ->; tauto.
  - rewrite Nat.eqb_sym, E. simpl. f_equal. auto. Qed.

Lemma keys_dels {A} ks : forall (l : list (id * A)), NoDup (keys l) ->
  NoDup (keys (dels l ks)) /\ keys (dels l ks) = filter (fun x => negb (mem x ks)) (keys l).
Proof. induction ks as [|k ks IH]; intros l ND; simpl.
  - split; auto. symmetry. apply filter_id. auto.
  - destruct (IH (del l k) (NoDup_keys_del l k ND)) as [H1 H2]. split; auto.
    rewrite H2, keys_del_filter by auto. clear. induction (keys l); simpl; auto.
    destruct (Nat.eqb a k); simpl; auto. destruct (mem a ks); simpl; auto. now f_equal. Qed.

Lemma get_dels {A} ks : forall (l : list (id * A)) k, ~ In k ks -> get (dels l ks) k = get l k.
Proof. induction ks as [|k0 ks IH]; intros l k H; simpl; auto.
  rewrite IH by (simpl in H; tauto). apply get_del_ne. simpl in H. intros ->; tauto. Qed.

Lemma dels_restore {A} (l l0 : list (id * A)) E ks :
  NoDup (keys l) -> keys l = keys l0 ++ E ->
  (forall k, In k ks -> ~ In k (keys l0)) -> (forall e, In e E -> In e ks) ->
  (forall k, In k (keys l0) -> get l k = get l0 k) ->
  dels l ks = l0.
Proof. intros ND HK H1 H2 H3. destruct (keys_dels ks l ND) as [N2 K2].
  assert (KE : keys (dels l ks) = keys l0).
  { rewrite K2, HK, filter_app. rewrite filter_id, filter_none.
    - apply app_nil_r.
    - intros x Hx. apply negb_false_iff, mem_In. auto.
    - intros x Hx. apply negb_true_iff, mem_false. intros Hk. eapply H1; eauto. }
  apply table_ext; auto. intros k Hk. rewrite KE in Hk.
  rewrite get_dels; auto. intros Hks. eapply H1; eauto. Qed.

(* ------------------------------------------------------------------ sigma on a suffix of the graph *)
Section Suffix.
Variables (h0 : heap) (N : id).

Definition good (gs : list node) : Prop :=
  NoDup (map n_t gs) /\ NoDup (map n_p gs) /\ forall n, In n gs -> n_t n < N <= n_p n.

Lemma good_tl n gs : good (n :: gs) -> good gs.
Proof. intros (A & B & C). simpl in A, B. inversion A; inversion B; subst.
  split; [assumption|]. split; [assumption|]. intros; apply C; simpl; auto. Qed.

Lemma gfind_small_none gs v : good gs -> v < N -> ~ In v (map n_t gs) -> gfind gs v = None.
Proof. intros (A & B & C) Hv Hn. destruct (gfind gs v) as [n|] eqn:E; auto. exfalso.
  apply gfind_In in E. destruct E as [Hin [->| ->]].
  - apply Hn. now apply in_map. - apply C in Hin. lia. Qed.

Lemma sigma_step n gs o v : good (n :: gs) -> v < N ->
  (let w := sigma h0 (n :: gs) o v in
   if mem o (ops_of h0 (n_t n)) then (if Nat.eqb w (n_p n) then n_t n else w) else w) = sigma h0 gs o v.
Proof. intros G Hv. pose proof (good_tl _ _ G) as G'. destruct G as (A & B & C).
  inversion A as [|? ? A1 A2]; inversion B as [|? ? B1 B2]; subst.
  assert (Cn := C n (or_introl eq_refl)).
  simpl. destruct (Nat.eq_dec v (n_t n)) as [->|Nv].
  - assert (Hnone : gfind gs (n_t n) = None) by (apply gfind_small_none; auto).
    unfold sigma. destruct (mem o (ops_of h0 (n_t n))) eqn:Em; auto.
    unfold ph_if_exists, gfind. simpl. rewrite Nat.eqb_refl. simpl. rewrite Nat.eqb_refl.
    fold (gfind gs (n_t n)). now rewrite Hnone.
  - assert (EQ : sigma h0 (n :: gs) o v = sigma h0 gs o v).
    { unfold sigma. destruct (mem o (ops_of h0 v)); auto. unfold ph_if_exists, gfind. simpl.
      assert (Nat.eqb v (n_t n) = false) as -> by (apply Nat.eqb_neq; auto).
      assert (Nat.eqb v (n_p n) = false) as -> by (apply Nat.eqb_neq; lia). reflexivity. }
    rewrite EQ. destruct (mem o (ops_of h0 (n_t n))); auto.
    assert (Nat.eqb (sigma h0 gs o v) (n_p n) = false) as ->; auto.
    apply Nat.eqb_neq. unfold sigma. destruct (mem o (ops_of h0 v)); [|lia].
    unfold ph_if_exists. destruct (gfind gs v) as [n'|] eqn:E; [|lia].
    apply gfind_In in E. destruct E as [Hin _]. intros E. apply B1. rewrite <- E. now apply in_map. Qed.

Lemma sigma_nil o v : sigma h0 [] o v = v.
Proof. unfold sigma, ph_if_exists. simpl. now destruct (mem o (ops_of h0 v)). Qed.

End Suffix.

(* ------------------------------------------------------------------ restore *)

Definition rs_step (acc : option heap) (n : node) : option heap :=
  match acc with None => None | Some h1 => reroute h1 (n_p n) (n_t n) end.

Definition fp_step (h1 : heap) (n : node) : heap :=
  match getT h1 (n_p n), getT h1 (n_t n) with
  | Some tp, Some rt => let h2 := delT h1 (n_p n) in
                        if Nat.eqb (t_children tp) (t_children rt) then h2 else delL h2 (t_children tp)
  | _, _ => h1 end.

Lemma free_fold (lpf : node -> id) gs : forall h,
  NoDup (map n_p gs) ->
  (forall n, In n gs -> exists tp rt, getT h (n_p n) = Some tp /\ getT h (n_t n) = Some rt /\
                                      t_children tp = lpf n /\ lpf n <> t_children rt) ->
  (forall n n', In n gs -> In n' gs -> n_t n <> n_p n') ->
  fold_left fp_step gs h =
  mkH (dels (h_t h) (map n_p gs)) (h_o h) (h_set h) (dels (h_lst h) (map lpf gs)) (h_arr h) (h_next h).
Proof. induction gs as [|n gs IH]; intros h ND HR HD; simpl.
  - now destruct h.
  - destruct (HR n (or_introl eq_refl)) as (tp & rt & E1 & E2 & E3 & E4).
    unfold fp_step at 2. rewrite E1, E2. rewrite E3.
    assert (Nat.eqb (lpf n) (t_children rt) = false) as -> by (apply Nat.eqb_neq; auto).
    inversion ND; subst. rewrite IH; auto.
    + intros n' Hn'. destruct (HR n' (or_intror Hn')) as (tp' & rt' & F1 & F2 & F3 & F4).
      exists tp', rt'. unfold getT, delL, delT in *; simpl. rewrite !get_del_ne; auto.
      * apply not_eq_sym. apply HD; simpl; auto.
      * intros E. apply H1. rewrite E. now apply in_map.
    + intros; apply HD; simpl; auto. Qed.

Section Restore.
Variables (h0 : heap) (b : id) (h1 : heap) (g : list node) (tb : tens) (L : list id).
Hypothesis W : wf h0.
Hypothesis DS : DupSpec h0 b h1 g tb L.

Let I := ds_inv _ _ _ _ _ _ DS.

Lemma g_good : good (h_next h0) g.
Proof. split; [apply (i_tnd _ _ _ _ _ _ I)|]. split; [apply (i_pnd _ _ _ _ _ _ I)|].
  intros n Hn. pose proof (i_tlt _ _ _ _ _ _ I n Hn). pose proof (i_p _ _ _ _ _ _ I n Hn). lia. Qed.

Definition RInv (gs : list node) (h : heap) : Prop :=
  h_t h = h_t h1 /\ h_set h = h_set h0 /\ h_lst h = h_lst h1 /\ h_arr h = h_arr h0 /\ h_next h = h_next h1 /\
  keys (h_o h) = keys (h_o h0) /\
  forall o, getO h o = option_map (fun r0 => mkO (o_kind r0) (map (sigma h0 gs o) (o_vars r0)) (o_keep r0)) (getO h0 o).

Lemma RInv_h1 : RInv g h1.
Proof. repeat split; auto.
  - apply (i_set _ _ _ _ _ _ I). - apply (i_arr _ _ _ _ _ _ I). - apply (i_okeys _ _ _ _ _ _ I). - apply (i_oget _ _ _ _ _ _ I). Qed.

Lemma restore_fold gs : forall g1 h, g = g1 ++ gs -> RInv gs h ->
  exists hr, fold_left rs_step gs (Some h) = Some hr /\ RInv [] hr.
Proof. induction gs as [|n gs IH]; intros g1 h Eg R.
  - simpl. eauto.
  - simpl.
    assert (Hn : In n g) by (rewrite Eg; apply in_or_app; simpl; auto).
    destruct R as (R1 & R2 & R3 & R4 & R5 & R6 & R7).
    destruct (ph_final h0 b h1 g tb L W DS n Hn) as (r0 & l & E1 & E2 & E3 & E4 & E5 & E6).
    assert (Hp : getT h (n_p n) = Some (with_children (with_base r0 (bb (h_next h0) (t_base tb) n)) l)).
    { unfold getT. rewrite R1. exact E3. }
    destruct (reroute_some h (n_p n) (n_t n) _ Hp) as (h' & RR). rewrite RR.
    apply (IH (g1 ++ [n]) h'); [rewrite <- app_assoc; exact Eg|].
    apply reroute_spec in RR. destruct RR as (ts & Ets & S1 & S2 & S3 & S4 & S5 & S6 & S7).
    rewrite Hp in Ets. inversion Ets; subst ts. simpl in S7.
    assert (Hset : set_of h (t_ops r0) = ops_of h0 (n_t n)).
    { unfold ops_of. rewrite E1. unfold set_of. now rewrite R2. }
    rewrite Hset in S7.
    assert (Gs : good (h_next h0) (n :: gs)).
    { pose proof g_good as (A & B & C). rewrite Eg in A, B. rewrite map_app in A, B.
      apply NoDup_app_inv in A, B. split; [tauto|]. split; [tauto|]. intros n' Hn'. apply C. rewrite Eg. apply in_or_app; auto. }
    repeat split; try congruence.
    intros o. rewrite S7, R7. destruct (getO h0 o) as [ro|] eqn:Eo; simpl; auto. f_equal.
    pose proof (proj1 (wf_oper _ W _ _ Eo)) as Hvars.
    unfold rr_fun. simpl. destruct (mem o (ops_of h0 (n_t n))) eqn:Em.
    + f_equal. unfold repl. rewrite map_map. apply map_ext_in. intros v Hv. apply Hvars in Hv.
      pose proof (sigma_step h0 (h_next h0) n gs o v Gs Hv) as K. simpl in K. rewrite Em in K. exact K.
    + f_equal. apply map_ext_in. intros v Hv. apply Hvars in Hv.
      pose proof (sigma_step h0 (h_next h0) n gs o v Gs Hv) as K. simpl in K. rewrite Em in K. exact K. Qed.

Lemma RInv_nil_ops hr : RInv [] hr -> h_o hr = h_o h0.
Proof. intros (R1 & R2 & R3 & R4 & R5 & R6 & R7). apply table_ext; auto.
  - rewrite R6. apply (wf_nd_o _ W).
  - intros o _. fold (getO hr o). fold (getO h0 o). rewrite R7. destruct (getO h0 o) as [r|]; simpl; auto.
    destruct r; simpl. f_equal. f_equal. rewrite <- (map_id o_vars) at 2. apply map_ext. intros v. apply sigma_nil. Qed.

Definition lpf (n : node) : id := match getT h1 (n_p n) with Some rp => t_children rp | None => 0 end.

Theorem restore_free : exists hr, restore h1 g = Some hr /\ same_tables h0 (free_placeholders hr g) /\ h_next (free_placeholders hr g) = h_next h1.
Proof. unfold restore. rewrite (nodes_eq h0 b h1 g tb L DS h1 (ph_tree_h1 h0 b h1 g tb L W DS)). simpl.
  destruct (restore_fold g [] h1 eq_refl RInv_h1) as (hr & Hf & R).
  change (fun (acc : option heap) (n : node) => match acc with Some h2 => reroute h2 (n_p n) (n_t n) | None => None end) with rs_step.
  rewrite Hf. exists hr. split; auto.
  pose proof (RInv_nil_ops hr R) as Ho.
  cut (free_placeholders hr g = mkH (dels (h_t hr) (map n_p g)) (h_o hr) (h_set hr) (dels (h_lst hr) (map lpf g)) (h_arr hr) (h_next hr)
       /\ same_tables h0 (mkH (dels (h_t hr) (map n_p g)) (h_o hr) (h_set hr) (dels (h_lst hr) (map lpf g)) (h_arr hr) (h_next hr))).
  { intros [-> ST]. split; auto. simpl. apply R. } destruct R as (R1 & R2 & R3 & R4 & R5 & R6 & R7).
  unfold free_placeholders.
  change (fun (h2 : heap) (n : node) => match getT h2 (n_p n) with
      | Some tp => match getT h2 (n_t n) with
                   | Some rt => if Nat.eqb (t_children tp) (t_children rt) then delT h2 (n_p n) else delL (delT h2 (n_p n)) (t_children tp)
                   | None => h2 end
      | None => h2 end) with fp_step.
  split.
  - apply (free_fold lpf g hr).
    + apply (i_pnd _ _ _ _ _ _ I).
    + intros n Hn. destruct (ph_final h0 b h1 g tb L W DS n Hn) as (r0 & l & E1 & E2 & E3 & E4 & E5 & E6).
      exists (with_children (with_base r0 (bb (h_next h0) (t_base tb) n)) l), r0.
      unfold getT. rewrite R1. fold (getT h1 (n_p n)). fold (getT h1 (n_t n)).
      split; auto. split.
      { rewrite (i_tget _ _ _ _ _ _ I); auto. apply (i_tlt _ _ _ _ _ _ I); auto. }
      unfold lpf. rewrite E3. simpl. split; auto.
      destruct (wf_tens _ W _ _ E1) as (Hc & _). lia.
    + intros n n' Hn Hn'. pose proof (i_tlt _ _ _ _ _ _ I n Hn). pose proof (i_p _ _ _ _ _ _ I n' Hn'). lia.
  - unfold same_tables. simpl. rewrite R1, R3.
    split; [|split; [exact Ho|split; [exact R2|split; [|exact R4]]]].
    + eapply dels_restore.
      * apply (Inv_nd_t h0 _ _ W _ _ _ I).
      * apply (i_tkeys _ _ _ _ _ _ I).
      * intros k Hk Hk0. apply in_map_iff in Hk. destruct Hk as (n & <- & Hn).
        apply (wf_lt_t _ W) in Hk0. pose proof (i_p _ _ _ _ _ _ I n Hn). lia.
      * auto.
      * intros k Hk. apply (i_tget _ _ _ _ _ _ I). now apply (wf_lt_t _ W).
    + eapply dels_restore.
      * apply (Inv_nd_lst h0 _ _ W _ _ _ I).
      * apply (i_lkeys _ _ _ _ _ _ I).
      * intros k Hk Hk0. apply in_map_iff in Hk. destruct Hk as (n & <- & Hn).
        apply (wf_lt_lst _ W) in Hk0.
        destruct (ph_final h0 b h1 g tb L W DS n Hn) as (r0 & l & E1 & E2 & E3 & E4 & E5 & E6).
        unfold lpf in Hk0. rewrite E3 in Hk0. simpl in Hk0. lia.
      * intros l Hl. destruct (i_L _ _ _ _ _ _ I l Hl) as (_ & n & rp & Hn & Erp & El).
        apply in_map_iff. exists n. split; auto. unfold lpf. now rewrite Erp.
      * intros k Hk. apply (i_lget _ _ _ _ _ _ I). now apply (wf_lt_lst _ W). Qed.

End Restore.

(* ------------------------------------------------------------------ T1 (given that dup succeeded) *)
Theorem dup_restore_given h b h1 g : wf h -> dup h b = Some (h1, g) ->
  exists h2, restore h1 g = Some h2 /\ same_tables h (free_placeholders h2 g) /\ h_next (free_placeholders h2 g) = h_next h1 /\ h_next h <= h_next h1.
Proof. intros W D. destruct (dup_spec h b h1 g W D) as (tb & L & DS).
  destruct (restore_free h b h1 g tb L W DS) as (h2 & A & B & C). exists h2. repeat split; auto; try apply B.
  apply (i_next _ _ _ _ _ _ (ds_inv _ _ _ _ _ _ DS)). Qed.
