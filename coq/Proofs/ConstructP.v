From Coq Require Import List Arith Bool.
Import ListNotations.
From MG Require Import Model.ConstRule Model.Construct.

(* tensor(x) and Tensor(x) copy their input by default: the result never shares memory with x *)
Theorem default_copies i : i_copy i = true -> o_shares (m_tensor i) = false /\ o_shares (m_Tensor i) = false /\ o_same (m_tensor i) = false.
Proof.
  intros H. unfold m_tensor, m_Tensor. rewrite H. simpl.
  destruct (i_kind i); simpl; repeat split; try reflexivity; rewrite ?andb_false_r; reflexivity.
Qed.

(* copy=False and astensor reuse the memory whenever the dtype allows (array or tensor source) *)
Theorem copy_false_reuses i : i_kind i <> SList -> i_copy i = false -> i_dt i <> DOther ->
  o_shares (m_tensor i) = true /\ o_shares (m_Tensor i) = true /\ o_shares (m_astensor i) = true.
Proof.
  intros Hk Hc Hd. unfold m_astensor, m_tensor, m_Tensor, with_copy_false, dtype_ok. simpl. rewrite Hc.
  destruct (i_kind i); try congruence; destruct (i_dt i); try congruence; simpl;
    repeat match goal with |- context [if ?b then _ else _] => destruct b end; simpl; auto.
Qed.
(* ... and never when a dtype conversion is needed *)
Theorem dtype_change_copies i : i_dt i = DOther -> o_shares (m_tensor i) = false /\ o_shares (m_astensor i) = false.
Proof.
  intros Hd. unfold m_astensor, m_tensor, with_copy_false, dtype_ok. simpl. rewrite Hd. simpl.
  rewrite !andb_false_r. simpl. destruct (i_kind i); simpl; rewrite ?andb_false_r; auto.
Qed.

(* astensor(t) returns t itself when dtype and constant already match *)
Theorem astensor_identity i : i_kind i = STen -> i_dt i <> DOther ->
  (i_constant i = None \/ i_constant i = Some (i_const i)) -> o_same (m_astensor i) = true.
Proof.
  intros Hk Hd Hc. unfold m_astensor, m_tensor, with_copy_false, dtype_ok. simpl. rewrite Hk.
  destruct (i_dt i); try congruence; destruct Hc as [-> | ->]; simpl; rewrite ?eqb_reflx; reflexivity.
Qed.
(* ... and a new tensor on the same memory when only the flag differs *)
Theorem astensor_flag_change i : i_kind i = STen -> i_dt i <> DOther -> i_constant i = Some (negb (i_const i)) ->
  o_same (m_astensor i) = false /\ o_shares (m_astensor i) = true /\ o_detached (m_astensor i) = true.
Proof.
  intros Hk Hd Hc. unfold m_astensor, m_tensor, with_copy_false, dtype_ok. simpl. rewrite Hk, Hc.
  destruct (i_dt i); try congruence; destruct (i_const i); simpl; auto.
Qed.

(* copy() and astype() (when they do not return self) give tensors detached from any graph; copy never shares *)
Theorem copy_detached i : o_detached (m_copy i) = true /\ o_shares (m_copy i) = false /\ o_same (m_copy i) = false.
Proof. unfold m_copy; simpl; auto. Qed.
Theorem astype_detached_or_self i : o_same (m_astype i) = true \/ o_detached (m_astype i) = true.
Proof. unfold m_astype. destruct (_ && _); simpl; auto. Qed.
Theorem astype_default_copies i : i_copy i = true -> o_same (m_astype i) = false /\ o_shares (m_astype i) = false.
Proof. intros H. unfold m_astype. rewrite H. simpl. auto. Qed.
