(* Task C: exactness of Tensor.backward under partial clearing (C09), seeding identities (C14),
   gradients of intermediate tensors (C01), on the history-level model Model/GraphP.v.
   No axioms; every theorem is closed under the global context. *)
From Coq Require Import ZArith List Arith Bool Lia Ring.
Import ListNotations.
From MG Require Import Base.EngCore Base.GatherScatter Base.Dfs Base.EngOrder
                       Model.OpsExact Proofs.OpsExactP Model.GraphP Proofs.EngineP Proofs.ClearP.
Local Open Scope nat_scope.

(* ====================================================================================== *)
(** * Part 1 (C09): raise, or exactly the gradients of the computation as recorded         *)
(* ====================================================================================== *)

(* ---------- 1a. the effective graph agrees with the recorded one at non-cleared tensors ---------- *)

Lemma eff_node_false (n : znode) : eff_node n false = n.
Proof. destruct n; reflexivity. Qed.

Theorem eff_agree (st : gstate) (k : nat) :
  nth k (g_cleared st) false = false -> nth k (g_eff st) leafd = nth k (g_nodes st) leafd.
Proof. intros H. unfold g_eff. rewrite eff_nodes_nth, H. apply eff_node_false. Qed.

(* constant flags always agree *)
Theorem eff_nconst (st : gstate) (k : nat) :
  nconst Z (nth k (g_eff st) leafd) = nconst Z (nth k (g_nodes st) leafd).
Proof. apply eff_nodes_nconst. Qed.

Corollary eff_agree_inputs (st : gstate) (k : nat) :
  nth k (g_cleared st) false = false -> inputs Z (g_eff st) k = inputs Z (g_nodes st) k.
Proof. intros H. unfold inputs. rewrite (eff_agree st k H). reflexivity. Qed.

Corollary eff_agree_isconst (st : gstate) (k : nat) : isconst Z (g_eff st) k = isconst Z (g_nodes st) k.
Proof. apply eff_nconst. Qed.

(* ---------- 1b. two programs with the same constant flags, agreeing on the processed nodes ---------- *)

Section Agree.
Variables P P' : list znode.
Hypothesis Hc : forall i, nconst Z (nth i P leafd) = nconst Z (nth i P' leafd).

Lemma push_agree (o : op Z) (g : zvec) : forall is p G,
  push Z Z.add P o p is g G = push Z Z.add P' o p is g G.
Proof. induction is as [|i is IH]; intros p G; simpl; [reflexivity|]. rewrite Hc. apply IH. Qed.

Lemma step_agree (k : nat) (G : list zvec) :
  nth k P leafd = nth k P' leafd -> step Z Z.add P k G = step Z Z.add P' k G.
Proof.
  intros E. unfold step. rewrite E.
  destruct (nth k P' leafd) as [c|[|] o]; try reflexivity. apply push_agree.
Qed.

Lemma sweepL_agree : forall (order : list nat) (G : list zvec),
  (forall k, In k order -> nth k P leafd = nth k P' leafd) ->
  sweepL Z Z.add P order G = sweepL Z Z.add P' order G.
Proof.
  induction order as [|k order IH]; intros G H; simpl; [reflexivity|].
  rewrite (step_agree k G) by (apply H; now left).
  apply IH. intros j Hj. apply H. now right.
Qed.

Lemma valid_rest_agree (order : list nat) :
  length P = length P' -> (forall k, In k order -> nth k P leafd = nth k P' leafd) ->
  valid_rest Z P order -> valid_rest Z P' order.
Proof.
  intros HL Hn Hv r1 k r2 E. destruct (Hv r1 k r2 E) as (Hk & Hnk & Hin).
  split; [lia|]. split; [exact Hnk|].
  assert (Hko : In k order) by (rewrite E; apply in_or_app; right; now left).
  intros i Hi Hci. apply Hin.
  - unfold inputs in *. rewrite (Hn k Hko). exact Hi.
  - unfold isconst in *. rewrite Hc. exact Hci.
Qed.
End Agree.

Theorem sweep_agree (st : gstate) (order : list nat) (G : list zvec) :
  (forall k, In k order -> nth k (g_cleared st) false = false) ->
  sweepL Z Z.add (g_eff st) order G = sweepL Z Z.add (g_nodes st) order G.
Proof.
  intros H. apply sweepL_agree; [apply eff_nconst|].
  intros k Hk. apply eff_agree. now apply H.
Qed.

Theorem valid_agree (st : gstate) (order : list nat) :
  (forall k, In k order -> nth k (g_cleared st) false = false) ->
  valid_rest Z (g_eff st) order -> valid_rest Z (g_nodes st) order.
Proof.
  intros H. apply valid_rest_agree; [apply eff_nconst|apply g_eff_length|].
  intros k Hk. apply eff_agree. now apply H.
Qed.

(* ---------- shape of a successful backward; the value written by the write-back loop ---------- *)

Lemma wg_value (G : list zvec) (order : list nat) (gr : list (option zvec)) (k : nat) :
  In k order -> k < length gr ->
  nth k (write_grads G order (set_all gr order None)) None
  = match nth k G [] with [] => None | v => Some v end.
Proof.
  intros Hin Hlt. destruct (nth k G []) as [|z v] eqn:Ek.
  - rewrite wg_nil by exact Ek. apply nth_set_all_in_default. exact Hin.
  - rewrite <- Ek. apply wg_in; [exact Hin|rewrite length_set_all; exact Hlt|rewrite Ek; discriminate].
Qed.

Lemma wg_value_notin (G : list zvec) (order : list nat) (gr : list (option zvec)) (k : nat) :
  ~ In k order -> nth k (write_grads G order (set_all gr order None)) None = nth k gr None.
Proof. intros Hn. rewrite wg_notin by exact Hn. apply nth_set_all_notin. exact Hn. Qed.

Lemma backward_ok_shape (st : gstate) (t : nat) (seed : option zvec) (st' : gstate) :
  t < length (g_vals st) -> n_const st t = false -> do_backward st t seed = (st', Ok) ->
  exists G, sweep_chk (g_eff st) (g_hasops st) (order_of st t) (bw_G0 st t seed) = (G, false) /\
            G = sweepL Z Z.add (g_eff st) (order_of st t) (bw_G0 st t seed) /\
            g_grad st' = write_grads G (order_of st t) (set_all (g_grad st) (order_of st t) None).
Proof.
  intros Ht Hc Hb.
  destruct (do_backward_cases st t seed) as [[Hn _]|[(_ & Hc' & _)|(_ & _ & G & err & Hsw & E)]].
  { exfalso. apply Hn. exact Ht. }
  { rewrite Hc in Hc'. discriminate. }
  rewrite E in Hb. destruct err; [discriminate|]. inversion Hb as [Hst']. clear Hb E.
  exists G. split; [exact Hsw|]. split; [apply sweep_chk_sound with (ho := g_hasops st); exact Hsw|].
  destruct (EngineP.do_clear_fields (bw_state st t G) t) as (_ & _ & Eg & _). rewrite Eg. reflexivity.
Qed.

(* ---------- 1c. MAIN: if no member of the order was cleared, the gradients are those of the
              computation AS RECORDED (g_nodes st), not merely of the effective graph ---------- *)

Theorem backward_exact_when_uncleared (st : gstate) (t : nat) (seed : option zvec) (st' : gstate) :
  Inv st -> t < length (g_vals st) -> n_const st t = false -> do_backward st t seed = (st', Ok) ->
  (forall k, In k (order_of st t) -> nth k (g_cleared st) false = false) ->
  let s := match seed with Some g => g | None => repeat 1%Z (length (nth t (g_vals st) [])) end in
  exists G : list zvec,
    (forall k, In k (order_of st t) -> grad_vec st' k = nth k G []) /\
    (forall k, ~ In k (order_of st t) -> nth k G [] = []) /\
    (forall delta : nat -> zvec,
       leaf_sum Z 0%Z Z.add Z.mul delta 0 (g_nodes st) G
       = dot Z 0%Z Z.add Z.mul s (nth t (tangents Z Z.add delta (g_nodes st)) [])).
Proof.
  intros HI Ht Hc Hb Hun s. subst s.
  change (match seed with Some g => g | None => repeat 1%Z (length (nth t (g_vals st) [])) end)
    with (bw_seed st t seed).
  pose proof HI as ((Ln & _ & _ & Lg) & Wf & Hops).
  destruct (order_of_valid st t HI Ht Hc) as (Hv & HinL & Hmem).
  destruct (backward_ok_shape st t seed st' Ht Hc Hb) as (G & _ & HG & Hgr).
  rewrite (sweep_agree st _ _ Hun) in HG.
  pose proof (valid_agree st _ Hun Hv) as Hv'.
  assert (HtP : t < length (g_nodes st)) by lia.
  assert (Hadj : forall delta : nat -> zvec,
     leaf_sum Z 0%Z Z.add Z.mul delta 0 (g_nodes st) G
       = dot Z 0%Z Z.add Z.mul (bw_seed st t seed) (nth t (tangents Z Z.add delta (g_nodes st)) [])
     /\ (forall j, ~ In j (order_of st t) -> nth j G [] = [])).
  { intros delta.
    pose proof (backward_order_adjoint Z 0%Z 1%Z Z.add Z.mul Z.sub Z.opp InitialRing.Zth delta (g_nodes st) Wf Hops
                  t (bw_seed st t seed) (order_of st t) HtP Hv' HinL) as Hb'.
    cbv zeta in Hb'. rewrite Ln in Hb'. fold (bw_G0 st t seed) in Hb'. rewrite <- HG in Hb'. exact Hb'. }
  exists G. split; [|split].
  - intros k Hk. unfold grad_vec. rewrite Hgr.
    rewrite wg_value; [|exact Hk|destruct (Hmem k Hk) as [_ Hle]; lia].
    destruct (nth k G []); reflexivity.
  - intros k Hk. destruct (Hadj (fun _ => [])) as [_ Hu]. apply Hu. exact Hk.
  - intros delta. destruct (Hadj delta) as [Ha _]. exact Ha.
Qed.
Print Assumptions backward_exact_when_uncleared.

(* ---------- 1d. DFS provenance: every listed tensor other than the root is a non-constant
              input of a listed non-constant node ---------- *)

Section DfsProv.
Variable inp : nat -> list nat.
Variable isc : nat -> bool.
Notation dfs' := (dfs inp isc).

Lemma fold_mono_gen (F : nat -> list nat -> list nat) (HF : forall i a x, In x a -> In x (F i a)) :
  forall is a x, In x a -> In x (fold_left (fun a i => F i a) is a).
Proof. induction is as [|i is IH]; intros a x H; simpl; [exact H|]. apply IH. apply HF. exact H. Qed.

Lemma dfs_mono : forall fuel t acc0 x, In x acc0 -> In x (dfs' fuel t acc0).
Proof.
  induction fuel as [|f IH]; intros t acc0 x H; simpl; [exact H|].
  destruct (isc t); [exact H|]. destruct (memb t acc0); [exact H|].
  right. apply (fold_mono_gen (fun i a => dfs' f i a)); [|exact H].
  intros i a y Hy. apply IH. exact Hy.
Qed.

Lemma fold_dfs_mono f : forall is a x, In x a -> In x (fold_left (fun a i => dfs' f i a) is a).
Proof. apply (fold_mono_gen (fun i a => dfs' f i a)). intros i a y Hy. apply dfs_mono. exact Hy. Qed.

(* k has a listed non-constant consumer *)
Definition prov (r : list nat) (k : nat) : Prop := exists j, In j r /\ In k (inp j) /\ isc j = false.

Lemma prov_weaken (r r' : list nat) (k : nat) : (forall x, In x r -> In x r') -> prov r k -> prov r' k.
Proof. intros H (j & H1 & H2 & H3). exists j. auto. Qed.

Lemma dfs_prov : forall fuel t acc0 k, In k (dfs' fuel t acc0) ->
  In k acc0 \/ (k = t /\ isc t = false) \/ prov (dfs' fuel t acc0) k.
Proof.
  induction fuel as [|f IH]; intros t acc0 k H; simpl in *; [now left|].
  destruct (isc t) eqn:Hc; [now left|].
  destruct (memb t acc0) eqn:Hm; [now left|].
  destruct H as [<-|H]; [right; left; auto|].
  assert (Hfold : forall is a, In k (fold_left (fun a i => dfs' f i a) is a) ->
            In k a \/ In k is \/ prov (fold_left (fun a i => dfs' f i a) is a) k).
  { induction is as [|i is IHis]; intros a Hk; simpl in *; [now left|].
    destruct (IHis _ Hk) as [Hk'|[Hk'|Hk']]; [|right; left; now right|right; now right].
    destruct (IH i a k Hk') as [Ha|[[-> _]|Hp]]; [now left|right; left; now left|].
    right. right. eapply prov_weaken; [|exact Hp]. intros x Hx. apply fold_dfs_mono. exact Hx. }
  destruct (Hfold _ _ H) as [Ha|[Hi|Hp]].
  - now left.
  - right. right. exists t. split; [now left|]. split; assumption.
  - right. right. eapply prov_weaken; [|exact Hp]. intros x Hx. now right.
Qed.

Theorem collect_prov (L k : nat) :
  In k (collect inp isc L) -> k <> L -> prov (collect inp isc L) k.
Proof.
  intros Hk Hne. unfold collect in *.
  destruct (dfs_prov _ _ _ _ Hk) as [[]|[[E _]|Hp]]; [contradiction|exact Hp].
Qed.
End DfsProv.

(* the statement of the task; well-formedness of P is not needed *)
Theorem order_member_has_consumer (P : list znode) (L k : nat) :
  In k (collect (inputs Z P) (isconst Z P) L) -> k <> L ->
  exists j o, In j (collect (inputs Z P) (isconst Z P) L) /\
              nth j P leafd = App Z false o /\ In k (ins Z o) /\ isconst Z P j = false.
Proof.
  intros Hk Hne. destruct (collect_prov _ _ L k Hk Hne) as (j & Hj & Hin & Hc).
  unfold inputs in Hin. unfold isconst in Hc.
  destruct (nth j P leafd) as [c|c o] eqn:En; [destruct Hin|].
  simpl in Hc. subst c. exists j, o. repeat split; try assumption.
  unfold isconst. rewrite En. reflexivity.
Qed.
Print Assumptions order_member_has_consumer.

(* ---------- 1e. MAIN: the partial theorem of C09 ---------- *)

(* a tensor whose creator was cleared and that is still listed in t's graph has an EMPTY consumer set,
   i.e. nobody re-used it after the clearing *)
Definition no_stale_refill (st : gstate) (t : nat) : Prop :=
  forall k, In k (order_of st t) -> k <> t -> nth k (g_cleared st) false = true ->
            nth k (g_hasops st) false = false.

Theorem raise_or_exact (st : gstate) (t : nat) (seed : option zvec) :
  Inv st -> t < length (g_vals st) -> n_const st t = false -> nth t (g_cleared st) false = false ->
  no_stale_refill st t ->
  match snd (do_backward st t seed) with
  | InvalidBackprop => True
  | BadStmt => False
  | Ok => forall k, In k (order_of st t) -> nth k (g_cleared st) false = false
  end.
Proof.
  intros HI Ht Hc Hclt Hns.
  destruct (snd (do_backward st t seed)) eqn:Eo; [|exact I|].
  - intros k Hk. destruct (nth k (g_cleared st) false) eqn:Ek; [exfalso|reflexivity].
    assert (Hne : k <> t) by (intros ->; rewrite Hclt in Ek; discriminate).
    destruct (order_member_has_consumer (g_eff st) t k Hk Hne) as (j & o & Hj & En & Hin & _).
    destruct (order_of_valid st t HI Ht Hc) as (_ & _ & Hmem).
    destruct (Hmem k Hk) as [Hck _].
    assert (Hinv : snd (do_backward st t seed) = InvalidBackprop).
    { apply do_backward_invalid_iff. split; [exact Ht|]. split; [exact Hc|].
      exists j, o, k. split; [exact Hj|]. split; [exact En|]. split; [exact Hin|]. split.
      - rewrite eff_nconst. exact Hck.
      - apply Hns; assumption. }
    rewrite Hinv in Eo. discriminate.
  - destruct (do_backward_cases st t seed) as [[Hn _]|[(_ & Hc' & _)|(_ & _ & G & err & _ & E)]].
    + apply Hn. exact Ht.
    + rewrite Hc in Hc'. discriminate.
    + rewrite E in Eo. destruct err; discriminate.
Qed.
Print Assumptions raise_or_exact.

(* 1e + 1c: under no_stale_refill a backward pass that does not raise is exact for the recorded graph *)
Corollary no_refill_exact (st : gstate) (t : nat) (seed : option zvec) (st' : gstate) :
  Inv st -> t < length (g_vals st) -> n_const st t = false -> nth t (g_cleared st) false = false ->
  no_stale_refill st t -> do_backward st t seed = (st', Ok) ->
  let s := match seed with Some g => g | None => repeat 1%Z (length (nth t (g_vals st) [])) end in
  exists G : list zvec,
    (forall k, In k (order_of st t) -> grad_vec st' k = nth k G []) /\
    (forall k, ~ In k (order_of st t) -> nth k G [] = []) /\
    (forall delta : nat -> zvec,
       leaf_sum Z 0%Z Z.add Z.mul delta 0 (g_nodes st) G
       = dot Z 0%Z Z.add Z.mul s (nth t (tangents Z Z.add delta (g_nodes st)) [])).
Proof.
  intros HI Ht Hc Hclt Hns Hb.
  pose proof (raise_or_exact st t seed HI Ht Hc Hclt Hns) as H. rewrite Hb in H. simpl in H.
  apply backward_exact_when_uncleared; assumption.
Qed.
Print Assumptions no_refill_exact.

(* ---------- 1f. C09 is refuted in its literal form: a cleared tensor that is re-used afterwards
              silently truncates a later backward pass ---------- *)
(*  x = leaf [3]; a = x*2; L1 = a*1; L2 = a*a; L1.backward(); b = a*1; L2.backward()
    tensors: x=0, a=1, L1=2, L2=3, b=4 *)
Definition op_scale (src : nat) (c : Z) : zcop :=
  {| c_work := 1; c_args := [{| c_src := src; c_map := [0] |}]; c_kern := KLin Z [[c]] [0%Z]; c_seg := None |}.
Definition op_square (src : nat) : zcop :=
  {| c_work := 1; c_args := [{| c_src := src; c_map := [0] |}; {| c_src := src; c_map := [0] |}];
     c_kern := KMul Z; c_seg := None |}.
Definition c09_prefix : list stmt :=
  [ SLeaf false [3%Z]; SApp None false (op_scale 0 2); SApp None false (op_scale 1 1);
    SApp None false (op_square 1); SBackward 2 None; SApp None false (op_scale 1 1) ].
Definition c09_hist : list stmt := c09_prefix ++ [SBackward 3 None].
(* the order and the sweep of the computation as recorded *)
Definition recorded_order (st : gstate) (t : nat) : list nat :=
  collect (inputs Z (g_nodes st)) (isconst Z (g_nodes st)) t.
Definition recorded_grads (st : gstate) (t : nat) (seed : option zvec) : list zvec :=
  sweepL Z Z.add (g_nodes st) (recorded_order st t) (bw_G0 st t seed).

Example C09_refuted :
  let st := fst (run_hist g_init c09_prefix) in          (* state just before L2.backward() *)
  let r := run_hist g_init c09_hist in
  hist_ok g_init c09_hist = true /\
  snd r = [Ok; Ok; Ok; Ok; Ok; Ok; Ok] /\                 (* no exception anywhere *)
  g_vals (fst r) = [[3]; [6]; [6]; [36]; [6]]%Z /\
  (* the cleared and refilled tensor a is in the order of L2.backward() *)
  order_of st 3 = [3; 1] /\ nth 1 (g_cleared st) false = true /\ nth 1 (g_hasops st) false = true /\
  ~ no_stale_refill st 3 /\
  (* x keeps the gradient of L1.backward(), a gets dL2/da = 12 *)
  g_grad (fst r) = [Some [2]; Some [12]; Some [1]; Some [1]; None]%Z /\
  (* the recorded computation L2 = (2x)^2 has dL2/dx = 24 *)
  recorded_order st 3 = [3; 1; 0] /\
  recorded_grads st 3 None = [[24]; [12]; []; [1]; []]%Z.
Proof.
  vm_compute. repeat split; try reflexivity.
  intros H. specialize (H 1 (or_intror (or_introl eq_refl)) ltac:(discriminate) eq_refl). discriminate.
Qed.

(* without the re-use `b = a*1` the same L2.backward() raises: the check is defeated only by the refill *)
Example C09_detected_without_refill :
  snd (run_hist g_init [ SLeaf false [3%Z]; SApp None false (op_scale 0 2); SApp None false (op_scale 1 1);
                         SApp None false (op_square 1); SBackward 2 None; SBackward 3 None ])
  = [Ok; Ok; Ok; Ok; Ok; InvalidBackprop].
Proof. vm_compute. reflexivity. Qed.

(* ====================================================================================== *)
(** * Part 2 (C14): seeding identities                                                     *)
(* ====================================================================================== *)

(* ---------- 2a ---------- *)
Theorem seed_none_is_ones (st : gstate) (t : nat) :
  do_backward st t None = do_backward st t (Some (repeat 1%Z (length (nth t (g_vals st) [])))).
Proof. reflexivity. Qed.

(* ---------- 2b. L.backward()  versus  L.sum().backward() ---------- *)

Definition sumop (n t : nat) : zcop :=
  {| c_work := n; c_args := [{| c_src := t; c_map := seq 0 n |}];
     c_kern := KLin Z [repeat 1%Z n] (repeat 0%Z n); c_seg := Some (1, repeat 0 n) |}.

(* --- small vector facts --- *)
Lemma map_repeat {X Y} (f : X -> Y) (x : X) n : map f (repeat x n) = repeat (f x) n.
Proof. induction n as [|n IH]; simpl; [reflexivity|now rewrite IH]. Qed.

Lemma vmul_repeat (a b : Z) n : vmul Z Z.mul (repeat a n) (repeat b n) = repeat (a * b)%Z n.
Proof. induction n as [|n IH]; simpl; [reflexivity|now rewrite IH]. Qed.

Lemma add_at_middle (pre : list Z) (y g : Z) (rest : list Z) :
  add_at Z Z.add (length pre) g (pre ++ y :: rest) = pre ++ (y + g)%Z :: rest.
Proof. induction pre as [|p pre IH]; simpl; [reflexivity|now rewrite IH]. Qed.

Lemma scatter_seq_repeat (a b : Z) : forall n pre,
  scatter_add Z Z.add (pre ++ repeat a n) (seq (length pre) n) (repeat b n) = pre ++ repeat (a + b)%Z n.
Proof.
  induction n as [|n IH]; intros pre; simpl; [reflexivity|].
  rewrite add_at_middle.
  replace (pre ++ (a + b)%Z :: repeat a n) with ((pre ++ [(a + b)%Z]) ++ repeat a n)
    by (rewrite <- app_assoc; reflexivity).
  replace (S (length pre)) with (length (pre ++ [(a + b)%Z])) by (rewrite app_length; simpl; lia).
  rewrite IH. rewrite <- app_assoc. reflexivity.
Qed.

(* the VJP of the sum node: the incoming scalar gradient [1] is broadcast to ones *)
Lemma sumop_vjp (vals : list zvec) (t : nat) :
  let n := length (nth t vals []) in
  vjp Z (to_op Z 0%Z Z.add Z.mul (linearize Z 0%Z 1%Z Z.mul vals (sumop n t))) 0 [1%Z] = repeat 1%Z n.
Proof.
  intros n. simpl. unfold lop_vjp. simpl. fold n.
  unfold gather. rewrite map_repeat. simpl.
  rewrite vmul_repeat. simpl.
  apply (scatter_seq_repeat 0%Z 1%Z n []).
Qed.

Lemma sumop_fwd_length (vals : list zvec) (n t : nat) :
  length (cop_fwd Z 0%Z 1%Z Z.add Z.mul vals (sumop n t)) = 1.
Proof. unfold cop_fwd. simpl. rewrite length_scatter_add. reflexivity. Qed.

(* --- upd and appended entries --- *)
Lemma upd_app (G X : list zvec) (v : zvec) : forall i, i < length G ->
  upd Z Z.add (G ++ X) i v = upd Z Z.add G i v ++ X.
Proof.
  induction G as [|g G IH]; intros i Hi; simpl in *; [lia|].
  destruct i as [|i]; simpl; [reflexivity|]. rewrite IH by lia. reflexivity.
Qed.

Lemma upd_snoc (G : list zvec) (x v : zvec) (i : nat) : i < length G ->
  upd Z Z.add (G ++ [x]) i v = upd Z Z.add G i v ++ [x].
Proof. apply upd_app. Qed.

Lemma upd_repeat_last (m : nat) (s : zvec) :
  upd Z Z.add (repeat [] (S m)) m s = repeat [] m ++ [s].
Proof.
  induction m as [|m IH]; [reflexivity|].
  change (([] : zvec) :: upd Z Z.add (repeat [] (S m)) m s = [] :: (repeat [] m ++ [s])).
  f_equal. exact IH.
Qed.

(* --- the checked sweep on a program extended by one node, over old nodes only --- *)
Lemma push_chk_length P ho o : forall is p g G, length (fst (push_chk P ho o p is g G)) = length G.
Proof.
  induction is as [|i is IH]; intros p g G; simpl; [reflexivity|].
  destruct (nconst Z (nth i P leafd)); [apply IH|].
  destruct (negb (nth i ho false)); [reflexivity|]. rewrite IH. apply length_upd.
Qed.

Lemma step_chk_length P ho k G : length (fst (step_chk P ho k G)) = length G.
Proof.
  unfold step_chk. destruct (nth k P leafd) as [c|[|] o]; try reflexivity. apply push_chk_length.
Qed.

Lemma sweep_chk_length P ho : forall order G, length (fst (sweep_chk P ho order G)) = length G.
Proof.
  induction order as [|k order IH]; intros G; simpl; [reflexivity|].
  pose proof (step_chk_length P ho k G) as Hs.
  destruct (step_chk P ho k G) as [G' err]. simpl in Hs.
  destruct err; simpl; [exact Hs|]. rewrite IH. exact Hs.
Qed.

Section Snoc.
Variable P : list znode.
Variable Q : list znode.   (* nodes created later *)
Variables ho ho1 : list bool.
Variable X : list zvec.    (* their entries *)

Definition old_input (i : nat) : Prop := i < length P /\ nth i ho1 false = nth i ho false.

Lemma push_chk_snoc (o : op Z) (g : zvec) : forall is p G,
  length G = length P -> (forall i, In i is -> old_input i) ->
  push_chk (P ++ Q) ho1 o p is g (G ++ X)
  = (fst (push_chk P ho o p is g G) ++ X, snd (push_chk P ho o p is g G)).
Proof.
  induction is as [|i is IH]; intros p G HG Hin; simpl; [reflexivity|].
  destruct (Hin i (or_introl eq_refl)) as [Hi Hh].
  rewrite app_nth1 by exact Hi. rewrite Hh.
  destruct (nconst Z (nth i P leafd)).
  - apply IH; [exact HG|]. intros j Hj. apply Hin. now right.
  - destruct (negb (nth i ho false)); [reflexivity|].
    rewrite upd_app by lia. apply IH; [rewrite length_upd; exact HG|].
    intros j Hj. apply Hin. now right.
Qed.

Definition old_node (k : nat) : Prop :=
  k < length P /\ forall c o, nth k P leafd = App Z c o -> forall i, In i (ins Z o) -> old_input i.

Lemma step_chk_snoc (k : nat) (G : list zvec) : length G = length P -> old_node k ->
  step_chk (P ++ Q) ho1 k (G ++ X) = (fst (step_chk P ho k G) ++ X, snd (step_chk P ho k G)).
Proof.
  intros HG [Hk Hin]. unfold step_chk. rewrite app_nth1 by exact Hk.
  rewrite (app_nth1 G) by lia.
  destruct (nth k P leafd) as [c|[|] o] eqn:En; try reflexivity.
  apply push_chk_snoc; [exact HG|]. apply (Hin false o eq_refl).
Qed.

Lemma sweep_chk_snoc : forall (order : list nat) (G : list zvec),
  length G = length P -> (forall k, In k order -> old_node k) ->
  sweep_chk (P ++ Q) ho1 order (G ++ X)
  = (fst (sweep_chk P ho order G) ++ X, snd (sweep_chk P ho order G)).
Proof.
  induction order as [|k order IH]; intros G HG Hn; simpl; [reflexivity|].
  rewrite step_chk_snoc by (try exact HG; apply Hn; now left).
  pose proof (step_chk_length P ho k G) as Hs.
  destruct (step_chk P ho k G) as [G' err]. simpl in *.
  destruct err; simpl; [reflexivity|].
  apply IH; [lia|]. intros j Hj. apply Hn. now right.
Qed.
End Snoc.

(* --- the DFS does not depend on the fuel nor on nodes created later --- *)
Section DfsExt.
Variables inp1 inp2 : nat -> list nat.
Variables isc1 isc2 : nat -> bool.
Hypothesis wf1 : forall j i, In i (inp1 j) -> i < j.

Lemma dfs_ext : forall f1 f2 t acc0, t < f1 -> t < f2 ->
  (forall j, j <= t -> inp1 j = inp2 j /\ isc1 j = isc2 j) ->
  dfs inp1 isc1 f1 t acc0 = dfs inp2 isc2 f2 t acc0.
Proof.
  induction f1 as [|f1 IH]; intros f2 t acc0 H1 H2 Hag; [lia|].
  destruct f2 as [|f2]; [lia|]. simpl.
  destruct (Hag t (le_n t)) as [Ei Ec]. rewrite <- Ec.
  destruct (isc1 t); [reflexivity|]. destruct (memb t acc0); [reflexivity|]. f_equal.
  rewrite <- Ei.
  assert (Hfold : forall is a, (forall i, In i is -> i < t) ->
            fold_left (fun a i => dfs inp1 isc1 f1 i a) is a = fold_left (fun a i => dfs inp2 isc2 f2 i a) is a).
  { induction is as [|i is IHis]; intros a Hlt; simpl; [reflexivity|].
    assert (Hi : i < t) by (apply Hlt; now left).
    rewrite (IH f2 i a) by (try lia; intros j Hj; apply Hag; lia).
    apply IHis. intros j Hj. apply Hlt. now right. }
  apply Hfold. intros i Hi. apply (wf1 t). exact Hi.
Qed.
End DfsExt.

(* --- the state after `s = L.sum()` --- *)
Definition sum_node (st : gstate) (n t : nat) : znode :=
  App Z false (to_op Z 0%Z Z.add Z.mul (linearize Z 0%Z 1%Z Z.mul (g_vals st) (sumop n t))).
Definition sum_state (st : gstate) (n t : nat) : gstate :=
  {| g_vals := g_vals st ++ [cop_fwd Z 0%Z 1%Z Z.add Z.mul (g_vals st) (sumop n t)];
     g_nodes := g_nodes st ++ [sum_node st n t];
     g_cleared := g_cleared st ++ [false];
     g_hasops := set_all (g_hasops st) [t] true ++ [false];
     g_grad := set_all (g_grad st) [t] None ++ [None] |}.

Lemma do_app_sumop (st : gstate) (n t : nat) : t < length (g_vals st) -> n_const st t = false ->
  do_app st None false (sumop n t) = (sum_state st n t, Ok).
Proof.
  intros Ht Hc. unfold do_app.
  change (map c_src (c_args Z (sumop n t))) with [t].
  cbn [forallb]. rewrite Hc.
  replace (t <? length (g_vals st)) with true by (symmetry; apply Nat.ltb_lt; exact Ht).
  reflexivity.
Qed.

Lemma eff_nodes_snoc (n : znode) : forall ns cl, length ns = length cl ->
  eff_nodes (ns ++ [n]) (cl ++ [false]) = eff_nodes ns cl ++ [n].
Proof.
  induction ns as [|a ns IH]; intros [|b cl] H; simpl in *; try lia.
  - rewrite eff_node_false. reflexivity.
  - f_equal. apply IH. lia.
Qed.

Lemma nth_snoc_len {X} (l : list X) (a d : X) (m : nat) : length l = m -> nth m (l ++ [a]) d = a.
Proof. intros <-. apply nth_middle. Qed.

Lemma dfs_S inp isc f t acc0 :
  dfs inp isc (S f) t acc0 =
  if isc t then acc0 else if memb t acc0 then acc0
  else t :: fold_left (fun a i => dfs inp isc f i a) (inp t) acc0.
Proof. reflexivity. Qed.

Lemma step_chk_single (P : list znode) (ho : list bool) (k : nat) (o : op Z) (t : nat) (G : list zvec) :
  nth k P leafd = App Z false o -> ins Z o = [t] ->
  nconst Z (nth t P leafd) = false -> nth t ho false = true ->
  step_chk P ho k G = (upd Z Z.add G t (vjp Z o 0 (nth k G [])), false).
Proof. intros En Ei Hc Hh. unfold step_chk. rewrite En, Ei. simpl. rewrite Hc, Hh. reflexivity. Qed.

Section SumBackward.
Variable st : gstate.
Variable t : nat.
Hypothesis HI : Inv st.
Hypothesis Ht : t < length (g_vals st).
Hypothesis Hc : n_const st t = false.
Let n := length (nth t (g_vals st) []).
Let m := length (g_vals st).
Let st1 := sum_state st n t.
Let nd := sum_node st n t.

Lemma sum_eff : g_eff st1 = g_eff st ++ [nd].
Proof.
  destruct HI as ((L1 & L2 & _) & _). unfold g_eff, st1, sum_state. simpl.
  apply eff_nodes_snoc. lia.
Qed.

Lemma sum_eff_len : length (g_eff st) = m.
Proof. destruct (Inv_g_eff st HI) as (_ & _ & _ & L). exact L. Qed.

Lemma sum_vals_len : length (g_vals st1) = S m.
Proof. unfold st1, sum_state. simpl. rewrite app_length. simpl. unfold m. lia. Qed.

Lemma sum_nconst : n_const st1 m = false.
Proof.
  unfold n_const, st1, sum_state. simpl. rewrite nth_snoc_len; [reflexivity|].
  destruct HI as ((L1 & _) & _). exact L1.
Qed.

Lemma sum_seed : bw_G0 st1 m None = repeat [] m ++ [[1%Z]].
Proof.
  unfold bw_G0, bw_seed. rewrite sum_vals_len.
  unfold st1, sum_state. cbn [g_vals]. rewrite nth_snoc_len by reflexivity.
  rewrite sumop_fwd_length. apply upd_repeat_last.
Qed.

Lemma sum_order : order_of st1 m = m :: order_of st t.
Proof.
  destruct (Inv_g_eff st HI) as (Wf & _ & _ & _).
  unfold order_of, collect. rewrite sum_eff.
  rewrite dfs_S.
  assert (Hnd : nth m (g_eff st ++ [nd]) leafd = nd) by (apply nth_snoc_len; apply sum_eff_len).
  assert (Hisc : isconst Z (g_eff st ++ [nd]) m = false) by (unfold isconst; rewrite Hnd; reflexivity).
  assert (Hinp : inputs Z (g_eff st ++ [nd]) m = [t]).
  { unfold inputs. rewrite Hnd. unfold nd, sum_node. rewrite ins_linearize. reflexivity. }
  rewrite Hisc, Hinp. cbn [memb existsb fold_left]. f_equal.
  symmetry. apply dfs_ext; [apply (inputs_lt (g_eff st) Wf)|lia|exact Ht|].
  intros j Hj. assert (Hjl : j < length (g_eff st)) by (rewrite sum_eff_len; unfold m; lia).
  unfold inputs, isconst. rewrite app_nth1 by exact Hjl. split; reflexivity.
Qed.

Lemma sum_hasops_t : nth t (g_hasops st1) false = true.
Proof.
  destruct HI as ((_ & _ & L3 & _) & _).
  unfold st1, sum_state. cbn [g_hasops]. change (set_all (g_hasops st) [t] true) with (set_nth (g_hasops st) t true).
  rewrite app_nth1 by (rewrite EngineP.length_set_nth; lia).
  apply EngineP.nth_set_nth_eq. lia.
Qed.

Lemma sum_hasops_other (i : nat) : i < t -> nth i (g_hasops st1) false = nth i (g_hasops st) false.
Proof.
  intros Hi. destruct HI as ((_ & _ & L3 & _) & _).
  unfold st1, sum_state. cbn [g_hasops]. change (set_all (g_hasops st) [t] true) with (set_nth (g_hasops st) t true).
  rewrite app_nth1 by (rewrite EngineP.length_set_nth; lia).
  apply EngineP.nth_set_nth_neq. lia.
Qed.

(* the checked sweep of s.backward() is that of L.backward() with the entry [1] of s appended *)
Lemma sum_sweep :
  let r := sweep_chk (g_eff st) (g_hasops st) (order_of st t) (bw_G0 st t None) in
  sweep_chk (g_eff st1) (g_hasops st1) (order_of st1 m) (bw_G0 st1 m None) = (fst r ++ [[1%Z]], snd r).
Proof.
  intros r. destruct (Inv_g_eff st HI) as (Wf & _ & _ & _).
  destruct (order_of_valid st t HI Ht Hc) as (_ & _ & Hmem).
  rewrite sum_order, sum_seed, sum_eff.
  assert (Hnd : nth m (g_eff st ++ [nd]) leafd = nd) by (apply nth_snoc_len; apply sum_eff_len).
  assert (Htl : t < length (g_eff st)) by (rewrite sum_eff_len; exact Ht).
  cbn [sweep_chk].
  rewrite (step_chk_single (g_eff st ++ [nd]) (g_hasops st1) m _ t _ Hnd).
  - cbn iota beta.
    rewrite nth_snoc_len by apply repeat_length.
    unfold n. rewrite (sumop_vjp (g_vals st) t).
    rewrite upd_snoc by (rewrite repeat_length; exact Ht).
    change (upd Z Z.add (repeat [] m) t (repeat 1%Z (length (nth t (g_vals st) [])))) with (bw_G0 st t None).
    apply sweep_chk_snoc.
    + unfold bw_G0. rewrite length_upd, repeat_length. symmetry. apply sum_eff_len.
    + intros k Hk. destruct (Hmem k Hk) as [_ Hle]. split; [lia|].
      intros c o En i Hi.
      pose proof (Wf k c o (nth_App_nth_error _ _ _ _ En)) as Hf. rewrite Forall_forall in Hf.
      specialize (Hf i Hi). split; [lia|]. apply sum_hasops_other. lia.
  - apply ins_linearize.
  - rewrite app_nth1 by exact Htl. rewrite eff_nconst. exact Hc.
  - apply sum_hasops_t.
Qed.
End SumBackward.

(* gradients and outcome of a backward pass from a non-constant tensor, in terms of the checked sweep *)
Lemma do_backward_nonconst (st : gstate) (t : nat) (seed : option zvec) :
  t < length (g_vals st) -> n_const st t = false ->
  let r := sweep_chk (g_eff st) (g_hasops st) (order_of st t) (bw_G0 st t seed) in
  g_grad (fst (do_backward st t seed))
    = write_grads (fst r) (order_of st t) (set_all (g_grad st) (order_of st t) None) /\
  snd (do_backward st t seed) = if snd r then InvalidBackprop else Ok.
Proof.
  intros Ht Hc r.
  destruct (do_backward_cases st t seed) as [[Hn _]|[(_ & Hc' & _)|(_ & _ & G & err & Hsw & E)]].
  { exfalso. apply Hn. exact Ht. }
  { rewrite Hc in Hc'. discriminate. }
  subst r. rewrite Hsw, E. destruct err; simpl; split; try reflexivity.
  destruct (EngineP.do_clear_fields (bw_state st t G) t) as (_ & _ & Eg & _). rewrite Eg. reflexivity.
Qed.

(* MAIN (C14): L.backward() and L.sum().backward() raise under exactly the same circumstances and leave
   exactly the same gradient in EVERY tensor that existed before (whether or not the pass raised);
   the new scalar s = L.sum() gets gradient [1]. *)
Theorem backward_sum_equiv (st : gstate) (t : nat) :
  Inv st -> t < length (g_vals st) -> n_const st t = false ->
  let n := length (nth t (g_vals st) []) in
  let m := length (g_vals st) in
  let st1 := fst (do_app st None false (sumop n t)) in
  snd (do_app st None false (sumop n t)) = Ok /\
  snd (do_backward st1 m None) = snd (do_backward st t None) /\
  (forall k, k < m -> nth k (g_grad (fst (do_backward st1 m None))) None
                      = nth k (g_grad (fst (do_backward st t None))) None) /\
  nth m (g_grad (fst (do_backward st1 m None))) None = Some [1%Z].
Proof.
  intros HI Ht Hc n m st1. subst st1.
  rewrite (do_app_sumop st n t Ht Hc). simpl fst. simpl snd. split; [reflexivity|].
  pose proof HI as ((_ & _ & _ & Lg) & _).
  assert (Ht1 : m < length (g_vals (sum_state st n t))) by (unfold n, m; rewrite sum_vals_len; lia).
  pose proof (sum_nconst st t HI) as Hc1. fold n in Hc1. fold m in Hc1.
  destruct (do_backward_nonconst _ _ None Ht1 Hc1) as [Eg1 Eo1].
  destruct (do_backward_nonconst _ _ None Ht Hc) as [Eg Eo].
  pose proof (sum_sweep st t HI Ht Hc) as Hs. cbv zeta in Hs. fold n in Hs. fold m in Hs.
  rewrite Hs in Eg1, Eo1. simpl fst in Eg1. simpl snd in Eo1.
  pose proof (sum_order st t HI Ht) as Ho. fold n in Ho. fold m in Ho. rewrite Ho in Eg1.
  set (r := sweep_chk (g_eff st) (g_hasops st) (order_of st t) (bw_G0 st t None)) in *.
  assert (Lr : length (fst r) = m).
  { unfold r. rewrite sweep_chk_length. unfold bw_G0. rewrite length_upd, repeat_length. reflexivity. }
  assert (Lg1 : length (g_grad (sum_state st n t)) = S m).
  { unfold sum_state. cbn [g_grad]. rewrite app_length, EngineP.length_set_all. simpl. unfold m. lia. }
  destruct (order_of_valid st t HI Ht Hc) as (_ & HinL & Hmem).
  split; [rewrite Eo1, Eo; reflexivity|]. split.
  - intros k Hk. rewrite Eg1, Eg.
    destruct (in_dec Nat.eq_dec k (order_of st t)) as [Hin|Hnin].
    + rewrite wg_value by (try (right; exact Hin); lia).
      rewrite wg_value by (try exact Hin; unfold m in Hk; lia).
      rewrite app_nth1 by lia. reflexivity.
    + assert (Hnin1 : ~ In k (m :: order_of st t)) by (intros [E|E]; [lia|contradiction]).
      rewrite wg_value_notin by exact Hnin1. rewrite wg_value_notin by exact Hnin.
      assert (Hkt : k <> t) by (intros ->; contradiction).
      unfold sum_state. cbn [g_grad].
      rewrite app_nth1 by (rewrite EngineP.length_set_all; unfold m in Hk; lia).
      apply nth_set_all_notin. intros [E|[]]. apply Hkt. symmetry. exact E.
  - rewrite Eg1. rewrite wg_value by (try (left; reflexivity); lia).
    rewrite nth_snoc_len by exact Lr. reflexivity.
Qed.
Print Assumptions backward_sum_equiv.

(* the statement in the form of the task: both passes succeed *)
Corollary backward_sum_equiv_ok (st st1 stA stB : gstate) (t : nat) :
  Inv st -> t < length (g_vals st) -> n_const st t = false ->
  let n := length (nth t (g_vals st) []) in
  let m := length (g_vals st) in
  do_app st None false (sumop n t) = (st1, Ok) ->
  do_backward st t None = (stA, Ok) -> do_backward st1 m None = (stB, Ok) ->
  forall k, k < m -> nth k (g_grad stB) None = nth k (g_grad stA) None.
Proof.
  intros HI Ht Hc n m Ha HA HB k Hk.
  destruct (backward_sum_equiv st t HI Ht Hc) as (_ & _ & H & _). cbv zeta in H.
  fold n in H. fold m in H. rewrite Ha in H. simpl fst in H.
  specialize (H k Hk). rewrite HA, HB in H. exact H.
Qed.

(* one of the two passes succeeding is enough *)
Corollary backward_sum_equiv_ok' (st stA : gstate) (t : nat) :
  Inv st -> t < length (g_vals st) -> n_const st t = false ->
  let n := length (nth t (g_vals st) []) in
  let m := length (g_vals st) in
  do_backward st t None = (stA, Ok) ->
  exists st1 stB, do_app st None false (sumop n t) = (st1, Ok) /\ do_backward st1 m None = (stB, Ok) /\
    (forall k, k < m -> nth k (g_grad stB) None = nth k (g_grad stA) None) /\
    nth m (g_grad stB) None = Some [1%Z].
Proof.
  intros HI Ht Hc n m HA.
  destruct (backward_sum_equiv st t HI Ht Hc) as (Ho & Hs & H & Hm). cbv zeta in *.
  fold n in Ho, Hs, H, Hm. fold m in Hs, H, Hm.
  destruct (do_app st None false (sumop n t)) as [st1 o1] eqn:Ea. simpl in Ho, Hs, H, Hm. subst o1.
  destruct (do_backward st1 m None) as [stB oB] eqn:EB. simpl in Hs, H, Hm.
  rewrite HA in Hs, H. simpl in Hs, H. subst oB.
  exists st1, stB. repeat split; assumption.
Qed.
Print Assumptions backward_sum_equiv_ok'.

(* ---------- 2c. L.backward(g)  versus  (L * g).sum().backward()  with g a new constant tensor ---------- *)

Definition mulop (n a b : nat) : zcop :=
  {| c_work := n; c_args := [{| c_src := a; c_map := seq 0 n |}; {| c_src := b; c_map := seq 0 n |}];
     c_kern := KMul Z; c_seg := None |}.

(* the state after a recorded, non-constant, non-view operation *)
Definition app_state (st : gstate) (o : zcop) : gstate :=
  {| g_vals := g_vals st ++ [cop_fwd Z 0%Z 1%Z Z.add Z.mul (g_vals st) o];
     g_nodes := g_nodes st ++ [App Z false (to_op Z 0%Z Z.add Z.mul (linearize Z 0%Z 1%Z Z.mul (g_vals st) o))];
     g_cleared := g_cleared st ++ [false];
     g_hasops := set_all (g_hasops st) (map c_src (c_args Z o)) true ++ [false];
     g_grad := set_all (g_grad st) (map c_src (c_args Z o)) None ++ [None] |}.

(* --- more vector facts --- *)
Lemma gather_seq_id : forall (g pre : zvec),
  gather Z 0%Z (seq (length pre) (length g)) (pre ++ g) = g.
Proof.
  induction g as [|z g IH]; intros pre; [reflexivity|].
  cbn [length seq]. unfold gather. cbn [map]. rewrite nth_middle. f_equal.
  replace (pre ++ z :: g) with ((pre ++ [z]) ++ g) by (rewrite <- app_assoc; reflexivity).
  replace (S (length pre)) with (length (pre ++ [z])) by (rewrite app_length; simpl; lia).
  apply IH.
Qed.

Lemma vmul_ones_l (g : zvec) : vmul Z Z.mul (repeat 1%Z (length g)) g = g.
Proof. induction g as [|z g IH]; [reflexivity|]. cbn [length repeat vmul]. rewrite IH, Z.mul_1_l. reflexivity. Qed.

Lemma vmul_ones_r (g : zvec) : vmul Z Z.mul g (repeat 1%Z (length g)) = g.
Proof. induction g as [|z g IH]; [reflexivity|]. cbn [length repeat vmul]. rewrite IH, Z.mul_1_r. reflexivity. Qed.

Lemma vmul_length : forall (u v : zvec), length (vmul Z Z.mul u v) = Nat.min (length u) (length v).
Proof. induction u as [|x u IH]; intros [|y v]; simpl; try reflexivity. now rewrite IH. Qed.

Lemma scatter_seq_id : forall (g pre : zvec),
  scatter_add Z Z.add (pre ++ repeat 0%Z (length g)) (seq (length pre) (length g)) g = pre ++ g.
Proof.
  induction g as [|z g IH]; intros pre; [reflexivity|].
  cbn [length repeat seq scatter_add]. rewrite add_at_middle. rewrite Z.add_0_l.
  replace (pre ++ z :: repeat 0%Z (length g)) with ((pre ++ [z]) ++ repeat 0%Z (length g))
    by (rewrite <- app_assoc; reflexivity).
  replace (S (length pre)) with (length (pre ++ [z])) by (rewrite app_length; simpl; lia).
  rewrite IH. rewrite <- app_assoc. reflexivity.
Qed.

Lemma forallb_ltb_seq (n : nat) : forallb (fun i => i <? n) (seq 0 n) = true.
Proof. apply forallb_forall. intros i Hi. apply in_seq in Hi. apply Nat.ltb_lt. lia. Qed.

Lemma mulop_fwd_length (vals : list zvec) (n a b : nat) :
  length (cop_fwd Z 0%Z 1%Z Z.add Z.mul vals (mulop n a b)) = n.
Proof.
  unfold cop_fwd. cbn [c_kern mulop c_seg seg_fwd gathered c_args map prod_all c_map c_src c_work].
  rewrite !vmul_length. unfold gather. rewrite !map_length, !seq_length, repeat_length. lia.
Qed.

(* VJP of the product with respect to its first operand, at incoming gradient ones: the second operand *)
Lemma mulop_vjp0 (vals : list zvec) (n a b : nat) :
  length (nth a vals []) = n -> length (nth b vals []) = n ->
  vjp Z (to_op Z 0%Z Z.add Z.mul (linearize Z 0%Z 1%Z Z.mul vals (mulop n a b))) 0 (repeat 1%Z n) = nth b vals [].
Proof.
  intros Ha Hb. cbn [vjp to_op]. unfold lop_vjp.
  cbn [linearize l_args l_seg mulop c_args c_seg c_kern c_work length seq combine map nth a_len a_map a_coef c_src c_map
       seg_bwd gathered prod_except prod_all].
  rewrite Ha. rewrite <- Hb. set (x := nth b vals []).
  pose proof (gather_seq_id x []) as E1. cbn [length app] in E1. rewrite E1.
  rewrite vmul_ones_l, vmul_ones_r.
  apply (scatter_seq_id x []).
Qed.

Lemma mulop_wf (vals : list zvec) (n a b k : nat) :
  a < k -> b < k -> length (nth a vals []) = n -> length (nth b vals []) = n ->
  cop_wf_at Z 0%Z 1%Z Z.mul vals k (mulop n a b) = true.
Proof.
  intros Ha Hb La Lb. unfold cop_wf_at, lop_wf.
  cbn [linearize l_args l_seg mulop c_args c_seg c_kern c_work length seq combine map forallb c_src].
  unfold larg_wf. cbn [a_len a_map c_map c_src]. rewrite La, Lb, forallb_ltb_seq.
  replace (a <? k) with true by (symmetry; apply Nat.ltb_lt; exact Ha).
  replace (b <? k) with true by (symmetry; apply Nat.ltb_lt; exact Hb).
  reflexivity.
Qed.

Lemma step_chk_pair (P : list znode) (ho : list bool) (k : nat) (o : op Z) (t c : nat) (G : list zvec) :
  nth k P leafd = App Z false o -> ins Z o = [t; c] ->
  nconst Z (nth t P leafd) = false -> nth t ho false = true -> nconst Z (nth c P leafd) = true ->
  step_chk P ho k G = (upd Z Z.add G t (vjp Z o 0 (nth k G [])), false).
Proof. intros En Ei Hc Hh Hcc. unfold step_chk. rewrite En, Ei. simpl. rewrite Hc, Hh, Hcc. reflexivity. Qed.

Section MulBackward.
Variable st : gstate.
Variable t : nat.
Variable g : zvec.
Hypothesis HI : Inv st.
Hypothesis Ht : t < length (g_vals st).
Hypothesis Hc : n_const st t = false.
Let n := length (nth t (g_vals st) []).
Hypothesis Hg : length g = n.
Let m := length (g_vals st).
Let stg := do_leaf st true g.
Let stm := app_state stg (mulop n t m).
Let ndm : znode :=
  App Z false (to_op Z 0%Z Z.add Z.mul (linearize Z 0%Z 1%Z Z.mul (g_vals st ++ [g]) (mulop n t m))).

Lemma mul_Inv_stg : Inv stg.
Proof. apply Inv_do_leaf. exact HI. Qed.

Lemma mul_vals_t : nth t (g_vals st ++ [g]) [] = nth t (g_vals st) [].
Proof. apply app_nth1. exact Ht. Qed.

Lemma mul_vals_m : nth m (g_vals st ++ [g]) [] = g.
Proof. apply nth_snoc_len. reflexivity. Qed.

Lemma mul_do_app : do_app stg None false (mulop n t m) = (stm, Ok).
Proof.
  unfold do_app. change (map c_src (c_args Z (mulop n t m))) with [t; m].
  cbn [forallb]. unfold stg at 1 2. cbn [do_leaf g_vals]. rewrite app_length. cbn [length].
  replace (t <? length (g_vals st) + 1) with true by (symmetry; apply Nat.ltb_lt; lia).
  replace (m <? length (g_vals st) + 1) with true by (symmetry; apply Nat.ltb_lt; unfold m; lia).
  assert (Hct : n_const stg t = false).
  { destruct HI as ((L1 & _) & _). unfold n_const, stg, do_leaf. cbn [g_nodes].
    rewrite app_nth1 by lia. exact Hc. }
  rewrite Hct. reflexivity.
Qed.

Lemma mul_stmt_ok : stmt_ok stg (SApp None false (mulop n t m)) = true.
Proof.
  cbn [stmt_ok]. unfold stg. cbn [do_leaf g_vals]. apply mulop_wf.
  - rewrite app_length. simpl. lia.
  - rewrite app_length. simpl. unfold m. lia.
  - rewrite mul_vals_t. reflexivity.
  - rewrite mul_vals_m. exact Hg.
Qed.

Lemma mul_Inv : Inv stm.
Proof.
  pose proof (Inv_do_app stg None false (mulop n t m) mul_Inv_stg mul_stmt_ok) as H.
  rewrite mul_do_app in H. exact H.
Qed.

Lemma mul_eff : g_eff stm = g_eff st ++ [Leaf Z true; ndm].
Proof.
  destruct HI as ((L1 & L2 & _) & _). unfold g_eff, stm, app_state, stg, do_leaf. cbn [g_nodes g_cleared g_vals].
  rewrite eff_nodes_snoc by (rewrite !app_length; simpl; lia).
  rewrite eff_nodes_snoc by lia. rewrite <- app_assoc. reflexivity.
Qed.

Lemma mul_eff_len : length (g_eff st) = m.
Proof. destruct (Inv_g_eff st HI) as (_ & _ & _ & L). exact L. Qed.

Lemma mul_vals_len : length (g_vals stm) = S (S m).
Proof using Ht Hg. unfold stm, app_state, stg, do_leaf. cbn [g_vals]. rewrite !app_length. simpl. unfold m. lia. Qed.

Lemma mul_nconst : n_const stm (S m) = false.
Proof using HI Ht Hg.
  unfold n_const, stm, app_state. cbn [g_nodes]. rewrite nth_snoc_len; [reflexivity|].
  destruct HI as ((L1 & _) & _). unfold stg, do_leaf. cbn [g_nodes]. rewrite app_length. simpl. unfold m. lia.
Qed.

Lemma mul_out_len : length (nth (S m) (g_vals stm) []) = n.
Proof using Ht Hg.
  unfold stm, app_state. cbn [g_vals]. rewrite nth_snoc_len.
  - apply mulop_fwd_length.
  - unfold stg, do_leaf. cbn [g_vals]. rewrite app_length. simpl. unfold m. lia.
Qed.

Lemma mul_seed : bw_G0 stm (S m) None = repeat [] m ++ [[]; repeat 1%Z n].
Proof.
  unfold bw_G0, bw_seed. rewrite mul_vals_len, mul_out_len, upd_repeat_last.
  change (repeat (@nil Z) (S m)) with (([] : zvec) :: repeat [] m).
  rewrite repeat_cons. rewrite <- app_assoc. reflexivity.
Qed.

Lemma mul_nd : nth (S m) (g_eff st ++ [Leaf Z true; ndm]) leafd = ndm.
Proof.
  change (g_eff st ++ [Leaf Z true; ndm]) with (g_eff st ++ [Leaf Z true] ++ [ndm]).
  rewrite app_assoc. apply nth_snoc_len. rewrite app_length, mul_eff_len. simpl. lia.
Qed.

Lemma mul_leaf : nth m (g_eff st ++ [Leaf Z true; ndm]) leafd = Leaf Z true.
Proof. rewrite <- mul_eff_len. apply nth_middle. Qed.

Lemma mul_order : order_of stm (S m) = S m :: order_of st t.
Proof.
  destruct (Inv_g_eff st HI) as (Wf & _ & _ & _).
  unfold order_of, collect. rewrite mul_eff.
  rewrite dfs_S.
  assert (Hisc : isconst Z (g_eff st ++ [Leaf Z true; ndm]) (S m) = false)
    by (unfold isconst; rewrite mul_nd; reflexivity).
  assert (Hiscm : isconst Z (g_eff st ++ [Leaf Z true; ndm]) m = true)
    by (unfold isconst; rewrite mul_leaf; reflexivity).
  assert (Hinp : inputs Z (g_eff st ++ [Leaf Z true; ndm]) (S m) = [t; m]).
  { unfold inputs. rewrite mul_nd. unfold ndm. rewrite ins_linearize. reflexivity. }
  rewrite Hisc, Hinp. cbn [memb existsb fold_left]. f_equal.
  rewrite dfs_S, Hiscm.
  symmetry. apply dfs_ext; [apply (inputs_lt (g_eff st) Wf)|lia|lia|].
  intros j Hj. assert (Hjl : j < length (g_eff st)) by (rewrite mul_eff_len; unfold m; lia).
  unfold inputs, isconst. rewrite app_nth1 by exact Hjl. split; reflexivity.
Qed.

Lemma mul_hasops_eq : g_hasops stm = set_nth (set_nth (g_hasops st ++ [false]) t true) m true ++ [false].
Proof. reflexivity. Qed.

Lemma mul_hasops_t : nth t (g_hasops stm) false = true.
Proof.
  destruct HI as ((_ & _ & L3 & _) & _). rewrite mul_hasops_eq.
  rewrite app_nth1 by (rewrite !EngineP.length_set_nth, app_length; simpl; lia).
  rewrite EngineP.nth_set_nth_neq by (unfold m; lia).
  apply EngineP.nth_set_nth_eq. rewrite app_length. simpl. lia.
Qed.

Lemma mul_hasops_other (i : nat) : i < t -> nth i (g_hasops stm) false = nth i (g_hasops st) false.
Proof.
  intros Hi. destruct HI as ((_ & _ & L3 & _) & _). rewrite mul_hasops_eq.
  rewrite app_nth1 by (rewrite !EngineP.length_set_nth, app_length; simpl; lia).
  rewrite EngineP.nth_set_nth_neq by (unfold m; lia).
  rewrite EngineP.nth_set_nth_neq by lia.
  apply app_nth1. lia.
Qed.

Lemma mul_sweep :
  let r := sweep_chk (g_eff st) (g_hasops st) (order_of st t) (bw_G0 st t (Some g)) in
  sweep_chk (g_eff stm) (g_hasops stm) (order_of stm (S m)) (bw_G0 stm (S m) None)
  = (fst r ++ [[]; repeat 1%Z n], snd r).
Proof.
  intros r. destruct (Inv_g_eff st HI) as (Wf & _ & _ & _).
  destruct (order_of_valid st t HI Ht Hc) as (_ & _ & Hmem).
  rewrite mul_order, mul_seed, mul_eff.
  assert (Htl : t < length (g_eff st)) by (rewrite mul_eff_len; exact Ht).
  cbn [sweep_chk].
  rewrite (step_chk_pair (g_eff st ++ [Leaf Z true; ndm]) (g_hasops stm) (S m) _ t m _ mul_nd).
  - cbn iota beta.
    change (repeat [] m ++ [[]; repeat 1%Z n]) with (repeat (@nil Z) m ++ [[]] ++ [repeat 1%Z n]).
    rewrite app_assoc. rewrite nth_snoc_len by (rewrite app_length, repeat_length; simpl; lia).
    rewrite <- app_assoc.
    rewrite mulop_vjp0; [|rewrite mul_vals_t; reflexivity|rewrite mul_vals_m; exact Hg].
    rewrite mul_vals_m.
    rewrite upd_app by (rewrite repeat_length; exact Ht).
    change (upd Z Z.add (repeat [] m) t g) with (bw_G0 st t (Some g)).
    apply sweep_chk_snoc.
    + unfold bw_G0. rewrite length_upd, repeat_length. symmetry. apply mul_eff_len.
    + intros k Hk. destruct (Hmem k Hk) as [_ Hle]. split; [lia|].
      intros c o En i Hi.
      pose proof (Wf k c o (nth_App_nth_error _ _ _ _ En)) as Hf. rewrite Forall_forall in Hf.
      specialize (Hf i Hi). split; [lia|]. apply mul_hasops_other. lia.
  - unfold ndm. apply ins_linearize.
  - rewrite app_nth1 by exact Htl. rewrite eff_nconst. exact Hc.
  - apply mul_hasops_t.
  - rewrite mul_leaf. reflexivity.
Qed.

(* (L*g).backward()  versus  L.backward(g) *)
Lemma backward_mul_equiv :
  snd (do_backward stm (S m) None) = snd (do_backward st t (Some g)) /\
  (forall k, k < m -> nth k (g_grad (fst (do_backward stm (S m) None))) None
                      = nth k (g_grad (fst (do_backward st t (Some g)))) None).
Proof.
  pose proof HI as ((_ & _ & _ & Lg) & _).
  assert (Ht1 : S m < length (g_vals stm)) by (rewrite mul_vals_len; lia).
  destruct (do_backward_nonconst _ _ None Ht1 mul_nconst) as [Eg1 Eo1].
  destruct (do_backward_nonconst _ _ (Some g) Ht Hc) as [Eg Eo].
  pose proof mul_sweep as Hs. cbv zeta in Hs.
  rewrite Hs in Eg1, Eo1. cbn [fst] in Eg1. cbn [snd] in Eo1.
  rewrite mul_order in Eg1.
  set (r := sweep_chk (g_eff st) (g_hasops st) (order_of st t) (bw_G0 st t (Some g))) in *.
  assert (Lr : length (fst r) = m).
  { unfold r. rewrite sweep_chk_length. unfold bw_G0. rewrite length_upd, repeat_length. reflexivity. }
  assert (Lg1 : length (g_grad stm) = S (S m)).
  { unfold stm, app_state, stg, do_leaf. cbn [g_grad]. rewrite app_length, EngineP.length_set_all, app_length.
    simpl. unfold m. lia. }
  destruct (order_of_valid st t HI Ht Hc) as (_ & HinL & Hmem).
  split; [rewrite Eo1, Eo; reflexivity|].
  intros k Hk. rewrite Eg1, Eg.
  destruct (in_dec Nat.eq_dec k (order_of st t)) as [Hin|Hnin].
  - rewrite wg_value by (try (right; exact Hin); lia).
    rewrite wg_value by (try exact Hin; unfold m in Hk; lia).
    rewrite app_nth1 by lia. reflexivity.
  - assert (Hnin1 : ~ In k (S m :: order_of st t)) by (intros [E|E]; [lia|contradiction]).
    rewrite wg_value_notin by exact Hnin1. rewrite wg_value_notin by exact Hnin.
    assert (Hkt : k <> t) by (intros ->; contradiction).
    unfold stm, app_state, stg, do_leaf. cbn [g_grad].
    rewrite app_nth1 by (rewrite EngineP.length_set_all, app_length; simpl; unfold m in Hk; lia).
    rewrite nth_set_all_notin.
    2:{ change (map c_src (c_args Z (mulop n t m))) with [t; m].
        intros [E|[E|[]]]; [apply Hkt; symmetry; exact E|unfold m in *; lia]. }
    apply app_nth1. unfold m in Hk. lia.
Qed.
End MulBackward.

(* MAIN (C14, explicit seed): with g a fresh constant tensor of the shape of L,
   (L*g).sum().backward()  and  L.backward(g)  raise under the same circumstances and leave the same gradient
   in every tensor that existed before *)
Theorem backward_seed_equiv (st : gstate) (t : nat) (g : zvec) :
  Inv st -> t < length (g_vals st) -> n_const st t = false ->
  let n := length (nth t (g_vals st) []) in
  let m := length (g_vals st) in
  length g = n ->
  let stg := do_leaf st true g in                                        (* tensor m   : g *)
  let stm := fst (do_app stg None false (mulop n t m)) in                (* tensor m+1 : L*g *)
  let sts := fst (do_app stm None false (sumop n (S m))) in              (* tensor m+2 : (L*g).sum() *)
  snd (do_app stg None false (mulop n t m)) = Ok /\
  snd (do_app stm None false (sumop n (S m))) = Ok /\
  snd (do_backward sts (S (S m)) None) = snd (do_backward st t (Some g)) /\
  (forall k, k < m -> nth k (g_grad (fst (do_backward sts (S (S m)) None))) None
                      = nth k (g_grad (fst (do_backward st t (Some g)))) None).
Proof.
  intros HI Ht Hc n m Hg stg stm sts. subst sts stm stg n m.
  rewrite (mul_do_app st t g HI Ht Hc) by exact Hg. cbn [fst snd].
  pose proof (mul_Inv st t g HI Ht Hc Hg) as HIm.
  assert (Lm := mul_vals_len st t g Ht Hg).
  assert (Hcm := mul_nconst st t g HI Ht Hg).
  assert (Lo := mul_out_len st t g Ht Hg).
  destruct (backward_mul_equiv st t g HI Ht Hc Hg) as [Eo Eg].
  set (stm := app_state (do_leaf st true g) (mulop (length (nth t (g_vals st) [])) t (length (g_vals st)))) in *.
  assert (HtS : S (length (g_vals st)) < length (g_vals stm)) by lia.
  destruct (backward_sum_equiv stm (S (length (g_vals st))) HIm HtS Hcm) as (Ho1 & Ho2 & Hgr & _).
  cbv zeta in Ho1, Ho2, Hgr. rewrite Lo, Lm in *.
  split; [reflexivity|]. split; [exact Ho1|]. split; [rewrite Ho2; exact Eo|].
  intros k Hk. rewrite Hgr by lia. apply Eg. exact Hk.
Qed.
Print Assumptions backward_seed_equiv.

(* ====================================================================================== *)
(** * Part 3 (C01): the gradient stored in an INTERMEDIATE tensor is dL/dt with t as a cut  *)
(* ====================================================================================== *)

(* P with node t replaced by a free leaf *)
Definition cut (P : list znode) (t : nat) : list znode := set_nth P t (Leaf Z false).

Lemma nth_error_set_nth_neq {X} (l : list X) (x : X) : forall i k, k <> i ->
  nth_error (set_nth l i x) k = nth_error l k.
Proof.
  induction l as [|y l IH]; intros [|i] [|k] H; simpl; try reflexivity; try lia.
  apply IH. lia.
Qed.

Lemma nth_error_set_nth_eq {X} (l : list X) (x y : X) : forall i,
  nth_error (set_nth l i x) i = Some y -> y = x.
Proof.
  induction l as [|z l IH]; intros [|i] H; simpl in *; try discriminate.
  - inversion H. reflexivity.
  - apply (IH i). exact H.
Qed.

Lemma sweepL_app (P : list znode) (r1 r2 : list nat) (G : list zvec) :
  sweepL Z Z.add P (r1 ++ r2) G = sweepL Z Z.add P r2 (sweepL Z Z.add P r1 G).
Proof. unfold sweepL. apply fold_left_app. Qed.

Lemma sweepL_untouched (P : list znode) (j : nat) : forall rest G,
  (forall k, In k rest -> forall i, In i (inputs Z P k) -> isconst Z P i = false -> i <> j) ->
  nth j (sweepL Z Z.add P rest G) [] = nth j G [].
Proof.
  induction rest as [|k rest IH]; intros G H; simpl; [reflexivity|].
  rewrite IH by (intros k' Hk'; apply H; now right).
  apply step_untouched. apply H. now left.
Qed.

Section LeafSumSingle.
Variable delta : nat -> zvec.

Lemma leaf_sum_zero : forall (Q : list znode) (G : list zvec) n0,
  (forall j, n0 <= j -> delta j = []) -> leaf_sum Z 0%Z Z.add Z.mul delta n0 Q G = 0%Z.
Proof.
  induction Q as [|q Q IH]; intros [|g G] n0 H; simpl; try reflexivity.
  rewrite IH by (intros j Hj; apply H; lia).
  rewrite (H n0 (le_n n0)). rewrite dot_nil_r. destruct (is_free_leaf Z q); reflexivity.
Qed.

Lemma leaf_sum_single : forall (Q : list znode) (G : list zvec) t n0,
  t < length G -> nth_error Q t = Some (Leaf Z false) -> (forall j, j <> n0 + t -> delta j = []) ->
  leaf_sum Z 0%Z Z.add Z.mul delta n0 Q G = dot Z 0%Z Z.add Z.mul (nth t G []) (delta (n0 + t)).
Proof.
  induction Q as [|q Q IH]; intros [|g G] t n0 Ht En H; simpl in *; try lia;
    try (destruct t; discriminate).
  destruct t as [|t]; simpl in *.
  - inversion En; subst q. simpl. rewrite Nat.add_0_r.
    rewrite leaf_sum_zero by (intros j Hj; apply H; lia). lia.
  - rewrite (IH G t (S n0)); [|lia|exact En|intros j Hj; apply H; lia].
    replace (S n0 + t) with (n0 + S t) by lia.
    rewrite (H n0) by lia. rewrite dot_nil_r. destruct (is_free_leaf Z q); reflexivity.
Qed.
End LeafSumSingle.

Section Cut.
Variable P : list znode.
Hypothesis Hwf : wf Z P.
Hypothesis Hok : ops_ok Z 0%Z Z.add Z.mul P.
Variable t : nat.
Hypothesis Htl : t < length P.
Hypothesis Htc : isconst Z P t = false.

Lemma cut_length : length (cut P t) = length P.
Proof. apply EngineP.length_set_nth. Qed.

Lemma cut_nth_other (k : nat) : k <> t -> nth k (cut P t) leafd = nth k P leafd.
Proof. intros H. apply EngineP.nth_set_nth_neq. lia. Qed.

Lemma cut_nth_t : nth t (cut P t) leafd = Leaf Z false.
Proof. apply EngineP.nth_set_nth_eq. exact Htl. Qed.

Lemma cut_nth_error_t : nth_error (cut P t) t = Some (Leaf Z false).
Proof.
  destruct (nth_error (cut P t) t) as [y|] eqn:E.
  - apply nth_error_set_nth_eq in E. now subst.
  - apply nth_error_None in E. rewrite cut_length in E. lia.
Qed.

Lemma cut_nconst (i : nat) : nconst Z (nth i (cut P t) leafd) = nconst Z (nth i P leafd).
Proof.
  destruct (Nat.eq_dec i t) as [->|Hne]; [|rewrite cut_nth_other by exact Hne; reflexivity].
  rewrite cut_nth_t. symmetry. exact Htc.
Qed.

Lemma cut_App (k : nat) (c : bool) (o : op Z) :
  nth_error (cut P t) k = Some (App Z c o) -> nth_error P k = Some (App Z c o).
Proof.
  intros H. destruct (Nat.eq_dec k t) as [->|Hne].
  - rewrite cut_nth_error_t in H. discriminate.
  - unfold cut in H. rewrite nth_error_set_nth_neq in H by exact Hne. exact H.
Qed.

Lemma cut_wf : wf Z (cut P t).
Proof. intros k c o H. apply (Hwf k c o). apply cut_App. exact H. Qed.

Lemma cut_ops_ok : ops_ok Z 0%Z Z.add Z.mul (cut P t).
Proof. intros k c o H. apply (Hok k c o). apply cut_App. exact H. Qed.

Lemma cut_inputs_other (k : nat) : k <> t -> inputs Z (cut P t) k = inputs Z P k.
Proof. intros H. unfold inputs. rewrite cut_nth_other by exact H. reflexivity. Qed.

Lemma cut_inputs_t : inputs Z (cut P t) t = [].
Proof. unfold inputs. rewrite cut_nth_t. reflexivity. Qed.

Lemma cut_valid (order : list nat) : valid_rest Z P order -> valid_rest Z (cut P t) order.
Proof.
  intros Hv r1 k r2 E. destruct (Hv r1 k r2 E) as (Hk & Hnk & Hin).
  split; [rewrite cut_length; exact Hk|]. split; [exact Hnk|].
  intros i Hi Hci. destruct (Nat.eq_dec k t) as [->|Hne].
  - rewrite cut_inputs_t in Hi. destruct Hi.
  - rewrite cut_inputs_other in Hi by exact Hne. apply Hin; [exact Hi|].
    unfold isconst in *. rewrite <- cut_nconst. exact Hci.
Qed.

(* the value accumulated at t is final once t is reached, and is the same in the cut program *)
Lemma cut_same_at_t (order : list nat) (G0 : list zvec) :
  valid_rest Z P order -> In t order ->
  nth t (sweepL Z Z.add (cut P t) order G0) [] = nth t (sweepL Z Z.add P order G0) [].
Proof.
  intros Hv Hin. destruct (in_split t order Hin) as (r1 & r2 & E).
  destruct (Hv r1 t r2 E) as (_ & Hnt2 & _).
  assert (Hnt1 : ~ In t r1).
  { intros H1. destruct (in_split t r1 H1) as (a & b & E1).
    destruct (Hv a t (b ++ t :: r2)) as (_ & Hn & _).
    - rewrite E, E1. rewrite <- app_assoc. reflexivity.
    - apply Hn. apply in_or_app. right. now left. }
  (* nodes processed after t do not touch the entry of t *)
  assert (Hr2 : forall k, In k r2 -> forall i, In i (inputs Z P k) -> isconst Z P i = false -> i <> t).
  { intros k Hk i Hi Hci ->. destruct (in_split k r2 Hk) as (a & b & E2).
    destruct (Hv (r1 ++ t :: a) k b) as (_ & _ & Hinb).
    - rewrite E, E2. rewrite <- app_assoc. reflexivity.
    - apply Hnt2. rewrite E2. apply in_or_app. right. right. apply Hinb; assumption. }
  assert (Hself : forall i, In i (inputs Z P t) -> isconst Z P i = false -> i <> t).
  { intros i Hi _ ->. pose proof (inputs_lt P Hwf t t Hi). lia. }
  rewrite E. rewrite !sweepL_app.
  assert (E1 : sweepL Z Z.add (cut P t) r1 G0 = sweepL Z Z.add P r1 G0).
  { apply sweepL_agree; [apply cut_nconst|]. intros k Hk. apply cut_nth_other. intros ->. contradiction. }
  rewrite E1. set (G1 := sweepL Z Z.add P r1 G0).
  change (sweepL Z Z.add (cut P t) (t :: r2) G1) with (sweepL Z Z.add (cut P t) r2 (step Z Z.add (cut P t) t G1)).
  change (sweepL Z Z.add P (t :: r2) G1) with (sweepL Z Z.add P r2 (step Z Z.add P t G1)).
  assert (E2 : forall G, sweepL Z Z.add (cut P t) r2 G = sweepL Z Z.add P r2 G).
  { intros G. apply sweepL_agree; [apply cut_nconst|]. intros k Hk. apply cut_nth_other. intros ->. contradiction. }
  rewrite E2. rewrite !sweepL_untouched by exact Hr2.
  etransitivity; [|symmetry; exact (step_untouched Z Z.add P t G1 t Hself)].
  unfold step. rewrite cut_nth_t. reflexivity.
Qed.

(* MAIN (C01, intermediates): after L.backward(seed) the entry of ANY listed tensor t is the gradient of L
   with respect to t, where t is regarded as an independent variable (the graph is cut at t) *)
Theorem intermediate_grad_is_cut_adjoint (L : nat) (seed : zvec) (order : list nat) :
  L < length P -> valid_rest Z P order -> In L order -> In t order ->
  let G0 := upd Z Z.add (repeat [] (length P)) L seed in
  let G := sweepL Z Z.add P order G0 in
  let G' := sweepL Z Z.add (cut P t) order G0 in
  nth t G [] = nth t G' [] /\
  (forall delta : nat -> zvec,
     leaf_sum Z 0%Z Z.add Z.mul delta 0 (cut P t) G'
     = dot Z 0%Z Z.add Z.mul seed (nth L (tangents Z Z.add delta (cut P t)) [])) /\
  (* perturbing t alone *)
  (forall delta : nat -> zvec, (forall j, j <> t -> delta j = []) ->
     dot Z 0%Z Z.add Z.mul (nth t G []) (delta t)
     = dot Z 0%Z Z.add Z.mul seed (nth L (tangents Z Z.add delta (cut P t)) [])).
Proof.
  intros HL Hv HinL Hint G0 G G'.
  assert (Eq : nth t G [] = nth t G' []) by (symmetry; apply cut_same_at_t; assumption).
  assert (Hadj : forall delta : nat -> zvec,
     leaf_sum Z 0%Z Z.add Z.mul delta 0 (cut P t) G'
     = dot Z 0%Z Z.add Z.mul seed (nth L (tangents Z Z.add delta (cut P t)) [])).
  { intros delta.
    pose proof (backward_order_adjoint Z 0%Z 1%Z Z.add Z.mul Z.sub Z.opp InitialRing.Zth delta (cut P t)
                  cut_wf cut_ops_ok L seed order ltac:(rewrite cut_length; exact HL) (cut_valid order Hv) HinL) as Hb.
    cbv zeta in Hb. rewrite cut_length in Hb. destruct Hb as [Hb _]. exact Hb. }
  split; [exact Eq|]. split; [exact Hadj|].
  intros delta Hd. rewrite <- Hadj. rewrite Eq.
  assert (LG' : length G' = length P).
  { unfold G'.
    destruct (sweepL_inv Z 0%Z 1%Z Z.add Z.mul Z.sub Z.opp InitialRing.Zth (fun _ => []) (cut P t) cut_wf cut_ops_ok
                order [] G0) as (_ & LG & _).
    - unfold G0. rewrite length_upd, repeat_length. symmetry. apply cut_length.
    - apply cut_valid. exact Hv.
    - intros k _ [].
    - rewrite LG. apply cut_length. }
  symmetry. apply (leaf_sum_single delta (cut P t) G' t 0); [lia|apply cut_nth_error_t|exact Hd].
Qed.
End Cut.
Print Assumptions intermediate_grad_is_cut_adjoint.

(* the same at the level of the history model: after a successful L.backward(seed), the gradient stored in
   any listed tensor k (leaf or not) pairs with a perturbation of k alone to the induced perturbation of L
   in the graph (as the code sees it) cut at k *)
Theorem backward_intermediate (st : gstate) (t : nat) (seed : option zvec) (st' : gstate) (k : nat) :
  Inv st -> t < length (g_vals st) -> n_const st t = false -> do_backward st t seed = (st', Ok) ->
  In k (order_of st t) ->
  let s := match seed with Some g => g | None => repeat 1%Z (length (nth t (g_vals st) [])) end in
  forall delta : nat -> zvec, (forall j, j <> k -> delta j = []) ->
    dot Z 0%Z Z.add Z.mul (grad_vec st' k) (delta k)
    = dot Z 0%Z Z.add Z.mul s (nth t (tangents Z Z.add delta (cut (g_eff st) k)) []).
Proof.
  intros HI Ht Hc Hb Hk s delta Hd. subst s.
  change (match seed with Some g => g | None => repeat 1%Z (length (nth t (g_vals st) [])) end)
    with (bw_seed st t seed).
  pose proof HI as ((_ & _ & _ & Lg) & _).
  destruct (Inv_g_eff st HI) as (Wf & Hops & _ & LP).
  destruct (order_of_valid st t HI Ht Hc) as (Hv & HinL & Hmem).
  destruct (Hmem k Hk) as [Hck Hle].
  destruct (backward_ok_shape st t seed st' Ht Hc Hb) as (G & _ & HG & Hgr).
  assert (Egv : grad_vec st' k = nth k G []).
  { unfold grad_vec. rewrite Hgr. rewrite wg_value; [|exact Hk|lia]. destruct (nth k G []); reflexivity. }
  assert (Hkl : k < length (g_eff st)) by lia.
  assert (Hkc : isconst Z (g_eff st) k = false) by (rewrite g_eff_isconst; exact Hck).
  destruct (intermediate_grad_is_cut_adjoint (g_eff st) Wf Hops k Hkl Hkc t (bw_seed st t seed) (order_of st t)
              ltac:(lia) Hv HinL Hk) as (_ & _ & H3).
  cbv zeta in H3. rewrite LP in H3. fold (bw_G0 st t seed) in H3. rewrite <- HG in H3.
  rewrite Egv. apply H3. exact Hd.
Qed.
Print Assumptions backward_intermediate.

(* ====================================================================================== *)
(* non-vacuity of Part 2 on a concrete history: x = leaf [1;2]; y = 3*x                     *)
(* ====================================================================================== *)
Definition ex_scale2 (src : nat) (c : Z) : zcop :=
  {| c_work := 2; c_args := [{| c_src := src; c_map := [0; 1] |}]; c_kern := KLin Z [[c; c]] [0%Z; 0%Z];
     c_seg := None |}.
Definition ex_xy : list stmt := [SLeaf false [1%Z; 2%Z]; SApp None false (ex_scale2 0 3)].

Example ex_seed_equiv :
  let h0 := ex_xy ++ [SBackward 1 None] in
  let h1 := ex_xy ++ [SApp None false (sumop 2 1); SBackward 2 None] in
  let h2 := ex_xy ++ [SBackward 1 (Some [5%Z; 7%Z])] in
  let h3 := ex_xy ++ [SLeaf true [5%Z; 7%Z]; SApp None false (mulop 2 1 2); SApp None false (sumop 2 3);
                      SBackward 4 None] in
  hist_ok g_init h1 = true /\ hist_ok g_init h3 = true /\
  g_grad (fst (run_hist g_init h0)) = [Some [3; 3]; Some [1; 1]]%Z /\
  g_grad (fst (run_hist g_init h1)) = [Some [3; 3]; Some [1; 1]; Some [1]]%Z /\
  g_grad (fst (run_hist g_init h2)) = [Some [15; 21]; Some [5; 7]]%Z /\
  g_grad (fst (run_hist g_init h3)) = [Some [15; 21]; Some [5; 7]; None; Some [1; 1]; Some [1]]%Z /\
  snd (run_hist g_init h1) = [Ok; Ok; Ok; Ok] /\ snd (run_hist g_init h3) = [Ok; Ok; Ok; Ok; Ok; Ok].
Proof. vm_compute. repeat split; reflexivity. Qed.

Print Assumptions eff_agree.
Print Assumptions sweep_agree.
Print Assumptions valid_agree.
Print Assumptions C09_refuted.
Print Assumptions seed_none_is_ones.
Print Assumptions backward_sum_equiv_ok.
Print Assumptions ex_seed_equiv.

(* Part 1 at any state reached along a well-formed history *)
Corollary raise_or_exact_reachable (h1 h2 : list stmt) (t : nat) (seed : option zvec) :
  hist_ok g_init (h1 ++ h2) = true ->
  let st := fst (run_hist g_init h1) in
  t < length (g_vals st) -> n_const st t = false -> nth t (g_cleared st) false = false ->
  no_stale_refill st t ->
  match do_backward st t seed with
  | (_, InvalidBackprop) => True
  | (_, BadStmt) => False
  | (st', Ok) =>
      (forall k, In k (order_of st t) -> nth k (g_cleared st) false = false) /\
      exists G : list zvec,
        (forall k, In k (order_of st t) -> grad_vec st' k = nth k G []) /\
        (forall k, ~ In k (order_of st t) -> nth k G [] = []) /\
        (forall delta : nat -> zvec,
           leaf_sum Z 0%Z Z.add Z.mul delta 0 (g_nodes st) G
           = dot Z 0%Z Z.add Z.mul (bw_seed st t seed) (nth t (tangents Z Z.add delta (g_nodes st)) []))
  end.
Proof.
  intros Hok st Ht Hc Hcl Hns.
  assert (HI : Inv st) by (apply (Inv_reachable h1 h2); exact Hok).
  pose proof (raise_or_exact st t seed HI Ht Hc Hcl Hns) as H.
  destruct (do_backward st t seed) as [st' o] eqn:Eb. simpl in H.
  destruct o; [|exact I|exact H].
  split; [exact H|]. apply (backward_exact_when_uncleared st t seed st' HI Ht Hc Eb H).
Qed.
Print Assumptions raise_or_exact_reachable.
