(* Task H: batch normalisation (one channel) and vector norms over one lane: the backward formulas transcribed in Model/VecOps.v are
   the exact VJP of the forward formulas, for lanes of any length and every position.  Same plan as VecP.v: structural facts turn
   t |-> F (upd l i t) into a closed one-variable expression over lane constants, then auto_derive + field. *)
From Coq Require Import Reals List Lra Lia.
From Coquelicot Require Import Coquelicot.
From MG Require Import Model.VecOps Proofs.VecP.
(* if MG.Proofs.VecP is stale w.r.t. Model/VecOps.vo: copy Proofs/VecP.v next to this file, coqc -Q /verif/coq MG VecP.v, and replace the
   line above by  From MG Require Import Model.VecOps.  Require Import VecP. *)
Import ListNotations.
Open Scope R_scope.

(* ------------------------------------------------------------------------------------------------------------------------------ *)
(* generic facts                                                                                                                  *)
(* ------------------------------------------------------------------------------------------------------------------------------ *)
Lemma vsum_map_nonneg : forall (f : R -> R) l, (forall y, 0 <= f y) -> 0 <= vsum (map f l).
Proof.
  intros f l Hf. induction l as [|a l IH]; simpl; [lra|]. pose proof (Hf a). lra.
Qed.

(* the sum of the OTHER elements' images is non-negative *)
Lemma vsum_map_others_nonneg : forall (f : R -> R) l i, (forall y, 0 <= f y) -> (i < length l)%nat ->
  0 <= vsum (map f l) - f (nth i l 0).
Proof.
  intros f l i Hf. revert i. induction l as [|a l IH]; intros [|i] H; simpl in *; try lia.
  - pose proof (vsum_map_nonneg f l Hf). unfold vsum in *. lra.
  - pose proof (IH i ltac:(lia)). pose proof (Hf a). unfold vsum in *. lra.
Qed.

Lemma vvar0_nonneg : forall l i, (i < length l)%nat -> 0 <= vvar 0 l.
Proof.
  intros l i H. unfold vvar. pose proof (vlen_pos l i H) as Hn.
  apply Rmult_le_pos.
  - apply (vsum_map_nonneg (fun x => (x - vmean l) ^ 2)). intros y. apply pow2_ge_0.
  - apply Rlt_le, Rinv_0_lt_compat. lra.
Qed.

Lemma dot_map_affine : forall a b l g, length g = length l ->
  dot g (map (fun y => a * y + b) l) = a * dot g l + b * vsum g.
Proof.
  intros a b. induction l as [|x l IH]; intros [|c g] H; simpl in H; try lia; simpl map.
  - rewrite !dot_nil_l. simpl. ring.
  - rewrite !dot_cons, vsum_cons, IH by lia. ring.
Qed.

(* ------------------------------------------------------------------------------------------------------------------------------ *)
(* batch normalisation                                                                                                            *)
(* ------------------------------------------------------------------------------------------------------------------------------ *)
Lemma length_bn_xnorm : forall eps l, length (bn_xnorm eps l) = length l.
Proof. intros. unfold bn_xnorm. now rewrite map_length. Qed.

Lemma nth_bn_xnorm : forall eps l i, (i < length l)%nat ->
  nth i (bn_xnorm eps l) 0 = (nth i l 0 - vmean l) / bn_std eps l.
Proof. intros eps l i H. unfold bn_xnorm. now rewrite (nth_map_R (fun x => (x - vmean l) / bn_std eps l)). Qed.

Lemma dot_bn_xnorm : forall eps l g, length g = length l ->
  dot g (bn_xnorm eps l) = (dot g l - vmean l * vsum g) / bn_std eps l.
Proof.
  intros eps l g H. unfold bn_xnorm. rewrite <- dot_map_sub by assumption.
  exact (dot_map_div (fun x => x - vmean l) (bn_std eps l) l g).
Qed.

Lemma dot_vbatchnorm : forall gamma beta eps l g, length g = length l ->
  dot g (vbatchnorm gamma beta eps l) = gamma * ((dot g l - vmean l * vsum g) / bn_std eps l) + beta * vsum g.
Proof.
  intros gamma beta eps l g H. unfold vbatchnorm.
  rewrite dot_map_affine by (now rewrite length_bn_xnorm). now rewrite dot_bn_xnorm.
Qed.

(* one-variable core: A = (g . x) - g_i x_i, S = sum x, G = sum g, F = the variance as a function of t *)
Lemma bn_core : forall (F : R -> R) (x dF gamma beta A gi S n G eps : R),
  is_derive F x dF -> 0 < F x + eps -> n <> 0 ->
  is_derive (fun t => gamma * ((A + gi * t - (S - x + t) / n * G) / sqrt (F t + eps)) + beta * G) x
    (gamma * ((gi - G / n) / sqrt (F x + eps)
              - (A + gi * x - S / n * G) * dF / (2 * sqrt (F x + eps) * (sqrt (F x + eps)) ^ 2))).
Proof.
  intros F x dF gamma beta A gi S n G eps D Hp Hn.
  pose proof (sqrt_lt_R0 _ Hp) as Hs.
  auto_derive.
  - split; [eexists; exact D|]. repeat split; auto; lra.
  - replace (Derive (fun t => F t) x) with dF by (symmetry; apply is_derive_unique; exact D).
    field. split; lra.
Qed.

(* slightly more general than asked: only var + eps > 0 is needed, so eps = 0 ("a small non-negative number" in MyGrad's docstring)
   is covered on every lane that is not constant *)
Lemma bn_x_vjp_gen : forall g gamma beta eps l i, (i < length l)%nat -> length g = length l -> 0 < vvar 0 l + eps ->
  is_derive (fun t => dot g (vbatchnorm gamma beta eps (upd l i t))) (nth i l 0) (bn_x_bwd g gamma eps l i).
Proof.
  intros g gamma beta eps l i H Hg Hv.
  pose proof (vlen_pos l i H) as Hn.
  assert (Hd : vlen l - 0 <> 0) by lra.
  pose proof (var_vjp 0 1 l i H Hd) as D. unfold var_bwd in D.
  assert (D' : is_derive (fun t => vvar 0 (upd l i t)) (nth i l 0) (2 / (vlen l - 0) * (nth i l 0 - vmean l) * 1)).
  { eapply is_derive_ext; [|exact D]. intros t; simpl; ring. }
  clear D.
  assert (E : vvar 0 (upd l i (nth i l 0)) = vvar 0 l) by now rewrite upd_nth_id.
  assert (Hp : 0 < (fun t => vvar 0 (upd l i t)) (nth i l 0) + eps) by (cbv beta; rewrite E; lra).
  assert (Hn' : vlen l <> 0) by lra.
  pose proof (bn_core _ _ _ gamma beta (dot g l - nth i g 0 * nth i l 0) (nth i g 0) (vsum l) (vlen l) (vsum g) eps D' Hp Hn') as C.
  cbv beta in C. rewrite E in C.
  match type of C with is_derive _ _ ?v => replace (bn_x_bwd g gamma eps l i) with v end.
  - eapply is_derive_ext; [|exact C].
    intros t. cbv beta. rewrite dot_vbatchnorm by (now rewrite length_upd).
    unfold bn_std, vmean. rewrite dot_upd, vsum_upd, vlen_upd by assumption. reflexivity.
  - assert (Hs : 0 < sqrt (vvar 0 l + eps)) by (apply sqrt_lt_R0; lra).
    clear C D' Hp E Hd Hn'. unfold bn_x_bwd. rewrite nth_bn_xnorm, dot_bn_xnorm by assumption.
    unfold bn_std, vmean. replace (vlen g) with (vlen l) by (unfold vlen; now rewrite Hg).
    revert Hs Hn. generalize (sqrt (vvar 0 l + eps)) (vlen l) (vsum l) (vsum g) (dot g l) (nth i l 0) (nth i g 0).
    intros s n S G A x gi Hs Hn. field. split; lra.
Qed.

Lemma bn_x_vjp : forall g gamma beta eps l i, (i < length l)%nat -> length g = length l -> 0 < eps ->
  is_derive (fun t => dot g (vbatchnorm gamma beta eps (upd l i t))) (nth i l 0) (bn_x_bwd g gamma eps l i).
Proof.
  intros g gamma beta eps l i H Hg He. apply bn_x_vjp_gen; try assumption.
  pose proof (vvar0_nonneg l i H). lra.
Qed.

Lemma bn_gamma_vjp : forall g gamma beta eps l, length g = length l ->
  is_derive (fun t => dot g (vbatchnorm t beta eps l)) gamma (bn_gamma_bwd g eps l).
Proof.
  intros g gamma beta eps l Hg. unfold bn_gamma_bwd. rewrite dot_bn_xnorm by assumption.
  apply (is_derive_ext (fun t => t * ((dot g l - vmean l * vsum g) / bn_std eps l) + beta * vsum g)).
  - intros t. now rewrite dot_vbatchnorm.
  - generalize ((dot g l - vmean l * vsum g) / bn_std eps l) (vsum g). intros A G. auto_derive; [exact I | ring].
Qed.

Lemma bn_beta_vjp : forall g gamma beta eps l, length g = length l ->
  is_derive (fun t => dot g (vbatchnorm gamma t eps l)) beta (bn_beta_bwd g).
Proof.
  intros g gamma beta eps l Hg. unfold bn_beta_bwd.
  apply (is_derive_ext (fun t => gamma * ((dot g l - vmean l * vsum g) / bn_std eps l) + t * vsum g)).
  - intros t. now rewrite dot_vbatchnorm.
  - generalize ((dot g l - vmean l * vsum g) / bn_std eps l) (vsum g). intros A G. auto_derive; [exact I | ring].
Qed.

(* ------------------------------------------------------------------------------------------------------------------------------ *)
(* norms                                                                                                                          *)
(* ------------------------------------------------------------------------------------------------------------------------------ *)
Lemma sgn_sign : forall x, sgn x = sign x.
Proof.
  intros x. unfold sgn. destruct (Rlt_dec 0 x) as [P|NP].
  - now rewrite sign_eq_1.
  - destruct (Rlt_dec x 0) as [Q|NQ].
    + now rewrite sign_eq_m1.
    + replace x with 0 by lra. now rewrite sign_0.
Qed.

Lemma norm1_vjp : forall g l i, (i < length l)%nat -> nth i l 0 <> 0 ->
  is_derive (fun t => g * vnorm1 (upd l i t)) (nth i l 0) (norm1_bwd g l i).
Proof.
  intros g l i H Hx. unfold norm1_bwd, vnorm1. rewrite sgn_sign.
  apply (is_derive_ext (fun t => g * (vsum (map Rabs l) - Rabs (nth i l 0) + Rabs t))).
  - intros t. now rewrite (vsum_map_upd Rabs).
  - revert Hx. generalize (vsum (map Rabs l)) (nth i l 0). intros N x Hx. auto_derive; [exact Hx | ring].
Qed.

Lemma norm2_vjp : forall g l i, (i < length l)%nat -> 0 < vnorm2 l ->
  is_derive (fun t => g * vnorm2 (upd l i t)) (nth i l 0) (norm2_bwd g l i).
Proof.
  intros g l i H Hp. unfold norm2_bwd, vnorm2 in *.
  assert (HQ : 0 < vsum (map (fun x => x ^ 2) l)).
  { destruct (Rlt_dec 0 (vsum (map (fun x => x ^ 2) l))) as [P|NP]; [exact P|].
    rewrite sqrt_neg_0 in Hp by lra. lra. }
  apply (is_derive_ext (fun t => g * sqrt (vsum (map (fun x => x ^ 2) l) - (nth i l 0) ^ 2 + t ^ 2))).
  - intros t. now rewrite (vsum_map_upd (fun x => x ^ 2)).
  - revert HQ Hp. generalize (vsum (map (fun x => x ^ 2) l)) (nth i l 0). intros Q x HQ Hp.
    assert (EQ : Q - x * (x * 1) + x * (x * 1) = Q) by ring.
    auto_derive.
    + rewrite EQ. exact HQ.
    + rewrite EQ. field. lra.
Qed.

Lemma abspow_nonneg : forall p y, 0 <= abspow y p.
Proof.
  intros p y. unfold abspow. destruct (Req_EM_T y 0); [destruct (Req_EM_T p 0); lra|].
  unfold Rpower. apply Rlt_le, exp_pos.
Qed.

Lemma abspow_nz : forall p y, y <> 0 -> abspow y p = Rpower (Rabs y) p.
Proof. intros p y H. unfold abspow. destruct (Req_EM_T y 0); [contradiction | reflexivity]. Qed.

Lemma locally_nz : forall x, x <> 0 -> locally x (fun t => t <> 0).
Proof.
  intros x Hx. assert (P : 0 < Rabs x) by now apply Rabs_pos_lt.
  exists (mkposreal _ P). intros t B E. subst t.
  unfold ball in B; simpl in B. unfold AbsRing_ball, abs, minus, plus, opp in B; simpl in B.
  replace (0 + - x) with (- x) in B by ring. rewrite Rabs_Ropp in B. lra.
Qed.

Lemma normp_vjp : forall p g l i, (i < length l)%nat -> p <> 0 -> nth i l 0 <> 0 ->
  is_derive (fun t => g * vnormp p (upd l i t)) (nth i l 0) (normp_bwd p g l i).
Proof.
  intros p g l i H Hp Hx. unfold normp_bwd, vnormp. rewrite sgn_sign.
  pose proof (vsum_map_others_nonneg (fun x => abspow x p) l i (abspow_nonneg p) H) as HO. cbv beta in HO.
  rewrite (abspow_nz (p - 1)) by assumption.
  set (T := vsum (map (fun x => abspow x p) l)) in *.
  set (x := nth i l 0) in *.
  assert (ET : T = (T - abspow x p) + Rpower (Rabs x) p) by (rewrite (abspow_nz p x Hx); ring).
  apply (is_derive_ext_loc (fun t => g * Rpower ((T - abspow x p) + Rpower (Rabs t) p) (/ p))).
  - apply (filter_imp (fun t => t <> 0)); [|now apply locally_nz].
    intros t Ht. unfold T, x. rewrite (vsum_map_upd (fun x => abspow x p)) by assumption.
    now rewrite (abspow_nz p t Ht).
  - replace (Rpower T (/ p) / T) with (Rpower (T - abspow x p + Rpower (Rabs x) p) (/ p) / (T - abspow x p + Rpower (Rabs x) p))
      by (now rewrite <- ET).
    clear ET. revert HO. generalize (T - abspow x p). intros c Hc.
    assert (Px : 0 < Rabs x) by now apply Rabs_pos_lt.
    assert (Pw : 0 < c + Rpower (Rabs x) p) by (unfold Rpower; pose proof (exp_pos (p * ln (Rabs x))); lra).
    unfold Rpower in *.
    auto_derive.
    + repeat split; auto.
    + replace ((p - 1) * ln (Rabs x)) with (p * ln (Rabs x) + - ln (Rabs x)) by ring.
      rewrite exp_plus, exp_Ropp, (exp_ln (Rabs x)) by exact Px. field. repeat split; lra.
Qed.

(* ------------------------------------------------------------------------------------------------------------------------------ *)
(* The six statements exactly as given in TASK_H.md (type ascription = statement check), and the axioms they rest on              *)
(* ------------------------------------------------------------------------------------------------------------------------------ *)
Definition vec2_vjp_all :=
  ( (bn_x_vjp : forall g gamma beta eps l i, (i < length l)%nat -> length g = length l -> 0 < eps ->
        is_derive (fun t => dot g (vbatchnorm gamma beta eps (upd l i t))) (nth i l 0) (bn_x_bwd g gamma eps l i)),
    (bn_gamma_vjp : forall g gamma beta eps l, length g = length l ->
        is_derive (fun t => dot g (vbatchnorm t beta eps l)) gamma (bn_gamma_bwd g eps l)),
    (bn_beta_vjp : forall g gamma beta eps l, length g = length l ->
        is_derive (fun t => dot g (vbatchnorm gamma t eps l)) beta (bn_beta_bwd g)),
    (norm1_vjp : forall g l i, (i < length l)%nat -> nth i l 0 <> 0 ->
        is_derive (fun t => g * vnorm1 (upd l i t)) (nth i l 0) (norm1_bwd g l i)),
    (norm2_vjp : forall g l i, (i < length l)%nat -> 0 < vnorm2 l ->
        is_derive (fun t => g * vnorm2 (upd l i t)) (nth i l 0) (norm2_bwd g l i)),
    (normp_vjp : forall p g l i, (i < length l)%nat -> p <> 0 -> nth i l 0 <> 0 ->
        is_derive (fun t => g * vnormp p (upd l i t)) (nth i l 0) (normp_bwd p g l i)) ).
Print Assumptions vec2_vjp_all.
