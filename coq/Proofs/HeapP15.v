(* HeapP15: mirror_tensor followed by the death of the source ("the husk is re-populated"): wfx. *)
From Coq Require Import List Arith Bool PeanoNat Lia.
Import ListNotations.
From MG Require Import Model.Heap.
From MG.Proofs Require Import HeapP1 HeapWfb HeapP2 HeapP3 HeapP8 HeapP11 HeapP12.

Definition rm (x : id) (l : list id) : list id := filter (fun y => negb (Nat.eqb y x)) l.

Lemma in_rm x l y : In y (rm x l) <-> In y l /\ y <> x.
Proof. unfold rm. rewrite filter_In, negb_true_iff, Nat.eqb_neq. tauto. Qed.

Lemma wfx_move X h tgt src rt rs :
  wfx X h -> getT h tgt = Some rt -> getT h src = Some rs -> src <> tgt ->
  lst_of h (t_children rs) = [] ->
  (forall b, t_base rs = Some b -> b < tgt) ->
  (forall t r, getT h t = Some r -> ~ In src (lst_of h (t_children r))) ->
  (forall t r, getT h t = Some r -> t_base r <> Some src) ->
  ((exists t r, getT h t = Some r /\ In tgt (lst_of h (t_children r))) ->
   t_base rs = None \/ (t_grad rs = false /\ exists o ro, t_creator rs = Some o /\ getO h o = Some ro)) ->
  ~ In src X ->
  wfx (rm tgt X) (delT (setT h tgt rs) src).
Proof. intros W Ht Hs Hne Hl Hb Hunl Hnb Hlisted HsX.
  set (h' := delT (setT h tgt rs) src).
  assert (NDp : NoDup (keys (put (h_t h) tgt rs))) by (apply NoDup_keys_put, W).
  assert (HgetT : forall q, getT h' q = if Nat.eqb src q then None else if Nat.eqb tgt q then Some rs else getT h q).
  { intros q. unfold h', getT, delT, setT; simpl. rewrite get_del by auto. now rewrite get_put. }
  assert (Hcase : forall q r, getT h' q = Some r -> q <> src /\ ((q = tgt /\ r = rs) \/ (q <> tgt /\ getT h q = Some r))).
  { intros q r E. rewrite HgetT in E. destruct (Nat.eqb src q) eqn:E1; [discriminate|]. apply Nat.eqb_neq in E1.
    split; [congruence|]. destruct (Nat.eqb tgt q) eqn:E2.
    - apply Nat.eqb_eq in E2. inversion E. auto.
    - apply Nat.eqb_neq in E2. right. split; [congruence|auto]. }
  assert (Halloc : forall q r, getT h q = Some r -> q <> src -> exists r', getT h' q = Some r').
  { intros q r E N. rewrite HgetT. destruct (Nat.eqb src q) eqn:E1; [apply Nat.eqb_eq in E1; congruence|].
    destruct (Nat.eqb tgt q); eauto. }
  assert (HL : forall p, lst_of h' p = lst_of h p) by reflexivity.
  assert (HO : forall q, getO h' q = getO h q) by reflexivity.
  destruct (x_tens _ _ W src rs Hs) as (As & Bs & Cs & Ds).
  constructor; try apply W.
  - unfold h'; simpl. apply NoDup_keys_del. exact NDp.
  - unfold h'; simpl. intros k Hk. apply in_keys_del in Hk. apply in_keys_put in Hk. destruct Hk as [->|Hk].
    + apply (x_lt_t _ _ W). eapply get_keys; exact Ht.
    + now apply (x_lt_t _ _ W).
  - intros q r E. destruct (Hcase q r E) as (Nq & [[-> ->]|[Nt Eq]]).
    + split; [exact As|]. split; [exact Bs|]. split.
      * intros b Eb. split; [auto|]. destruct (Cs b Eb) as (C1 & rb & C2). apply (Halloc b rb C2). intros ->. lia.
      * rewrite HL, Hl. intros ? [].
    + destruct (x_tens _ _ W q r Eq) as (A & B & C & D). split; [exact A|]. split; [exact B|]. split.
      * intros b Eb. destruct (C b Eb) as (C1 & rb & C2). split; auto. apply (Halloc b rb C2).
        intros E'. subst b. exact (Hnb q r Eq Eb).
      * intros c Hc. rewrite HL in Hc. destruct (D c Hc) as (D1 & rc & D2 & D3). split; auto.
        assert (c <> src) by (intros E'; subst c; exact (Hunl q r Eq Hc)).
        rewrite HgetT. destruct (Nat.eqb src c) eqn:E1; [apply Nat.eqb_eq in E1; congruence|].
        destruct (Nat.eqb tgt c) eqn:E2.
        -- apply Nat.eqb_eq in E2; subst c. exists rs. split; auto. intros HB.
           destruct Hlisted as [K|(K1 & o & ro & K2 & K3)]; [eauto|congruence|]. split; auto. exists o, ro. auto.
        -- exists rc. split; auto.
  - intros q r E. destruct (Hcase q r E) as (Nq & [[-> ->]|[Nt Eq]]).
    + rewrite HL, Hl. constructor.
    + rewrite HL. apply (x_kids_nd _ _ W q r Eq).
  - intros t1 r1 t2 r2 c H1 H2 Hc1 Hc2. rewrite HL in Hc1, Hc2.
    destruct (Hcase t1 r1 H1) as (N1 & [[-> ->]|[Nt1 E1]]); [rewrite Hl in Hc1; destruct Hc1|].
    destruct (Hcase t2 r2 H2) as (N2 & [[-> ->]|[Nt2 E2]]); [rewrite Hl in Hc2; destruct Hc2|].
    eapply (x_par _ _ W); eauto.
  - intros t1 r1 t2 r2 H1 H2 E.
    destruct (Hcase t1 r1 H1) as (N1 & [[-> ->]|[Nt1 E1]]); destruct (Hcase t2 r2 H2) as (N2 & [[-> ->]|[Nt2 E2]]); auto.
    + exfalso. apply N2. symmetry. eapply (x_pdc _ _ W src rs t2 r2); eauto.
    + exfalso. apply N1. symmetry. eapply (x_pdc _ _ W src rs t1 r1); eauto.
    + eapply (x_pdc _ _ W); eauto.
  - intros t1 r1 t2 r2 H1 H2 X1 X2 E.
    assert (forall t, t <> tgt -> ~ In t (rm tgt X) -> ~ In t X) as K.
    { intros t Nt Hn Hin. apply Hn. apply in_rm. auto. }
    destruct (Hcase t1 r1 H1) as (N1 & [[-> ->]|[Nt1 E1]]); destruct (Hcase t2 r2 H2) as (N2 & [[-> ->]|[Nt2 E2]]); auto.
    + exfalso. apply N2. symmetry. eapply (x_pdo _ _ W src rs t2 r2); eauto.
    + exfalso. apply N1. symmetry. eapply (x_pdo _ _ W src rs t1 r1); eauto.
    + eapply (x_pdo _ _ W t1 r1 t2 r2); eauto. Qed.
