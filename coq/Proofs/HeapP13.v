(* HeapP13: Tensor._op in the model: touch_inputs, register, apply_op, apply_view, arrays: effect, wfx, existence. *)
From Coq Require Import List Arith Bool PeanoNat Lia.
Import ListNotations.
From MG Require Import Model.Heap.
From MG.Proofs Require Import HeapP1 HeapWfb HeapP2 HeapP3 HeapP8 HeapP10 HeapP11 HeapP12.

Arguments new_array : simpl never.
Arguments view_array : simpl never.
Arguments new_tensor : simpl never.

(* what Tensor._op does to each tensor input *)
Definition touch (iv : bool) (r : tens) : tens :=
  let r1 := with_base r (if isSome (t_base r) && negb (isSome (t_creator r)) then None else t_base r) in
  if iv then r1 else with_grads r1 false false.

Lemma touch_idem iv r : touch iv (touch iv r) = touch iv r.
Proof. destruct r as [c b l s d g v]. destruct iv, c, b; reflexivity. Qed.

Lemma touch_weaker iv r : weaker r (touch iv r).
Proof. unfold weaker, touch. destruct iv; simpl; repeat split; auto;
  destruct (isSome (t_base r) && negb (isSome (t_creator r))); auto. Qed.

Definition ti_step (iv : bool) (acc : option heap) (v : id) : option heap :=
  match acc with None => None | Some h1 =>
    tv <- getT h1 v ;;
    let b := if isSome (t_base tv) && negb (isSome (t_creator tv)) then None else t_base tv in
    let r := with_base tv b in
    Some (setT h1 v (if iv then r else with_grads r false false)) end.

Lemma touch_inputs_fold h vars iv : touch_inputs h vars iv = fold_left (ti_step iv) vars (Some h).
Proof. reflexivity. Qed.

Lemma ti_step_Some iv h v : ti_step iv (Some h) v = option_map (fun tv => setT h v (touch iv tv)) (getT h v).
Proof. unfold ti_step, touch. destruct (getT h v) as [tv|]; simpl; auto. Qed.

Lemma ti_None iv vars : fold_left (ti_step iv) vars None = None.
Proof. induction vars; simpl; auto. Qed.

Lemma touch_inputs_spec vars iv : forall h h', touch_inputs h vars iv = Some h' ->
  h_o h' = h_o h /\ h_set h' = h_set h /\ h_lst h' = h_lst h /\ h_arr h' = h_arr h /\ h_next h' = h_next h /\
  keys (h_t h') = keys (h_t h) /\
  (forall v, In v vars -> getT h v <> None) /\
  (forall q, getT h' q = if mem q vars then option_map (touch iv) (getT h q) else getT h q).
Proof. induction vars as [|v vars IH]; intros h h' H; rewrite touch_inputs_fold in H; cbn [fold_left] in H.
  - inversion H; subst. repeat split; auto.
  - rewrite ti_step_Some in H. destruct (getT h v) as [tv|] eqn:Ev; simpl in H; [|rewrite ti_None in H; discriminate].
    rewrite <- touch_inputs_fold in H. apply IH in H. destruct H as (A & B & C & D & E & F & G & K).
    simpl in *. repeat split; auto.
    + rewrite F. apply keys_put_in. eapply get_keys; exact Ev.
    + intros v' [<-|Hv']; [congruence|]. specialize (G v' Hv'). rewrite getT_setT in G.
      destruct (Nat.eqb v v') eqn:E1; auto. apply Nat.eqb_eq in E1; subst. congruence.
    + intros q. rewrite K, getT_setT. unfold mem at 2; simpl. fold (mem q vars).
      rewrite (Nat.eqb_sym q v). destruct (Nat.eqb v q) eqn:E1; simpl.
      * apply Nat.eqb_eq in E1; subst q. rewrite Ev. simpl. destruct (mem v vars); simpl; auto. now rewrite touch_idem.
      * reflexivity. Qed.

Lemma touch_inputs_ex vars iv : forall h, (forall v, In v vars -> getT h v <> None) -> exists h', touch_inputs h vars iv = Some h'.
Proof. induction vars as [|v vars IH]; intros h H; rewrite touch_inputs_fold; cbn [fold_left]; eauto.
  rewrite ti_step_Some. destruct (getT h v) as [tv|] eqn:Ev; [|exfalso; apply (H v); simpl; auto]. simpl.
  rewrite <- touch_inputs_fold. apply IH. intros v' Hv'. rewrite getT_setT. destruct (Nat.eqb v v'); [discriminate|]. apply H; simpl; auto. Qed.

Lemma wfx_touch_inputs X vars iv : forall h h', wfx X h -> touch_inputs h vars iv = Some h' -> wfx X h'.
Proof. induction vars as [|v vars IH]; intros h h' W H; rewrite touch_inputs_fold in H; cbn [fold_left] in H.
  - now inversion H; subst.
  - rewrite ti_step_Some in H. destruct (getT h v) as [tv|] eqn:Ev; simpl in H; [|rewrite ti_None in H; discriminate].
    rewrite <- touch_inputs_fold in H. eapply IH; [|exact H]. eapply wfx_setT_weaker; eauto. apply touch_weaker. Qed.

(* ------------------------------------------------------------------ register *)
Definition rg_step (o : id) (acc : option heap) (v : id) : option heap :=
  match acc with None => None | Some h1 =>
    tv <- getT h1 v ;;
    let s := set_of h1 (t_ops tv) in
    Some (if mem o s then h1 else setS h1 (t_ops tv) (s ++ [o])) end.

Lemma register_fold h o vars : register h o vars = fold_left (rg_step o) vars (Some h).
Proof. reflexivity. Qed.

Lemma rg_None o vars : fold_left (rg_step o) vars None = None.
Proof. induction vars; simpl; auto. Qed.

Lemma register_spec X o vars : forall h h', register h o vars = Some h' ->
  h_t h' = h_t h /\ h_o h' = h_o h /\ h_lst h' = h_lst h /\ h_arr h' = h_arr h /\ h_next h' = h_next h /\
  (forall v, In v vars -> getT h v <> None) /\ (wfx X h -> wfx X h').
Proof. induction vars as [|v vars IH]; intros h h' H; rewrite register_fold in H; simpl in H.
  - inversion H; subst. split; [|split; [|split; [|split; [|split; [|split]]]]]; auto.
  - destruct (getT h v) as [tv|] eqn:Ev; simpl in H; [|rewrite rg_None in H; discriminate].
    rewrite <- register_fold in H. apply IH in H. destruct H as (A & B & C & D & E & F & G).
    assert (Hh : forall (P : heap -> Type), P h -> P (setS h (t_ops tv) (set_of h (t_ops tv) ++ [o])) ->
                 P (if mem o (set_of h (t_ops tv)) then h else setS h (t_ops tv) (set_of h (t_ops tv) ++ [o])))
      by (intros P P1 P2; destruct (mem o (set_of h (t_ops tv))); auto).
    split; [|split; [|split; [|split; [|split; [|split]]]]].
    + rewrite A. apply (Hh (fun x => h_t x = h_t h)); auto.
    + rewrite B. apply (Hh (fun x => h_o x = h_o h)); auto.
    + rewrite C. apply (Hh (fun x => h_lst x = h_lst h)); auto.
    + rewrite D. apply (Hh (fun x => h_arr x = h_arr h)); auto.
    + rewrite E. apply (Hh (fun x => h_next x = h_next h)); auto.
    + intros v' [<-|Hv']; [congruence|]. specialize (F v' Hv').
      revert F. apply (Hh (fun x => getT x v' <> None -> getT h v' <> None)); auto.
    + intros W. apply G. apply (Hh (fun x => wfx X x)); auto. apply wfx_setS; auto. apply (x_tens _ _ W v tv Ev). Qed.

Lemma register_ex o vars : forall h, (forall v, In v vars -> getT h v <> None) -> exists h', register h o vars = Some h'.
Proof. induction vars as [|v vars IH]; intros h H; rewrite register_fold; simpl; eauto.
  destruct (getT h v) as [tv|] eqn:Ev; [|exfalso; apply (H v); simpl; auto]. simpl.
  rewrite <- register_fold. apply IH. intros v' Hv'.
  destruct (mem o (set_of h (t_ops tv))); [apply H; simpl; auto|]. apply H; simpl; auto. Qed.

(* ------------------------------------------------------------------ arrays *)
Lemma wfx_new_array X h base buf h' a : wfx X h -> new_array h base buf = (h', a) -> wfx X h'.
Proof. unfold new_array, fresh. intros W. destruct buf as [bf|]; intros H; inversion H; subst.
  - apply wfx_setA; [apply (wfx_bump X h (S (h_next h)) W); lia|simpl; lia].
  - apply wfx_setA; [apply (wfx_bump X h (S (S (h_next h))) W); lia|simpl; lia]. Qed.

Lemma wfx_view_array X h a h' a' : wfx X h -> view_array h a = Some (h', a') -> wfx X h'.
Proof. unfold view_array. intros W H. apply bind_Some in H. destruct H as (ra & _ & H).
  destruct (new_array h _ _) as [h2 a2] eqn:E. inversion H; subst. eapply wfx_new_array; eauto. Qed.

(* ------------------------------------------------------------------ apply_op *)
Record ApplyOp (h : heap) (k : nat) (vars keep : list id) (data : id) (h' : heap) (t : id) : Prop := mkAO {
  ao_t : t = S (h_next h);
  ao_next : h_next h' = 4 + h_next h;
  ao_arr : h_arr h' = h_arr h;
  ao_o : getO h' (h_next h) = Some (mkO k vars keep);
  ao_o_old : forall q, q <> h_next h -> getO h' q = getO h q;
  ao_tnew : getT h' t = Some (mkT (Some (h_next h)) None (S t) (S (S t)) data false false);
  ao_told : forall q, q <> t -> getT h' q = if mem q vars then option_map (touch false) (getT h q) else getT h q;
  ao_lst : forall p, p <> S t -> lst_of h' p = lst_of h p;
  ao_lnew : lst_of h' (S t) = [];
  ao_vars : forall v, In v vars -> getT h v <> None
}.

Lemma apply_op_spec h k vars keep data h' t : apply_op h k vars keep data = Some (h', t) ->
  ApplyOp h k vars keep data h' t.
Proof. unfold apply_op. intros H. apply bind_Some in H. destruct H as (h1 & TI & H).
  unfold fresh in H. apply bind_Some in H. destruct H as (h4 & RG & H).
  match type of H with Some ?XX = _ => assert (NT : XX = (h', t)) by congruence end. clear H.
  apply touch_inputs_spec in TI. destruct TI as (A1 & A2 & A3 & A4 & A5 & A6 & A7 & A8).
  apply (register_spec []) in RG. destruct RG as (B1 & B2 & B3 & B4 & B5 & B6 & _). simpl in *.
  apply new_tensor_spec in NT. destruct NT as (Et & Hn & Ho & Ha & Ht & Hl & Hs).
  rewrite B5 in Et, Hn. simpl in Et, Hn. rewrite A5 in Et, Hn.
  constructor.
  - exact Et. - lia. - rewrite Ha, B4. simpl. exact A4.
  - unfold getO. rewrite Ho, B2. simpl. rewrite A5. apply get_put_eq.
  - intros q Hq. unfold getO. rewrite Ho, B2. simpl. rewrite A5, get_put_ne by auto. now rewrite A1.
  - unfold getT. rewrite Ht, A5. apply get_put_eq.
  - intros q Hq. unfold getT. rewrite Ht, get_put_ne by auto. rewrite B1. simpl. apply A8.
  - intros p Hp. unfold lst_of. rewrite Hl, get_put_ne by auto. rewrite B3. simpl. now rewrite A3.
  - unfold lst_of. rewrite Hl, get_put_eq. reflexivity.
  - exact A7. Qed.

Lemma wfx_apply_op X h k vars keep data h' t : wfx X h ->
  (forall v, In v vars -> v < h_next h) -> (forall v, In v keep -> v < h_next h) ->
  apply_op h k vars keep data = Some (h', t) -> wfx X h'.
Proof. intros W Hv Hk H. unfold apply_op in H. apply bind_Some in H. destruct H as (h1 & TI & H).
  unfold fresh in H. apply bind_Some in H. destruct H as (h4 & RG & H).
  match type of H with Some ?XX = _ => assert (NT : XX = (h', t)) by congruence end. clear H.
  pose proof (wfx_touch_inputs X vars false h h1 W TI) as W1.
  apply touch_inputs_spec in TI. destruct TI as (A1 & A2 & A3 & A4 & A5 & A6 & A7 & A8).
  eapply wfx_new_tensor; [|exact NT|discriminate].
  apply (register_spec X) in RG. apply RG.
  change (wfx X (setO (bump h1 (S (h_next h1))) (h_next h1) (mkO k vars keep))).
  apply wfx_setO_new.
  - apply wfx_bump; auto.
  - simpl; lia.
  - unfold getO; simpl. apply get_None_keys. intros Hin. apply (x_lt_o _ _ W1) in Hin. lia.
  - split; simpl; intros v Hin; [apply Hv in Hin|apply Hk in Hin]; lia. Qed.

Lemma apply_op_ex h k vars keep data : (forall v, In v vars -> getT h v <> None) ->
  exists h' t, apply_op h k vars keep data = Some (h', t).
Proof. intros H. unfold apply_op. destruct (touch_inputs_ex vars false h H) as (h1 & TI). rewrite TI. simpl.
  pose proof (touch_inputs_spec vars false h h1 TI) as (A1 & A2 & A3 & A4 & A5 & A6 & A7 & A8).
  match goal with |- context [register ?hh ?o vars] => destruct (register_ex o vars hh) as (h4 & RG) end.
  - intros v Hv. unfold getT; simpl. fold (getT h1 v). rewrite A8. apply mem_In in Hv. rewrite Hv.
    specialize (H v (proj1 (mem_In _ _) Hv)). destruct (getT h v); simpl; congruence.
  - rewrite RG. simpl. destruct (new_tensor h4 _ _ _) as [h5 t5]. eauto. Qed.
