(* Proofs for C11 over the regenerated tables: every statement quantifies over a finite table and is decided by evaluation
   (forallb ... = true by vm_compute) and lifted with forallb_forall. *)
From Coq Require Import List String Bool Arith.
Import ListNotations.
From MG Require Import Gen.Routes Model.Routes.
Open Scope string_scope.

Lemma binary_families_ok : forall fam, In fam binary_families -> binary_family_ok fam = true.
Proof. apply forallb_forall. vm_compute. reflexivity. Qed.
Lemma unary_families_ok : forall fam, In fam unary_families -> unary_family_ok fam = true.
Proof. apply forallb_forall. vm_compute. reflexivity. Qed.
Lemma methods_ok : forall m, In m method_routes -> method_ok m = true.
Proof. apply forallb_forall. vm_compute. reflexivity. Qed.
Lemma np_names_ok : forall p, In p np_func_override -> np_name_ok p = true.
Proof. apply forallb_forall. vm_compute. reflexivity. Qed.
Lemma ufunc_overrides_ok : forall p, In p np_ufunc_override -> ufunc_override_ok p = true.
Proof. apply forallb_forall. vm_compute. reflexivity. Qed.
Lemma public_ufuncs_ok : forall p, In p mg_public_ufunc -> public_ufunc_ok p = true.
Proof. apply forallb_forall. vm_compute. reflexivity. Qed.

Lemma every_source_ufunc_is_registered : forall p, In p ufunc_routes ->
  (exists q, In q np_ufunc_override /\ fst (snd q) = fst p /\ snd (snd q) = snd p).
Proof.
  assert (H : forallb (fun p : string * string => existsb (fun q : string * (string * string) => String.eqb (fst (snd q)) (fst p) && String.eqb (snd (snd q)) (snd p)) np_ufunc_override) ufunc_routes = true)
    by (vm_compute; reflexivity).
  intros p Hp. rewrite forallb_forall in H. specialize (H p Hp). apply existsb_exists in H. destruct H as [q [Hq Hb]].
  apply andb_prop in Hb. destruct Hb as [H1 H2]. apply String.eqb_eq in H1. apply String.eqb_eq in H2. exists q. auto.
Qed.

Lemma mem_In : forall k l, mem k l = true <-> In k l.
Proof.
  intros k l. unfold mem. rewrite existsb_exists. split.
  - intros [x [Hx He]]. apply String.eqb_eq in He. subst. exact Hx.
  - intros H. exists k. split; [exact H | apply String.eqb_refl].
Qed.

Lemma rounding_family_refused : forall u, In u rounding_modulo_family -> array_ufunc u true = DRaise /\ array_ufunc u false = DArray.
Proof.
  assert (H : forallb (fun u => match array_ufunc u true, array_ufunc u false with DRaise, DArray => true | _, _ => false end) rounding_modulo_family = true)
    by (vm_compute; reflexivity).
  intros u Hu. rewrite forallb_forall in H. specialize (H u Hu).
  destruct (array_ufunc u true); try discriminate; destruct (array_ufunc u false); try discriminate. auto.
Qed.

Lemma comparison_family_arrays : forall u b, In u comparison_family -> array_ufunc u b = DArray.
Proof.
  assert (H : forallb (fun u => match array_ufunc u true, array_ufunc u false with DArray, DArray => true | _, _ => false end) comparison_family = true)
    by (vm_compute; reflexivity).
  intros u b Hu. rewrite forallb_forall in H. specialize (H u Hu).
  destruct (array_ufunc u true) eqn:E1; try discriminate; destruct (array_ufunc u false) eqn:E2; try discriminate. destruct b; assumption.
Qed.

(* nothing registered as non-differentiable is silently dropped: a const-only ufunc never yields an array for a non-constant operand,
   and the three ufunc tables are pairwise disjoint (so the order of the tests in __array_ufunc__ does not matter) *)
Lemma const_only_never_drops : forall u, In u const_only_set -> array_ufunc u true = DRaise.
Proof.
  assert (H : forallb (fun u => match array_ufunc u true with DRaise => true | _ => false end) const_only_set = true) by (vm_compute; reflexivity).
  intros u Hu. rewrite forallb_forall in H. specialize (H u Hu). destruct (array_ufunc u true); try discriminate. reflexivity.
Qed.
Lemma tables_disjoint :
  (forall u, In u const_only_set -> ~ In u bool_only_set /\ assoc u np_ufunc_override = None) /\
  (forall u, In u bool_only_set -> assoc u np_ufunc_override = None).
Proof.
  assert (H1 : forallb (fun u => negb (mem u bool_only_set) && match assoc u np_ufunc_override with None => true | _ => false end) const_only_set = true) by (vm_compute; reflexivity).
  assert (H2 : forallb (fun u => match assoc u np_ufunc_override with None => true | _ => false end) bool_only_set = true) by (vm_compute; reflexivity).
  split.
  - intros u Hu. rewrite forallb_forall in H1. specialize (H1 u Hu). apply andb_prop in H1. destruct H1 as [Ha Hb]. split.
    + intro Hin. apply mem_In in Hin. rewrite Hin in Ha. discriminate.
    + destruct (assoc u np_ufunc_override); [discriminate | reflexivity].
  - intros u Hu. rewrite forallb_forall in H2. specialize (H2 u Hu). destruct (assoc u np_ufunc_override); [discriminate | reflexivity].
Qed.

Lemma no_diff_functions_arrays : forall f, In f no_diff_set -> array_function f = FArray.
Proof.
  assert (H : forallb (fun f => match array_function f with FArray => true | _ => false end) no_diff_set = true) by (vm_compute; reflexivity).
  intros f Hf. rewrite forallb_forall in H. specialize (H f Hf). destruct (array_function f); try discriminate. reflexivity.
Qed.
Lemma overridden_functions_tensors : forall p, In p np_func_override -> exists c, array_function (fst p) = FTensor c.
Proof.
  assert (H : forallb (fun p : string * string => match array_function (fst p) with FTensor _ => true | _ => false end) np_func_override = true) by (vm_compute; reflexivity).
  intros p Hp. rewrite forallb_forall in H. specialize (H p Hp). destruct (array_function (fst p)); try discriminate. eexists; reflexivity.
Qed.

Lemma tables_nodup : nodupb (map fst np_ufunc_override) = true /\ nodupb (map fst np_func_override) = true /\ nodupb (map fst dunder_routes) = true.
Proof. vm_compute. auto. Qed.

(* a ufunc METHOD (reduce, outer, at, ...) applied to tensors is forwarded to the same method of the mygrad ufunc / of the NumPy ufunc *)
Lemma ufunc_method_honoured : au_honours_method_registered = true /\ au_honours_method_fallback = true.
Proof. vm_compute. auto. Qed.
(* the ** shortcuts are taken only for plain numbers and 0-d arrays: a Tensor exponent is never dropped from the graph *)
Lemma shortcuts_only_for_plain_scalars : forall p, In p shortcut_operand_types -> shortcut_types_ok p = true.
Proof. apply forallb_forall. vm_compute. reflexivity. Qed.
