(* Task E: buffer semantics of in-place updates (write / read / last_writer) and the functional meaning
   `update_cop` emitted by harness/inplace.py (properties C04 / C05).  Proofs only; definitions live in
   MG.Model.Families. *)
From Coq Require Import ZArith List Arith Bool Lia.
Import ListNotations.
From MG Require Import Base.EngCore Base.GatherScatter Model.OpsExact Model.Families.

Local Open Scope nat_scope.

(* ------------------------------------------------------------------------------------------------ *)
(* generic list facts                                                                               *)
(* ------------------------------------------------------------------------------------------------ *)

Lemma nth_ext_Z : forall (a b : zvec),
  length a = length b -> (forall p, p < length a -> nth p a 0%Z = nth p b 0%Z) -> a = b.
Proof.
  induction a as [|x a IH]; intros [|y b] Hl Hn; simpl in *; try discriminate; [reflexivity|].
  f_equal.
  - apply (Hn 0). lia.
  - apply IH; [lia|]. intros p Hp. apply (Hn (S p)). lia.
Qed.

Lemma nth_map_seq : forall (B : Type) (f : nat -> B) n p d, p < n -> nth p (map f (seq 0 n)) d = f p.
Proof.
  intros B f n p d Hp.
  rewrite (nth_indep _ d (f 0)) by (rewrite map_length, seq_length; exact Hp).
  rewrite map_nth, seq_nth by exact Hp. reflexivity.
Qed.

Lemma nth_repeat0 : forall n p, nth p (repeat 0%Z n) 0%Z = 0%Z.
Proof. induction n as [|n IH]; intros [|p]; simpl; auto. Qed.

Lemma nth_vadd : forall (u v : zvec) p,
  nth p (vadd Z Z.add u v) 0%Z = (nth p u 0%Z + nth p v 0%Z)%Z.
Proof.
  induction u as [|x u IH]; intros v p; simpl.
  - destruct p; reflexivity.
  - destruct v as [|y v]; simpl.
    + destruct p; simpl; lia.
    + destruct p as [|p]; simpl; [reflexivity|apply IH].
Qed.

Lemma nth_vmul : forall (u v : zvec) p,
  nth p (vmul Z Z.mul u v) 0%Z = (nth p u 0%Z * nth p v 0%Z)%Z.
Proof.
  induction u as [|x u IH]; intros v p; simpl.
  - destruct p; reflexivity.
  - destruct v as [|y v]; simpl.
    + destruct p; simpl; lia.
    + destruct p as [|p]; simpl; [reflexivity|apply IH].
Qed.

Lemma length_vadd : forall (u v : zvec), length (vadd Z Z.add u v) = Nat.max (length u) (length v).
Proof.
  induction u as [|x u IH]; intros [|y v]; simpl; auto.
Qed.

Lemma length_vmul : forall (u v : zvec), length (vmul Z Z.mul u v) = Nat.min (length u) (length v).
Proof.
  induction u as [|x u IH]; intros [|y v]; simpl; auto.
Qed.

Lemma length_gather : forall (m : list nat) (x : zvec), length (gather Z 0%Z m x) = length m.
Proof. intros m x. unfold gather. apply map_length. Qed.

Lemma nth_gather : forall (m : list nat) (x : zvec) j,
  j < length m -> nth j (gather Z 0%Z m x) 0%Z = nth (nth j m 0) x 0%Z.
Proof.
  intros m x j Hj. unfold gather.
  rewrite (nth_indep _ 0%Z (nth 0 x 0%Z)) by (rewrite map_length; exact Hj).
  apply (map_nth (fun i => nth i x 0%Z)).
Qed.

(* ------------------------------------------------------------------------------------------------ *)
(* set_at                                                                                           *)
(* ------------------------------------------------------------------------------------------------ *)

Lemma set_at_length : forall buf i x, length (set_at buf i x) = length buf.
Proof. induction buf as [|y t IH]; intros [|i] x; simpl; auto. Qed.

Lemma set_at_nth_eq : forall buf i x, i < length buf -> nth i (set_at buf i x) 0%Z = x.
Proof.
  induction buf as [|y t IH]; intros [|i] x Hi; simpl in *.
  - lia.
  - lia.
  - reflexivity.
  - apply IH. lia.
Qed.

Lemma set_at_nth_neq : forall buf i p x, i <> p -> nth p (set_at buf i x) 0%Z = nth p buf 0%Z.
Proof.
  induction buf as [|y t IH]; intros [|i] [|p] x Hne; simpl; try reflexivity; try lia.
  apply IH. lia.
Qed.

(* ------------------------------------------------------------------------------------------------ *)
(* 1, 2: write preserves length and leaves untouched positions alone                                *)
(* ------------------------------------------------------------------------------------------------ *)

Theorem write_length : forall pos buf vals, length (write buf pos vals) = length buf.
Proof.
  induction pos as [|q pos IH]; intros buf [|v vals]; simpl; try reflexivity.
  rewrite IH. apply set_at_length.
Qed.

Theorem write_untouched : forall pos buf vals p,
  ~ In p pos -> nth p (write buf pos vals) 0%Z = nth p buf 0%Z.
Proof.
  induction pos as [|q pos IH]; intros buf [|v vals] p Hn; simpl; try reflexivity.
  rewrite IH by (intro H; apply Hn; right; exact H).
  apply set_at_nth_neq. intro Heq. apply Hn. left. exact Heq.
Qed.

(* ------------------------------------------------------------------------------------------------ *)
(* 3: last_writer, generalised over start index / accumulator                                       *)
(* ------------------------------------------------------------------------------------------------ *)

(* the general form: running `last_writer` from index k with accumulator acc is the run from (0, None) shifted by k,
   falling back to acc *)
Lemma last_writer_shift : forall pos p k acc,
  last_writer pos p k acc =
  match last_writer pos p 0 None with Some i => Some (k + i) | None => acc end.
Proof.
  induction pos as [|q pos IH]; intros p k acc; simpl; [reflexivity|].
  rewrite (IH p (S k)). rewrite (IH p 1).
  destruct (last_writer pos p 0 None) as [i|].
  - f_equal. lia.
  - destruct (Nat.eqb q p); [f_equal; lia|reflexivity].
Qed.

Lemma last_writer_cons : forall q pos p,
  last_writer (q :: pos) p 0 None =
  match last_writer pos p 0 None with
  | Some i => Some (S i)
  | None => if Nat.eqb q p then Some 0 else None
  end.
Proof.
  intros q pos p. simpl. rewrite last_writer_shift.
  destruct (last_writer pos p 0 None); reflexivity.
Qed.

Theorem last_writer_none_iff : forall pos p, last_writer pos p 0 None = None <-> ~ In p pos.
Proof.
  induction pos as [|q pos IH]; intros p.
  - simpl. split; [intros _ H; exact H|reflexivity].
  - rewrite last_writer_cons. specialize (IH p).
    destruct (last_writer pos p 0 None) as [i|].
    + split; [discriminate|]. intros Hn. exfalso.
      assert (Hin : In p pos).
      { destruct (in_dec Nat.eq_dec p pos) as [H|H]; [exact H|]. apply IH in H. discriminate. }
      apply Hn. right. exact Hin.
    + destruct (Nat.eqb_spec q p) as [Heq|Hne].
      * split; [discriminate|]. intros Hn. exfalso. apply Hn. left. exact Heq.
      * split; [|reflexivity]. intros _ [H|H]; [exact (Hne H)|]. apply IH in H; [exact H|reflexivity].
Qed.

Theorem last_writer_some : forall pos p i,
  last_writer pos p 0 None = Some i -> i < length pos /\ nth i pos 0 = p.
Proof.
  induction pos as [|q pos IH]; intros p i H.
  - simpl in H. discriminate.
  - rewrite last_writer_cons in H.
    destruct (last_writer pos p 0 None) as [i'|] eqn:E.
    + inversion H; subst i. destruct (IH p i' E) as [Hl Hn]. simpl. split; [lia|exact Hn].
    + destruct (Nat.eqb_spec q p) as [Heq|Hne]; [|discriminate].
      inversion H; subst i. simpl. split; [lia|exact Heq].
Qed.

(* the accumulator-general versions asked for in the task *)
Corollary last_writer_gen_none_iff : forall pos p k acc,
  last_writer pos p k acc = None <-> (~ In p pos /\ acc = None).
Proof.
  intros pos p k acc. rewrite last_writer_shift. pose proof (last_writer_none_iff pos p) as Hi.
  destruct (last_writer pos p 0 None) as [i|].
  - split; [discriminate|]. intros [Hn _]. apply Hi in Hn. discriminate.
  - split.
    + intros Ha. split; [apply Hi; reflexivity|exact Ha].
    + intros [_ Ha]. exact Ha.
Qed.

Corollary last_writer_gen_some : forall pos p k acc i,
  last_writer pos p k acc = Some i ->
  (exists i', i = k + i' /\ i' < length pos /\ nth i' pos 0 = p) \/ (~ In p pos /\ acc = Some i).
Proof.
  intros pos p k acc i. rewrite last_writer_shift.
  destruct (last_writer pos p 0 None) as [i'|] eqn:E; intros H.
  - left. inversion H; subst i. exists i'. split; [reflexivity|]. apply last_writer_some. exact E.
  - right. split; [|exact H]. apply last_writer_none_iff. exact E.
Qed.

(* every later occurrence of p is not after the last writer: i is the LAST index holding p *)
Lemma last_writer_is_last : forall pos p i,
  last_writer pos p 0 None = Some i -> forall j, i < j -> j < length pos -> nth j pos 0 <> p.
Proof.
  induction pos as [|q pos IH]; intros p i H j Hij Hj.
  - simpl in Hj. lia.
  - rewrite last_writer_cons in H.
    destruct (last_writer pos p 0 None) as [i'|] eqn:E.
    + inversion H; subst i. destruct j as [|j]; [lia|]. simpl in *. apply (IH p i' E); lia.
    + destruct j as [|j]; [lia|]. simpl in *. intro Hp.
      apply last_writer_none_iff in E. apply E. rewrite <- Hp. apply nth_In. lia.
Qed.

Theorem write_last_wins : forall pos buf vals p i,
  length pos = length vals -> p < length buf -> last_writer pos p 0 None = Some i ->
  nth p (write buf pos vals) 0%Z = nth i vals 0%Z.
Proof.
  induction pos as [|q pos IH]; intros buf vals p i Hl Hp Hlw.
  - simpl in Hlw. discriminate.
  - destruct vals as [|v vals]; [simpl in Hl; discriminate|].
    simpl in Hl. rewrite last_writer_cons in Hlw. simpl write.
    destruct (last_writer pos p 0 None) as [i'|] eqn:E.
    + inversion Hlw; subst i. simpl nth.
      apply IH; [lia|rewrite set_at_length; exact Hp|exact E].
    + destruct (Nat.eqb_spec q p) as [Heq|Hne]; [|discriminate].
      inversion Hlw; subst i. subst q. simpl nth.
      rewrite write_untouched by (apply last_writer_none_iff; exact E).
      apply set_at_nth_eq. exact Hp.
Qed.

(* both cases at once *)
Corollary write_nth : forall pos buf vals p,
  length pos = length vals -> p < length buf ->
  nth p (write buf pos vals) 0%Z =
  match last_writer pos p 0 None with Some i => nth i vals 0%Z | None => nth p buf 0%Z end.
Proof.
  intros pos buf vals p Hl Hp.
  destruct (last_writer pos p 0 None) as [i|] eqn:E.
  - apply write_last_wins; assumption.
  - apply write_untouched. apply last_writer_none_iff. exact E.
Qed.

(* ------------------------------------------------------------------------------------------------ *)
(* 5 (MAIN): the emitted cop computes exactly the buffer write                                      *)
(* ------------------------------------------------------------------------------------------------ *)

Definition lw_list (n : nat) (pos : list nat) : list (option nat) :=
  map (fun p => last_writer pos p 0 None) (seq 0 n).
Definition lw_idx (o : option nat) : nat := match o with Some i => i | None => 0 end.
Definition lw_keep (o : option nat) : Z := match o with Some _ => 0%Z | None => 1%Z end.
Definition lw_take (o : option nat) : Z := match o with Some _ => 1%Z | None => 0%Z end.

Lemma update_cop_fwd_unfold : forall n pos buf vals,
  cop_fwd Z 0%Z 1%Z Z.add Z.mul [buf; vals] (update_cop n pos) =
  vadd Z Z.add
    (vadd Z Z.add (repeat 0%Z n)
       (vmul Z Z.mul (map lw_keep (lw_list n pos)) (gather Z 0%Z (seq 0 n) buf)))
    (vmul Z Z.mul (map lw_take (lw_list n pos)) (gather Z 0%Z (map lw_idx (lw_list n pos)) vals)).
Proof. reflexivity. Qed.

Lemma lw_list_length : forall n pos, length (lw_list n pos) = n.
Proof. intros. unfold lw_list. rewrite map_length, seq_length. reflexivity. Qed.

Lemma update_cop_fwd_length : forall n pos buf vals,
  length (cop_fwd Z 0%Z 1%Z Z.add Z.mul [buf; vals] (update_cop n pos)) = n.
Proof.
  intros. rewrite update_cop_fwd_unfold.
  rewrite !length_vadd, !length_vmul, !length_gather, !map_length, lw_list_length, repeat_length, seq_length.
  lia.
Qed.

Lemma update_cop_fwd_nth : forall n pos buf vals p, p < n ->
  nth p (cop_fwd Z 0%Z 1%Z Z.add Z.mul [buf; vals] (update_cop n pos)) 0%Z =
  match last_writer pos p 0 None with Some i => nth i vals 0%Z | None => nth p buf 0%Z end.
Proof.
  intros n pos buf vals p Hp. rewrite update_cop_fwd_unfold.
  rewrite !nth_vadd, !nth_vmul, nth_repeat0.
  rewrite !nth_gather by (rewrite ?map_length, ?lw_list_length, ?seq_length; exact Hp).
  rewrite seq_nth by exact Hp. simpl (0 + p).
  unfold lw_list. rewrite !map_map.
  rewrite !nth_map_seq by exact Hp.
  destruct (last_writer pos p 0 None) as [i|]; cbn [lw_keep lw_take lw_idx]; lia.
Qed.

Theorem update_cop_is_write : forall n buf pos vals,
  n = length buf -> Forall (fun p => p < n) pos -> length vals = length pos ->
  cop_fwd Z 0%Z 1%Z Z.add Z.mul [buf; vals] (update_cop n pos) = write buf pos vals.
Proof.
  intros n buf pos vals Hn _ Hl.
  apply nth_ext_Z.
  - rewrite update_cop_fwd_length, write_length. exact Hn.
  - rewrite update_cop_fwd_length. intros p Hp.
    rewrite update_cop_fwd_nth by exact Hp.
    rewrite write_nth by (try lia). reflexivity.
Qed.
Print Assumptions update_cop_is_write.

(* ------------------------------------------------------------------------------------------------ *)
(* 4: read after write (NumPy memory semantics of two members of one family)                        *)
(* ------------------------------------------------------------------------------------------------ *)

Theorem read_after_write : forall buf m1 m2 vals,
  length vals = length m1 ->
  Forall (fun p => p < length buf) m1 -> Forall (fun p => p < length buf) m2 ->
  forall j, j < length m2 ->
  nth j (read (write buf m1 vals) m2) 0%Z =
  match last_writer m1 (nth j m2 0) 0 None with
  | Some i => nth i vals 0%Z
  | None => nth j (read buf m2) 0%Z
  end.
Proof.
  intros buf m1 m2 vals Hl _ H2 j Hj. unfold read.
  rewrite !nth_gather by exact Hj.
  apply write_nth; [lia|].
  rewrite Forall_forall in H2. apply H2. apply nth_In. exact Hj.
Qed.
Print Assumptions read_after_write.

Theorem shares_false_iff : forall m1 m2,
  shares m1 m2 = false <-> (forall p, In p m1 -> ~ In p m2).
Proof.
  intros m1 m2. unfold shares. split.
  - intros H p H1 H2.
    assert (Ht : existsb (fun p => existsb (Nat.eqb p) m2) m1 = true).
    { apply existsb_exists. exists p. split; [exact H1|].
      apply existsb_exists. exists p. split; [exact H2|apply Nat.eqb_refl]. }
    rewrite H in Ht. discriminate.
  - intros H.
    destruct (existsb (fun p => existsb (Nat.eqb p) m2) m1) eqn:E; [|reflexivity].
    exfalso. apply existsb_exists in E. destruct E as [p [H1 E]].
    apply existsb_exists in E. destruct E as [q [H2 E]].
    apply Nat.eqb_eq in E. subst q. exact (H p H1 H2).
Qed.

Theorem shares_true_iff : forall m1 m2,
  shares m1 m2 = true <-> (exists p, In p m1 /\ In p m2).
Proof.
  intros m1 m2. unfold shares. split.
  - intros E. apply existsb_exists in E. destruct E as [p [H1 E]].
    apply existsb_exists in E. destruct E as [q [H2 E]].
    apply Nat.eqb_eq in E. subst q. exists p. split; assumption.
  - intros [p [H1 H2]]. apply existsb_exists. exists p. split; [exact H1|].
    apply existsb_exists. exists p. split; [exact H2|apply Nat.eqb_refl].
Qed.

(* holds without any side condition *)
Theorem no_sharing_no_effect : forall buf m1 m2 vals,
  shares m1 m2 = false -> read (write buf m1 vals) m2 = read buf m2.
Proof.
  intros buf m1 m2 vals H. unfold read, gather.
  apply map_ext_in. intros p Hp.
  apply write_untouched. intro H1.
  rewrite shares_false_iff in H. exact (H p H1 Hp).
Qed.
Print Assumptions no_sharing_no_effect.

(* ------------------------------------------------------------------------------------------------ *)
(* 6: well-formedness of the linearised update                                                      *)
(* ------------------------------------------------------------------------------------------------ *)

Lemma update_cop_wf_unfold : forall n pos buf vals,
  lop_wf Z (linearize Z 0%Z 1%Z Z.mul [buf; vals] (update_cop n pos)) =
  (forallb (fun i => Nat.ltb i (length buf)) (seq 0 n) &&
   (forallb (fun i => Nat.ltb i (length vals)) (map lw_idx (lw_list n pos)) && true)) && true.
Proof. reflexivity. Qed.

(* The side condition suggested in the task, `0 < length vals \/ pos = []`, is NOT sufficient: with nothing written
   (pos = vals = []) and a non-empty buffer, the second operand's map is all zeros and 0 is not < length vals = 0. *)
Example update_cop_wf_counterexample :
  lop_wf Z (linearize Z 0%Z 1%Z Z.mul [[5%Z]; []] (update_cop 1 [])) = false.
Proof. vm_compute. reflexivity. Qed.
Eval vm_compute in lop_wf Z (linearize Z 0%Z 1%Z Z.mul [[5%Z]; []] (update_cop 1 [])).

(* ORIGINAL (false as written when buf <> [] and pos = vals = []):
     Forall (fun p => p < length buf) pos -> length vals = length pos -> (0 < length vals \/ pos = []) ->
     lop_wf Z (linearize Z 0 1 Z.mul [buf; vals] (update_cop (length buf) pos)) = true
   The right side condition is `vals <> []` (or the degenerate `buf = []`). *)
Theorem update_cop_wf : forall buf pos vals,
  Forall (fun p => p < length buf) pos -> length vals = length pos ->
  0 < length vals \/ buf = [] ->
  lop_wf Z (linearize Z 0%Z 1%Z Z.mul [buf; vals] (update_cop (length buf) pos)) = true.
Proof.
  intros buf pos vals _ Hl Hc. rewrite update_cop_wf_unfold.
  rewrite !andb_true_r. apply andb_true_intro. split.
  - apply forallb_forall. intros i Hi. apply in_seq in Hi. apply Nat.ltb_lt. lia.
  - apply forallb_forall. intros i Hi.
    apply in_map_iff in Hi. destruct Hi as [o [Ho Hi]]. subst i.
    unfold lw_list in Hi. apply in_map_iff in Hi. destruct Hi as [p [Hp Hi]]. subst o.
    apply in_seq in Hi. apply Nat.ltb_lt.
    destruct (last_writer pos p 0 None) as [i|] eqn:E; simpl.
    + apply last_writer_some in E. lia.
    + destruct Hc as [Hc|Hc]; [exact Hc|]. subst buf. simpl in Hi. lia.
Qed.
Print Assumptions update_cop_wf.

(* and the side condition is exactly right *)
Theorem update_cop_wf_iff : forall buf pos vals,
  Forall (fun p => p < length buf) pos -> length vals = length pos ->
  (lop_wf Z (linearize Z 0%Z 1%Z Z.mul [buf; vals] (update_cop (length buf) pos)) = true
   <-> (0 < length vals \/ buf = [])).
Proof.
  intros buf pos vals Hf Hl. split; [|apply update_cop_wf; assumption].
  intros H.
  destruct vals as [|v vals]; [|left; simpl; lia].
  destruct buf as [|b buf]; [right; reflexivity|]. exfalso.
  destruct pos as [|q pos]; [|simpl in Hl; discriminate].
  rewrite update_cop_wf_unfold in H. simpl in H.
  rewrite andb_false_r in H. discriminate.
Qed.
Print Assumptions update_cop_wf_iff.

(* ------------------------------------------------------------------------------------------------ *)
(* 7: non-vacuity                                                                                   *)
(* ------------------------------------------------------------------------------------------------ *)

(* position 1 is written twice (values 20 then 40): the later value wins; position 3 once; 0 and 2 untouched *)
Example write_repeated :
  write [1; 2; 3; 4]%Z [1; 3; 1] [20; 30; 40]%Z = [1; 40; 3; 30]%Z.
Proof. vm_compute. reflexivity. Qed.

Example last_writer_repeated :
  map (fun p => last_writer [1; 3; 1] p 0 None) (seq 0 4) = [None; Some 2; None; Some 1].
Proof. vm_compute. reflexivity. Qed.

Example update_cop_repeated :
  cop_fwd Z 0%Z 1%Z Z.add Z.mul [[1; 2; 3; 4]%Z; [20; 30; 40]%Z] (update_cop 4 [1; 3; 1]) = [1; 40; 3; 30]%Z.
Proof. vm_compute. reflexivity. Qed.

Example update_cop_wf_repeated :
  lop_wf Z (linearize Z 0%Z 1%Z Z.mul [[1; 2; 3; 4]%Z; [20; 30; 40]%Z] (update_cop 4 [1; 3; 1])) = true.
Proof. vm_compute. reflexivity. Qed.

(* a second member (a reversed view of positions 1..2) observes the write through the shared buffer *)
Example read_after_write_repeated :
  read (write [1; 2; 3; 4]%Z [1; 3; 1] [20; 30; 40]%Z) [2; 1] = [3; 40]%Z
  /\ shares [1; 3; 1] [2; 1] = true
  /\ shares [1; 3; 1] [0; 2] = false
  /\ read (write [1; 2; 3; 4]%Z [1; 3; 1] [20; 30; 40]%Z) [0; 2] = read [1; 2; 3; 4]%Z [0; 2].
Proof. vm_compute. repeat split. Qed.

Print Assumptions write_length.
Print Assumptions write_untouched.
Print Assumptions write_last_wins.
Print Assumptions last_writer_none_iff.
Print Assumptions last_writer_some.
Print Assumptions shares_false_iff.
