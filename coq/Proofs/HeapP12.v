(* HeapP12: elementary heap edits preserve wfx. *)
From Coq Require Import List Arith Bool PeanoNat Lia.
Import ListNotations.
From MG Require Import Model.Heap.
From MG.Proofs Require Import HeapP1 HeapWfb HeapP2 HeapP3 HeapP8 HeapP11.

Lemma child_wf_mono h h' t c :
  (forall r, getT h c = Some r -> exists r', getT h' c = Some r' /\ weaker r r') ->
  (forall q r, getO h q = Some r -> exists r', getO h' q = Some r') ->
  child_wf h t c -> child_wf h' t c.
Proof. intros HT HO (H1 & rc & E & H2). split; auto.
  destruct (HT rc E) as (r' & E' & C & _ & _ & B & G). exists r'. split; auto.
  intros HB. assert (t_base rc <> None) as HB' by (destruct B; congruence).
  destruct (H2 HB') as (Gr & o & ro & Eo & Ego). split; [destruct G; congruence|].
  destruct (HO o ro Ego) as (ro' & Ego'). exists o, ro'. split; congruence. Qed.

Lemma weaker_refl r : weaker r r.
Proof. unfold weaker; auto 10. Qed.

(* every tensor of h' is a weakened tensor of h, no tensor disappears, the lists and the operations of h are kept *)
Lemma wfx_frame X h h' :
  wfx X h ->
  NoDup (keys (h_t h')) -> NoDup (keys (h_o h')) -> NoDup (keys (h_set h')) -> NoDup (keys (h_lst h')) -> NoDup (keys (h_arr h')) ->
  (forall k, In k (keys (h_t h')) -> k < h_next h') -> (forall k, In k (keys (h_o h')) -> k < h_next h') ->
  (forall k, In k (keys (h_set h')) -> k < h_next h') -> (forall k, In k (keys (h_lst h')) -> k < h_next h') ->
  (forall k, In k (keys (h_arr h')) -> k < h_next h') ->
  h_next h <= h_next h' ->
  (forall t r', getT h' t = Some r' -> exists r, getT h t = Some r /\ weaker r r') ->
  (forall t r, getT h t = Some r -> exists r', getT h' t = Some r') ->
  (forall p, p < h_next h -> lst_of h' p = lst_of h p) ->
  (forall q r, getO h q = Some r -> getO h' q = Some r) ->
  (forall q r, getO h' q = Some r -> oper_wf h' r) ->
  wfx X h'.
Proof. intros W N1 N2 N3 N4 N5 B1 B2 B3 B4 B5 HN HT HT2 HL HO HO2.
  assert (Hlst : forall t r r', getT h t = Some r -> weaker r r' -> lst_of h' (t_children r') = lst_of h (t_children r)).
  { intros t r r' Ht (_ & Hc & _). rewrite Hc. apply HL. apply (x_tens _ _ W t r Ht). }
  assert (Hback : forall t r r', getT h t = Some r -> getT h' t = Some r' -> weaker r r').
  { intros t r r' E E'. destruct (HT t r' E') as (r0 & E0 & Wk). congruence. }
  constructor; auto.
  - intros t r' Ht'. destruct (HT t r' Ht') as (r & Ht & Wk).
    pose proof Wk as (Hc & Hl & Ho & Hb & Hg).
    destruct (x_tens _ _ W t r Ht) as (A & B & C & D).
    split; [lia|]. split; [lia|]. split.
    + intros b Eb. assert (t_base r = Some b) as Eb' by (destruct Hb; congruence).
      destruct (C b Eb') as (C1 & rb & C2). split; auto. apply (HT2 b rb C2).
    + intros c Hcin. rewrite (Hlst t r r' Ht Wk) in Hcin. apply (child_wf_mono h h' t c); auto.
      * intros rc Erc. destruct (HT2 c rc Erc) as (rc' & Erc'). exists rc'. split; auto. eapply Hback; eauto.
      * intros q rq Eq. exists rq. auto.
  - intros t r' Ht'. destruct (HT t r' Ht') as (r & Ht & Wk). rewrite (Hlst t r r' Ht Wk). apply (x_kids_nd _ _ W t r Ht).
  - intros t1 r1' t2 r2' c H1 H2 Hc1 Hc2.
    destruct (HT t1 r1' H1) as (r1 & E1 & Wk1). destruct (HT t2 r2' H2) as (r2 & E2 & Wk2).
    rewrite (Hlst t1 r1 r1' E1 Wk1) in Hc1. rewrite (Hlst t2 r2 r2' E2 Wk2) in Hc2.
    eapply (x_par _ _ W); eauto.
  - intros t1 r1' t2 r2' H1 H2 E.
    destruct (HT t1 r1' H1) as (r1 & E1 & Wk1). destruct (HT t2 r2' H2) as (r2 & E2 & Wk2).
    eapply (x_pdc _ _ W); eauto. destruct Wk1 as (_ & <- & _), Wk2 as (_ & <- & _). exact E.
  - intros t1 r1' t2 r2' H1 H2 X1 X2 E.
    destruct (HT t1 r1' H1) as (r1 & E1 & Wk1). destruct (HT t2 r2' H2) as (r2 & E2 & Wk2).
    eapply (x_pdo _ _ W t1 r1 t2 r2); eauto. destruct Wk1 as (_ & _ & <- & _), Wk2 as (_ & _ & <- & _). exact E. Qed.

(* E1: a tensor record is weakened *)
Lemma wfx_setT_weaker X h t r r' : wfx X h -> getT h t = Some r -> weaker r r' -> wfx X (setT h t r').
Proof. intros W Ht Wk.
  assert (Hk : keys (h_t (setT h t r')) = keys (h_t h)) by (eapply keys_setT_in; eauto).
  apply (wfx_frame X h); auto; try apply W.
  - rewrite Hk. apply W.
  - intros k Hkk. rewrite Hk in Hkk. now apply (x_lt_t _ _ W).
  - intros q r1 E. rewrite getT_setT in E. destruct (Nat.eqb t q) eqn:Eq.
    + apply Nat.eqb_eq in Eq; subst q. inversion E; subst r1. eauto.
    + exists r1. split; auto. apply weaker_refl.
  - intros q r1 E. rewrite getT_setT. destruct (Nat.eqb t q); eauto. Qed.

(* E2 *)
Lemma wfx_setA X h a r : wfx X h -> a < h_next h -> wfx X (setA h a r).
Proof. intros W Ha. apply (wfx_frame X h); auto; try apply W.
  - simpl. apply NoDup_keys_put, W.
  - simpl. intros k Hk. apply in_keys_put in Hk. destruct Hk as [->|Hk]; auto. now apply (x_lt_arr _ _ W).
  - intros q r1 E. exists r1. split; auto. apply weaker_refl.
  - intros q r1 E. eauto. Qed.

(* E3 *)
Lemma wfx_setS X h s l : wfx X h -> s < h_next h -> wfx X (setS h s l).
Proof. intros W Ha. apply (wfx_frame X h); auto; try apply W.
  - simpl. apply NoDup_keys_put, W.
  - simpl. intros k Hk. apply in_keys_put in Hk. destruct Hk as [->|Hk]; auto. now apply (x_lt_set _ _ W).
  - intros q r1 E. exists r1. split; auto. apply weaker_refl.
  - intros q r1 E. eauto. Qed.

(* E4: a new operation *)
Lemma wfx_setO_new X h o r : wfx X h -> o < h_next h -> getO h o = None -> oper_wf h r -> wfx X (setO h o r).
Proof. intros W Ho Hn Hr. apply (wfx_frame X h); auto; try apply W.
  - simpl. apply NoDup_keys_put, W.
  - simpl. intros k Hk. apply in_keys_put in Hk. destruct Hk as [->|Hk]; auto. now apply (x_lt_o _ _ W).
  - intros q r1 E. exists r1. split; auto. apply weaker_refl.
  - intros q r1 E. eauto.
  - intros q r1 E. unfold getO, setO in *; simpl. rewrite get_put. destruct (Nat.eqb o q) eqn:Eq; auto.
    apply Nat.eqb_eq in Eq; subst q. congruence.
  - intros q r1 E. unfold getO, setO in E; simpl in E. rewrite get_put in E. destruct (Nat.eqb o q).
    + inversion E; subst r1. exact Hr.
    + apply (x_oper _ _ W q r1 E). Qed.

(* E6: the children list of one tensor is replaced *)
Lemma wfx_setL X h par tp xs : wfx X h -> getT h par = Some tp ->
  NoDup xs -> (forall c, In c xs -> child_wf h par c) ->
  (forall c t r, In c xs -> getT h t = Some r -> In c (lst_of h (t_children r)) -> t = par) ->
  wfx X (setL h (t_children tp) xs).
Proof. intros W Hp ND HC HU. set (ptr := t_children tp).
  assert (Hptr : ptr < h_next h) by (apply (x_tens _ _ W par tp Hp)).
  assert (HL : forall p, lst_of (setL h ptr xs) p = if Nat.eqb ptr p then xs else lst_of h p).
  { intros p. unfold lst_of, setL; simpl. rewrite get_put. destruct (Nat.eqb ptr p); auto. }
  assert (Hown : forall t r, getT h t = Some r -> t_children r = ptr -> t = par).
  { intros t r Ht E. eapply (x_pdc _ _ W); eauto. }
  assert (HLt : forall t r, getT h t = Some r -> lst_of (setL h ptr xs) (t_children r) = if Nat.eqb t par then xs else lst_of h (t_children r)).
  { intros t r Ht. rewrite HL. destruct (Nat.eqb ptr (t_children r)) eqn:E.
    - apply Nat.eqb_eq in E. symmetry in E. apply (Hown t r Ht) in E. subst t. now rewrite Nat.eqb_refl.
    - destruct (Nat.eqb t par) eqn:E2; auto. apply Nat.eqb_eq in E2; subst t. rewrite Hp in Ht. inversion Ht; subst r.
      unfold ptr in E. rewrite Nat.eqb_refl in E. discriminate. }
  constructor; try apply W.
  - simpl. apply NoDup_keys_put, W.
  - simpl. intros k Hk. apply in_keys_put in Hk. destruct Hk as [->|Hk]; auto. now apply (x_lt_lst _ _ W).
  - intros t r Ht. change (getT h t = Some r) in Ht. destruct (x_tens _ _ W t r Ht) as (A & B & C & D).
    split; auto. split; auto. split; auto.
    intros c Hc. rewrite (HLt t r Ht) in Hc.
    assert (child_wf h t c) as K.
    { destruct (Nat.eqb t par) eqn:E; [apply Nat.eqb_eq in E; subst t; auto|auto]. }
    destruct K as (K1 & rc & K2 & K3). split; auto. exists rc. split; auto.
  - intros t r Ht. change (getT h t = Some r) in Ht. rewrite (HLt t r Ht). destruct (Nat.eqb t par); auto. apply (x_kids_nd _ _ W t r Ht).
  - intros t1 r1 t2 r2 c H1 H2 Hc1 Hc2. change (getT h t1 = Some r1) in H1. change (getT h t2 = Some r2) in H2.
    rewrite (HLt t1 r1 H1) in Hc1. rewrite (HLt t2 r2 H2) in Hc2.
    destruct (Nat.eqb t1 par) eqn:E1; destruct (Nat.eqb t2 par) eqn:E2.
    + apply Nat.eqb_eq in E1, E2. congruence.
    + apply Nat.eqb_eq in E1. subst t1. symmetry. eapply HU; eauto.
    + apply Nat.eqb_eq in E2. subst t2. eapply HU; eauto.
    + eapply (x_par _ _ W); eauto. Qed.

(* E5: a new tensor with fresh (empty) list and set objects *)
Lemma new_tensor_spec h c b d h' t : new_tensor h c b d = (h', t) ->
  t = h_next h /\ h_next h' = 3 + h_next h /\ h_o h' = h_o h /\ h_arr h' = h_arr h /\
  h_t h' = put (h_t h) t (mkT c b (S t) (S (S t)) d false false) /\
  h_lst h' = put (h_lst h) (S t) [] /\ h_set h' = put (h_set h) (S (S t)) [].
Proof. unfold new_tensor, fresh. simpl. intros H. inversion H; subst. repeat split; auto. Qed.

Lemma wfx_new_tensor X h c b d h' t : wfx X h -> new_tensor h c b d = (h', t) ->
  (forall bb, b = Some bb -> exists rb, getT h bb = Some rb) ->
  wfx X h'.
Proof. intros W NT HB. apply new_tensor_spec in NT. destruct NT as (Et & Hn & Ho & Ha & Ht & Hl & Hs).
  set (rt := mkT c b (S t) (S (S t)) d false false) in *.
  assert (HgetT : forall q, getT h' q = if Nat.eqb t q then Some rt else getT h q).
  { intros q. unfold getT. rewrite Ht. apply get_put. }
  assert (HgetO : forall q, getO h' q = getO h q) by (intros; unfold getO; now rewrite Ho).
  assert (Hold : forall q r, getT h q = Some r -> q < t).
  { intros q r E. rewrite Et. apply (x_lt_t _ _ W). eapply get_keys; exact E. }
  assert (HgetT_old : forall q r, getT h q = Some r -> getT h' q = Some r).
  { intros q r E. rewrite HgetT. destruct (Nat.eqb t q) eqn:Eq; auto. apply Nat.eqb_eq in Eq. apply Hold in E. lia. }
  assert (HL : forall p, lst_of h' p = if Nat.eqb (S t) p then [] else lst_of h p).
  { intros p. unfold lst_of. rewrite Hl, get_put. destruct (Nat.eqb (S t) p); auto. }
  assert (HLold : forall q r, getT h q = Some r -> lst_of h' (t_children r) = lst_of h (t_children r)).
  { intros q r E. rewrite HL. destruct (Nat.eqb (S t) (t_children r)) eqn:Eq; auto. apply Nat.eqb_eq in Eq.
    pose proof (proj1 (x_tens _ _ W q r E)). lia. }
  assert (Hcase : forall q r, getT h' q = Some r -> (q = t /\ r = rt) \/ (q <> t /\ getT h q = Some r)).
  { intros q r E. rewrite HgetT in E. destruct (Nat.eqb t q) eqn:Eq.
    - apply Nat.eqb_eq in Eq. inversion E. auto.
    - apply Nat.eqb_neq in Eq. auto. }
  constructor.
  - rewrite Ht. apply NoDup_keys_put, W.
  - rewrite Ho. apply W. - rewrite Hs. apply NoDup_keys_put, W. - rewrite Hl. apply NoDup_keys_put, W. - rewrite Ha. apply W.
  - rewrite Ht. intros k Hk. apply in_keys_put in Hk. destruct Hk as [->|Hk]; [lia|]. apply (x_lt_t _ _ W) in Hk. lia.
  - rewrite Ho. intros k Hk. apply (x_lt_o _ _ W) in Hk. lia.
  - rewrite Hs. intros k Hk. apply in_keys_put in Hk. destruct Hk as [->|Hk]; [lia|]. apply (x_lt_set _ _ W) in Hk. lia.
  - rewrite Hl. intros k Hk. apply in_keys_put in Hk. destruct Hk as [->|Hk]; [lia|]. apply (x_lt_lst _ _ W) in Hk. lia.
  - rewrite Ha. intros k Hk. apply (x_lt_arr _ _ W) in Hk. lia.
  - intros q r E. destruct (Hcase q r E) as [[-> ->]|[Nq Eq]].
    + split; [simpl; lia|]. split; [simpl; lia|]. split.
      * simpl. intros bb Ebb. destruct (HB bb Ebb) as (rb & Erb). split; [eapply Hold; eauto|]. exists rb. eapply HgetT_old; eauto.
      * simpl. rewrite HL, Nat.eqb_refl. intros ? [].
    + destruct (x_tens _ _ W q r Eq) as (A & B & C & D). split; [lia|]. split; [lia|]. split.
      * intros bb Ebb. destruct (C bb Ebb) as (C1 & rb & C2). split; auto. exists rb. eapply HgetT_old; eauto.
      * intros c0 Hc0. rewrite (HLold q r Eq) in Hc0. apply (child_wf_mono h h' q c0); auto.
        -- intros rc Erc. exists rc. split; [eapply HgetT_old; eauto|apply weaker_refl].
        -- intros o ro Eo. exists ro. now rewrite HgetO.
  - intros o r E. rewrite HgetO in E. destruct (x_oper _ _ W o r E) as (A & B).
    split; intros v Hv; [apply A in Hv|apply B in Hv]; lia.
  - intros q r E. destruct (Hcase q r E) as [[-> ->]|[Nq Eq]].
    + simpl. rewrite HL, Nat.eqb_refl. constructor.
    + rewrite (HLold q r Eq). apply (x_kids_nd _ _ W q r Eq).
  - intros t1 r1 t2 r2 c0 H1 H2 Hc1 Hc2.
    destruct (Hcase t1 r1 H1) as [[-> ->]|[N1 E1]]; [simpl in Hc1; rewrite HL, Nat.eqb_refl in Hc1; destruct Hc1|].
    destruct (Hcase t2 r2 H2) as [[-> ->]|[N2 E2]]; [simpl in Hc2; rewrite HL, Nat.eqb_refl in Hc2; destruct Hc2|].
    rewrite (HLold t1 r1 E1) in Hc1. rewrite (HLold t2 r2 E2) in Hc2. eapply (x_par _ _ W); eauto.
  - intros t1 r1 t2 r2 H1 H2 E.
    destruct (Hcase t1 r1 H1) as [[-> ->]|[N1 E1]]; destruct (Hcase t2 r2 H2) as [[-> ->]|[N2 E2]]; auto.
    + simpl in E. pose proof (proj1 (x_tens _ _ W t2 r2 E2)). lia.
    + simpl in E. pose proof (proj1 (x_tens _ _ W t1 r1 E1)). lia.
    + eapply (x_pdc _ _ W); eauto.
  - intros t1 r1 t2 r2 H1 H2 X1 X2 E.
    destruct (Hcase t1 r1 H1) as [[-> ->]|[N1 E1]]; destruct (Hcase t2 r2 H2) as [[-> ->]|[N2 E2]]; auto.
    + simpl in E. pose proof (proj1 (proj2 (x_tens _ _ W t2 r2 E2))). lia.
    + simpl in E. pose proof (proj1 (proj2 (x_tens _ _ W t1 r1 E1))). lia.
    + eapply (x_pdo _ _ W t1 r1 t2 r2); eauto. Qed.
