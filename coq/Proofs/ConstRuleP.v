From Coq Require Import List Bool.
Import ListNotations.
From MG Require Import Model.ConstRule.

Lemma int_bool_always_constant k arg c : const_only k = true -> init_const k true arg = InitOk c -> c = true.
Proof. destruct k; try discriminate; intros _; destruct arg as [[|]|]; simpl; intros H; inversion H; reflexivity. Qed.

Lemma int_bool_false_raises k : const_only k = true -> init_const k true (Some false) = InitValueError.
Proof. destruct k; try discriminate; reflexivity. Qed.

Lemma float_default_nonconstant track : init_const KFloat track None = InitOk false.
Proof. destruct track; reflexivity. Qed.

Lemma float_arg_wins track b : init_const KFloat track (Some b) = InitOk b.
Proof. destruct track, b; reflexivity. Qed.

Lemma other_rejected_when_tracking arg : init_const KOther true arg = InitTypeError.
Proof. destruct arg as [[|]|]; reflexivity. Qed.

Lemma untracked_accepts_everything k arg : exists c, init_const k false arg = InitOk c.
Proof. destruct k, arg as [[|]|]; simpl; eexists; reflexivity. Qed.

(* float output of an op: constant exactly when all inputs are constant, unless constant= is passed, which wins *)
Lemma op_rule_float ins arg :
  op_const KFloat ins arg = InitOk (match arg with Some b => b | None => forallb (fun c => c) ins end).
Proof.
  unfold op_const, op_const_arg. destruct arg as [b|]; [destruct b; reflexivity|].
  destruct (forallb (fun c => c) ins); reflexivity.
Qed.

(* integer / boolean output: constant, and constant=False raises *)
Lemma op_rule_int k ins arg : const_only k = true ->
  op_const k ins arg = match arg with Some false => InitValueError | _ => InitOk true end.
Proof.
  intros Hk. unfold op_const, op_const_arg. destruct k; try discriminate; destruct arg as [[|]|]; simpl; try reflexivity;
  destruct (forallb (fun c => c) ins); reflexivity.
Qed.
