(* HeapP14: apply_view (a tracked view operation): effect, wfx, existence. *)
From Coq Require Import List Arith Bool PeanoNat Lia.
Import ListNotations.
From MG Require Import Model.Heap.
From MG.Proofs Require Import HeapP1 HeapWfb HeapP2 HeapP3 HeapP8 HeapP10 HeapP11 HeapP12 HeapP13.

Definition view_base (par : id) (tp0 : tens) : id := match t_base (touch true tp0) with Some b => b | None => par end.

Record ApplyView (h : heap) (k : nat) (par : id) (tp0 : tens) (h' : heap) (v : id) : Prop := mkAV {
  av_par0 : getT h par = Some tp0;
  av_v : v = 2 + h_next h;
  av_next : h_next h' = 5 + h_next h;
  av_data : getA h (t_data tp0) <> None;
  av_par : getT h' par = Some (touch true tp0);
  av_vrec : getT h' v = Some (mkT (Some (S (h_next h))) (Some (view_base par tp0)) (S v) (S (S v)) (h_next h) false false);
  av_told : forall q, q <> par -> q <> v -> getT h' q = getT h q;
  av_o : getO h' (S (h_next h)) = Some (mkO k [par] []);
  av_o_old : forall q, q <> S (h_next h) -> getO h' q = getO h q;
  av_lpar : lst_of h' (t_children tp0) = lst_of h (t_children tp0) ++ [v];
  av_lnew : lst_of h' (S v) = [];
  av_lold : forall p, p <> t_children tp0 -> p <> S v -> lst_of h' p = lst_of h p;
  av_anew : exists ra ra', getA h (t_data tp0) = Some ra /\ getA h' (h_next h) = Some ra' /\ a_buf ra' = a_buf ra /\
                           a_base ra' = Some (match a_base ra with Some b => b | None => t_data tp0 end);
  av_aold : forall q, q <> h_next h -> getA h' q = getA h q
}.

Lemma touch_true_eq tp0 :
  touch true tp0 = with_base tp0 (if isSome (t_base tp0) && negb (isSome (t_creator tp0)) then None else t_base tp0).
Proof. reflexivity. Qed.

Lemma apply_view_spec X h k par h' v : wfx X h -> apply_view h k par = Some (h', v) ->
  exists tp0, ApplyView h k par tp0 h' v.
Proof. unfold apply_view. intros W H. apply bind_Some in H. destruct H as (tp0 & Hp & H). exists tp0.
  assert (HC : t_children tp0 < h_next h) by apply (x_tens _ _ W par tp0 Hp).
  assert (Hparlt : par < h_next h) by (apply (x_lt_t _ _ W); eapply get_keys; exact Hp).
  cbv zeta in H.
  apply bind_Some in H. destruct H as ([h1 a] & VA & H).
  apply bind_Some in H. destruct H as (h2 & TI & H).
  unfold fresh in H. apply bind_Some in H. destruct H as (h5 & RG & H).
  match type of H with context [new_tensor ?hh ?c ?b ?d] => destruct (new_tensor hh c b d) as [h6 v6] eqn:NT end.
  apply bind_Some in H. destruct H as (tp & Etp & H). inversion H; subst h' v6. clear H.
  pose proof VA as VA'. unfold view_array in VA'. apply bind_Some in VA'. destruct VA' as (ra & Era & VA').
  assert (Hnext1 : h_next h1 = S (h_next h) /\ getA h1 (h_next h) = Some (mkA (Some (match a_base ra with Some b => b | None => t_data tp0 end)) (a_buf ra))).
  { clear - VA'. unfold new_array, fresh in VA'. simpl in VA'. inversion VA'. split; [reflexivity|].
    unfold getA; simpl. apply get_put_eq. }
  destruct Hnext1 as (Hnext1 & Hanew).
  apply view_array_spec in VA. destruct VA as (V1 & V2 & V3 & V4 & V5 & V6 & V7 & V8). simpl in V1, V2, V3, V4.
  apply touch_inputs_spec in TI. destruct TI as (A1 & A2 & A3 & A4 & A5 & A6 & A7 & A8).
  apply (register_spec []) in RG. destruct RG as (B1 & B2 & B3 & B4 & B5 & B6 & _). simpl in B1, B2, B3, B4, B5.
  apply new_tensor_spec in NT. destruct NT as (Et & Hn & Ho & Ha & Ht & Hl & Hs).
  rewrite B5 in Et, Hn. rewrite A5, Hnext1 in Et, Hn. simpl in Et, Hn.
  assert (Hv : v <> par) by lia.
  assert (HT2 : forall q, getT h2 q = if Nat.eqb par q then Some (touch true tp0) else getT h q).
  { intros q. rewrite A8.
    assert (mem q [par] = Nat.eqb par q) as -> by (unfold mem; cbn [existsb]; rewrite orb_false_r; apply Nat.eqb_sym).
    assert (getT h1 q = if Nat.eqb par q then Some (touch true tp0) else getT h q) as ->.
    { unfold getT. rewrite V1. apply get_put. }
    destruct (Nat.eqb par q); auto. unfold option_map. now rewrite touch_idem. }
  assert (HT6 : forall q, getT (setL h6 (t_children tp) (lst_of h6 (t_children tp) ++ [v])) q =
                          if Nat.eqb v q then Some (mkT (Some (S (h_next h))) (Some (view_base par tp0)) (S v) (S (S v)) a false false)
                          else getT h2 q).
  { intros q. unfold getT at 1. simpl. rewrite Ht, get_put, B1. simpl. rewrite A5, Hnext1.
    destruct (Nat.eqb v q); auto. }
  assert (Etp' : tp = touch true tp0).
  { unfold getT in Etp. rewrite Ht, get_put_ne, B1 in Etp by auto. simpl in Etp. fold (getT h2 par) in Etp.
    rewrite HT2, Nat.eqb_refl in Etp. congruence. }
  assert (Eptr : t_children tp = t_children tp0) by (subst tp; reflexivity).
  assert (HL5 : h_lst h5 = h_lst h) by (rewrite B3; simpl; rewrite A3, V4; reflexivity).
  assert (HL6 : forall p, lst_of h6 p = if Nat.eqb (S v) p then [] else lst_of h p).
  { intros p. unfold lst_of. rewrite Hl, get_put, HL5. destruct (Nat.eqb (S v) p); auto. }
  rewrite Eptr in *.
  assert (HLf : forall p, lst_of (setL h6 (t_children tp0) (lst_of h6 (t_children tp0) ++ [v])) p =
                          if Nat.eqb (t_children tp0) p then lst_of h (t_children tp0) ++ [v]
                          else if Nat.eqb (S v) p then [] else lst_of h p).
  { intros p. unfold lst_of at 1. simpl. rewrite get_put. destruct (Nat.eqb (t_children tp0) p) eqn:E.
    - rewrite HL6. destruct (Nat.eqb (S v) (t_children tp0)) eqn:E2; auto. apply Nat.eqb_eq in E2. lia.
    - fold (lst_of h6 p). apply HL6. }
  subst a.
  constructor.
  - exact Hp.
  - exact Et.
  - simpl. rewrite Hn. reflexivity.
  - intros E. unfold getA in Era, E. simpl in Era. congruence.
  - rewrite HT6, HT2, Nat.eqb_refl. destruct (Nat.eqb v par) eqn:E; auto. apply Nat.eqb_eq in E; congruence.
  - rewrite HT6, Nat.eqb_refl. reflexivity.
  - intros q Hq1 Hq2. rewrite HT6, HT2. destruct (Nat.eqb v q) eqn:E; [apply Nat.eqb_eq in E; congruence|].
    destruct (Nat.eqb par q) eqn:E2; [apply Nat.eqb_eq in E2; congruence|]. reflexivity.
  - unfold getO. simpl. rewrite Ho, B2. simpl. rewrite A5, Hnext1. apply get_put_eq.
  - intros q Hq. unfold getO. simpl. rewrite Ho, B2. simpl. rewrite A5, Hnext1, get_put_ne by auto. now rewrite A1, V2.
  - rewrite HLf, Nat.eqb_refl. reflexivity.
  - rewrite HLf. destruct (Nat.eqb (t_children tp0) (S v)) eqn:E; [apply Nat.eqb_eq in E; lia|]. now rewrite Nat.eqb_refl.
  - intros p Hp1 Hp2. rewrite HLf. destruct (Nat.eqb (t_children tp0) p) eqn:E; [apply Nat.eqb_eq in E; congruence|].
    destruct (Nat.eqb (S v) p) eqn:E2; [apply Nat.eqb_eq in E2; congruence|]. reflexivity.
  - exists ra, (mkA (Some (match a_base ra with Some b => b | None => t_data tp0 end)) (a_buf ra)).
    split; [exact Era|]. split; [|simpl; auto].
    unfold getA. simpl. rewrite Ha, B4. simpl. rewrite A4. exact Hanew.
  - intros q Hq. unfold getA. simpl. rewrite Ha, B4. simpl. rewrite A4. apply V8. auto. Qed.

Lemma wfx_apply_view X h k par h' v : wfx X h -> apply_view h k par = Some (h', v) -> wfx X h'.
Proof. unfold apply_view. intros W H. apply bind_Some in H. destruct H as (tp0 & Hp & H).
  assert (Hparlt : par < h_next h) by (apply (x_lt_t _ _ W); eapply get_keys; exact Hp).
  cbv zeta in H.
  apply bind_Some in H. destruct H as ([h1 a] & VA & H).
  apply bind_Some in H. destruct H as (h2 & TI & H).
  unfold fresh in H. apply bind_Some in H. destruct H as (h5 & RG & H).
  match type of H with context [new_tensor ?hh ?c ?b ?d] => destruct (new_tensor hh c b d) as [h6 v6] eqn:NT end.
  apply bind_Some in H. destruct H as (tp & Etp & H). inversion H; subst h' v6. clear H.
  assert (W0 : wfx X (setT h par (touch true tp0))) by (eapply wfx_setT_weaker; eauto; apply touch_weaker).
  pose proof (wfx_view_array X _ _ _ _ W0 VA) as W1.
  pose proof (wfx_touch_inputs X _ _ _ _ W1 TI) as W2.
  apply view_array_spec in VA. destruct VA as (V1 & V2 & V3 & V4 & V5 & V6 & V7 & V8). simpl in V1, V2, V3, V4, V6.
  apply touch_inputs_spec in TI. destruct TI as (A1 & A2 & A3 & A4 & A5 & A6 & A7 & A8).
  assert (W4 : wfx X (setO (bump h2 (S (h_next h2))) (h_next h2) (mkO k [par] []))).
  { apply wfx_setO_new.
    - apply wfx_bump; auto.
    - simpl; lia.
    - unfold getO; simpl. apply get_None_keys. intros Hin. apply (x_lt_o _ _ W2) in Hin. lia.
    - split; simpl; [|tauto]. intros x [<-|[]]. lia. }
  pose proof (proj2 (proj2 (proj2 (proj2 (proj2 (proj2 (register_spec X _ _ _ _ RG)))))) W4) as W5.
  apply (register_spec X) in RG. destruct RG as (B1 & B2 & B3 & B4 & B5 & B6 & _). simpl in B1, B2, B3, B4, B5.
  assert (HT5 : forall q, getT h5 q = if Nat.eqb par q then Some (touch true tp0) else getT h q).
  { intros q. unfold getT at 1. rewrite B1. fold (getT h2 q). rewrite A8.
    assert (mem q [par] = Nat.eqb par q) as -> by (unfold mem; cbn [existsb]; rewrite orb_false_r; apply Nat.eqb_sym).
    assert (getT h1 q = if Nat.eqb par q then Some (touch true tp0) else getT h q) as ->.
    { unfold getT. rewrite V1. apply get_put. }
    destruct (Nat.eqb par q); auto. unfold option_map. now rewrite touch_idem. }
  assert (W6 : wfx X h6).
  { eapply wfx_new_tensor; [exact W5|exact NT|]. intros bb Ebb. rewrite HT5.
    destruct (Nat.eqb par bb) eqn:E; [eauto|].
    remember (if isSome (t_base tp0) && negb (isSome (t_creator tp0)) then None else t_base tp0) as bp eqn:Ebp.
    destruct bp as [b0|].
    - inversion Ebb; subst bb.
      assert (t_base tp0 = Some b0).
      { destruct (isSome (t_base tp0) && negb (isSome (t_creator tp0))); [discriminate|auto]. }
      destruct (x_tens _ _ W par tp0 Hp) as (_ & _ & C & _). destruct (C b0 H) as (_ & rb & Erb). eauto.
    - inversion Ebb; subst bb. rewrite Nat.eqb_refl in E. discriminate. }
  apply new_tensor_spec in NT. destruct NT as (Et & Hn & Ho & Ha & Ht & Hl & Hs).
  assert (Hv5 : forall q r, getT h5 q = Some r -> q < v).
  { intros q r E. rewrite Et. apply (x_lt_t _ _ W5). eapply get_keys; exact E. }
  assert (Hpar5 : getT h5 par = Some tp).
  { unfold getT in Etp. rewrite Ht in Etp. rewrite get_put_ne in Etp; auto.
    intros ->. assert (getT h5 par <> None) by (rewrite HT5, Nat.eqb_refl; discriminate).
    destruct (getT h5 par) eqn:E; [|congruence]. apply Hv5 in E. lia. }
  assert (HL6 : forall q r, getT h5 q = Some r -> lst_of h6 (t_children r) = lst_of h5 (t_children r)).
  { intros q r E. unfold lst_of. rewrite Hl, get_put_ne; auto.
    pose proof (proj1 (x_tens _ _ W5 q r E)). lia. }
  apply (wfx_setL X h6 par tp); auto.
  - apply NoDup_snoc; [apply (x_kids_nd _ _ W6 par tp Etp)|].
    rewrite (HL6 par tp Hpar5). intros Hin.
    destruct (proj2 (proj2 (proj2 (x_tens _ _ W5 par tp Hpar5))) v Hin) as (_ & rc & Erc & _). apply Hv5 in Erc. lia.
  - intros c Hc. apply in_app_or in Hc. destruct Hc as [Hc|[<-|[]]].
    + apply (x_tens _ _ W6 par tp Etp). exact Hc.
    + split; [eapply Hv5; exact Hpar5|].
      eexists. split; [unfold getT; rewrite Ht; apply get_put_eq|]. simpl. intros _. split; auto.
      eexists. eexists. split; [reflexivity|]. unfold getO. rewrite Ho, B2. apply get_put_eq.
  - intros c t r Hc Ht6 Hin. apply in_app_or in Hc. destruct Hc as [Hc|[<-|[]]].
    + eapply (x_par _ _ W6); eauto.
    + exfalso. unfold getT in Ht6. rewrite Ht, get_put in Ht6. destruct (Nat.eqb v t) eqn:E.
      * inversion Ht6; subst r. simpl in Hin. unfold lst_of in Hin. rewrite Hl, get_put_eq in Hin. destruct Hin.
      * fold (getT h5 t) in Ht6. rewrite (HL6 t r Ht6) in Hin.
        destruct (proj2 (proj2 (proj2 (x_tens _ _ W5 t r Ht6))) v Hin) as (_ & rc & Erc & _). apply Hv5 in Erc. lia. Qed.

Lemma apply_view_ex h k par tp0 : getT h par = Some tp0 -> getA h (t_data tp0) <> None ->
  exists h' v, apply_view h k par = Some (h', v).
Proof. intros Hp Ha. unfold apply_view. rewrite Hp. cbn [bind]. cbv zeta.
  match goal with |- context [view_array ?hh ?aa] => destruct (view_array_ex hh aa Ha) as (h1 & a & VA) end.
  rewrite VA. cbn [bind].
  pose proof (view_array_spec _ _ _ _ VA) as (V1 & V2 & V3 & V4 & V5 & V6 & V7 & V8). simpl in V1.
  assert (Hp1 : getT h1 par <> None) by (unfold getT; rewrite V1; rewrite get_put_eq; discriminate).
  destruct (touch_inputs_ex [par] true h1) as (h2 & TI). { intros x [<-|[]]; auto. }
  rewrite TI. cbn [bind]. unfold fresh.
  pose proof (touch_inputs_spec _ _ _ _ TI) as (A1 & A2 & A3 & A4 & A5 & A6 & A7 & A8).
  assert (Hp2 : getT h2 par <> None).
  { rewrite A8. unfold mem; cbn [existsb]. rewrite Nat.eqb_refl. simpl. destruct (getT h1 par); simpl; congruence. }
  match goal with |- context [register ?hh ?o [par]] => destruct (register_ex o [par] hh) as (h5 & RG) end.
  { intros x [<-|[]]. exact Hp2. }
  rewrite RG. cbn [bind].
  pose proof (register_spec [] _ _ _ _ RG) as (B1 & B2 & B3 & B4 & B5 & B6 & _). simpl in B1, B5.
  match goal with |- context [new_tensor ?hh ?c ?b ?d] => destruct (new_tensor hh c b d) as [h6 v6] eqn:NT end.
  apply new_tensor_spec in NT. destruct NT as (Et & Hn & Ho & Ha6 & Ht & Hl & Hs).
  assert (getT h6 par <> None).
  { unfold getT. rewrite Ht, get_put. destruct (Nat.eqb v6 par); [discriminate|]. rewrite B1. exact Hp2. }
  destruct (getT h6 par) as [tp|]; [|congruence]. cbn [bind]. eauto. Qed.
