(* HeapEx: non-vacuity examples and counterexamples, all by computation. *)
From Coq Require Import List Arith Bool PeanoNat.
Import ListNotations.
From MG Require Import Model.Heap.
From MG.Proofs Require Import HeapP1 HeapWfb HeapP2.

Definition run0 (ss : list stmt) : heap := match run empty_heap ss with Some h => h | None => empty_heap end.

(* leaf 2; view 7 = view(2); view 12 = view(7) (a view of a view); consumers 18 = f(7), 24 = f(12, 2) *)
Definition ex_h : heap := run0 [SLeaf; SView 5 2; SView 6 7; SOp 9 [7]; SOp 9 [12; 2]].

Example ex_h_tensors : keys (h_t ex_h) = [2; 7; 12; 18; 24]. Proof. vm_compute. reflexivity. Qed.
Example ex_h_wfb : wfb ex_h = true. Proof. vm_compute. reflexivity. Qed.
Example ex_h_wf : wf ex_h. Proof. apply wfb_wf. vm_compute. reflexivity. Qed.

(* masked in-place update through the inner view 12, kernel fails: no trace (conclusion of T3, checked by computation) *)
Example ex_fail : exists h', inplace ex_h 12 7 [2] true true = Some (Raised h') /\ same_tables ex_h h'.
Proof. eexists. split; [vm_compute; reflexivity|]. vm_compute. repeat split; reflexivity. Qed.

(* T2 as literally stated ("for every operation o of h") is false for an operation that a tensor's set no longer lists:
   x = f(t); y = g(t); y.clear_graph() empties t._ops, but the creator of x (operation 7) still mentions t = 2.
   DuplicatingGraph(t) then leaves operation 7 reading t itself, not the placeholder. *)
Definition cx_h : heap := run0 [SLeaf; SOp 3 [2]; SOp 4 [2]; SClear 14].
Example cx_wfb : wfb cx_h = true. Proof. vm_compute. reflexivity. Qed.
Example cx_T2 : exists h1 g r, dup cx_h 2 = Some (h1, g) /\ getO cx_h 7 = Some r /\ o_vars r = [2] /\
  (exists r1, getO h1 7 = Some r1 /\ o_vars r1 = [2]) /\ map (ph_if_exists g) (o_vars r) = [h_next cx_h].
Proof. do 3 eexists. split; [vm_compute; reflexivity|]. split; [vm_compute; reflexivity|].
  split; [reflexivity|]. split; [eexists; split; vm_compute; reflexivity|]. vm_compute. reflexivity. Qed.

(* the same update with a succeeding kernel (hypotheses of T4 / T5 / T6: ex_h_wf, and the operand 2 is allocated).
   Graph: [(2,27,None); (7,28,Some 2); (12,29,Some 7)].  Checked by computation:
   - the result is well formed;
   - old consumers read the placeholders: operation 17 = f(28), 23 = f(29, 27), the old view operations 6 = view(27), 11 = view(28);
   - the placeholders 27, 28, 29 keep the old creators (None, 6, 11) and the old arrays (0, 5, 10);
   - the root 2 is created by UnView 44 = [27; 41] (keep [28; 29]), 41 by ApplyMask 40 = [37; 29], 37 by the in-place operation 36 = op7 [27];
     its array 33 is fresh with a fresh buffer 34;
   - 7 and 12 have fresh creators of their old classes (5, 6) applied to their parents (2, 7), base 2, arrays that are views of 33;
   - the children lists of 2 and 7 are [7] and [12] as before; 18 and 24 are untouched. *)
Definition ex_s : heap := match inplace ex_h 12 7 [2] true false with Some (Done h') => h' | _ => empty_heap end.
Example ex_succ_done : exists h', inplace ex_h 12 7 [2] true false = Some (Done h') /\ h' = ex_s.
Proof. eexists. split; vm_compute; reflexivity. Qed.
Example ex_succ_wf : wfb ex_s = true. Proof. vm_compute. reflexivity. Qed.
Example ex_succ_ops :
  map (fun o => option_map o_vars (getO ex_s o)) [6; 11; 17; 23; 36; 40; 44; 49; 54] =
  [Some [27]; Some [28]; Some [28]; Some [29; 27]; Some [27]; Some [37; 29]; Some [27; 41]; Some [2]; Some [7]].
Proof. vm_compute. reflexivity. Qed.
Example ex_succ_kinds : map (fun o => option_map o_kind (getO ex_s o)) [36; 40; 44; 49; 54] = [Some 7; Some K_APPLYMASK; Some K_UNVIEW; Some 5; Some 6].
Proof. vm_compute. reflexivity. Qed.
Example ex_succ_tensors :
  map (fun t => option_map (fun r => (t_creator r, t_base r, t_data r, lst_of ex_s (t_children r))) (getT ex_s t)) [2; 7; 12; 27; 28; 29] =
  [Some (Some 44, None, 33, [7]); Some (Some 49, Some 2, 48, [12]); Some (Some 54, Some 2, 53, []);
   Some (None, None, 0, [28]); Some (Some 6, Some 27, 5, [29]); Some (Some 11, Some 27, 10, [])].
Proof. vm_compute. reflexivity. Qed.
Example ex_succ_arrays : map (getA ex_s) [33; 48; 53] = [Some (mkA None 34); Some (mkA (Some 33) 34); Some (mkA (Some 33) 34)] /\ getA ex_h 33 = None.
Proof. vm_compute. split; reflexivity. Qed.
Example ex_succ_untouched : getT ex_s 18 = getT ex_h 18 /\ getT ex_s 24 = getT ex_h 24.
Proof. vm_compute. split; reflexivity. Qed.
