From Coq Require Import List Arith Bool Lia.
Import ListNotations.
From MG Require Import Model.Seed.

Lemma shape_eqb_eq a b : shape_eqb a b = true <-> a = b.
Proof.
  revert b; induction a as [|x a IH]; intros [|y b]; simpl; split; intros H; try discriminate; try reflexivity.
  - apply andb_prop in H. destruct H as [H1 H2]. apply Nat.eqb_eq in H1. apply IH in H2. subst. reflexivity.
  - inversion H; subst. rewrite Nat.eqb_refl. simpl. apply IH. reflexivity.
Qed.

Lemma shape_eqb_refl a : shape_eqb a a = true.
Proof. apply shape_eqb_eq. reflexivity. Qed.

(* on reversed shapes: the broadcast of L with g is L itself  iff  g broadcasts into L *)
Lemma bshape_rev_is_L : forall g L, np_bshape_rev L g = Some L <-> into_rev g L = true.
Proof.
  induction g as [|a g IH]; intros L.
  - destruct L; simpl; split; auto.
  - destruct L as [|b L]; simpl.
    + split; [intros H; inversion H | discriminate].
    + specialize (IH L).
      destruct (np_bshape_rev L g) as [r|] eqn:E.
      * destruct (Nat.eqb_spec b a) as [->|Hne].
        -- rewrite Nat.eqb_refl. simpl. split.
           ++ intros H. inversion H; subst. apply IH. reflexivity.
           ++ intros H. apply IH in H. inversion H; subst. reflexivity.
        -- destruct (Nat.eqb_spec a b) as [->|_]; [congruence|]. simpl.
           destruct (Nat.eqb_spec b 1) as [->|Hb1].
           ++ destruct (Nat.eqb_spec a 1) as [->|Ha1]; [congruence|]. simpl. split; [|discriminate].
              intros H. inversion H; subst. congruence.
           ++ destruct (Nat.eqb_spec a 1) as [->|Ha1]; simpl.
              ** split.
                 --- intros H. inversion H; subst. apply IH. reflexivity.
                 --- intros H. apply IH in H. inversion H; subst. reflexivity.
              ** split; discriminate.
      * split; [discriminate|]. intros H. apply andb_prop in H. destruct H as [_ H]. apply IH in H. discriminate.
Qed.

Lemma rev_inj {X} (a b : list X) : rev a = rev b -> a = b.
Proof. intros H. rewrite <- (rev_involutive a), <- (rev_involutive b), H. reflexivity. Qed.

(* C14: a seed is accepted exactly when it broadcasts INTO L's shape (never when L would have to grow) *)
Theorem seed_accept_spec sL sg : seed_accept sL sg = true <-> broadcasts_into sg sL = true.
Proof.
  unfold seed_accept, broadcasts_into, np_bshape. split.
  - intros H. apply orb_prop in H. destruct H as [H|H].
    + apply shape_eqb_eq in H. subst. apply bshape_rev_is_L.
      assert (G : forall l, np_bshape_rev l l = Some l).
      { induction l as [|x l IHl]; simpl; [reflexivity|]. rewrite IHl, Nat.eqb_refl. reflexivity. }
      apply G.
    + destruct (np_bshape_rev (rev sL) (rev sg)) as [r|] eqn:E; [|discriminate].
      apply shape_eqb_eq in H. apply bshape_rev_is_L. rewrite E. f_equal.
      rewrite <- H. rewrite rev_involutive. reflexivity.
  - intros H. apply bshape_rev_is_L in H. rewrite H. rewrite rev_involutive, shape_eqb_refl. apply orb_true_r.
Qed.

(* C14 (generic path of Operation.backward): if the variable's shape broadcasts into the gradient's shape -- which is
   what happens when the variable was broadcast by the operation -- reduce_broadcast returns exactly the variable's shape,
   so the assertion `backed_grad.shape == var.shape` holds and the stored gradient has the tensor's shape. *)
Lemma into_rev_length : forall v g, into_rev v g = true -> length v <= length g.
Proof.
  induction v as [|a v IH]; intros [|b g] H; simpl in *; try lia; try discriminate.
  apply andb_prop in H. destruct H as [_ H]. apply IH in H. lia.
Qed.

Lemma combine_fix : forall g v, length g = length v ->
  Forall2 (fun a b => b = a \/ b = 1) g v ->
  map (fun p => if Nat.eqb (fst p) (snd p) then fst p else 1) (combine g v) = v.
Proof.
  induction g as [|a g IH]; intros [|b v] HL HF; simpl in *; try discriminate; [reflexivity|].
  inversion HF; subst. f_equal.
  - destruct (Nat.eqb_spec a b) as [->|Hne]; [reflexivity|]. destruct H2; congruence.
  - apply IH; [lia|assumption].
Qed.

Lemma into_rev_forall2 : forall v g, into_rev v g = true ->
  Forall2 (fun a b => b = a \/ b = 1) (firstn (length v) g) v.
Proof.
  induction v as [|b v IH]; intros [|a g] H; simpl in *; try discriminate; constructor.
  - apply andb_prop in H. destruct H as [H _]. apply orb_prop in H.
    destruct H as [H|H]; apply Nat.eqb_eq in H; subst; auto.
  - apply IH. apply andb_prop in H. tauto.
Qed.

Lemma Forall2_rev {X Y} (R : X -> Y -> Prop) a b : Forall2 R a b -> Forall2 R (rev a) (rev b).
Proof.
  induction 1; simpl; [constructor|]. apply Forall2_app; [assumption|]. constructor; [assumption|constructor].
Qed.

Theorem reduce_shape_restores g v : broadcasts_into v g = true -> reduce_shape g v = Some v.
Proof.
  unfold broadcasts_into, reduce_shape. intros H.
  destruct (shape_eqb g v) eqn:E; [apply shape_eqb_eq in E; subst; reflexivity|].
  pose proof (into_rev_length _ _ H) as HL. rewrite !rev_length in HL.
  destruct (Nat.ltb_spec (length g) (length v)) as [Hlt|_]; [lia|].
  f_equal. apply combine_fix.
  - rewrite skipn_length. lia.
  - pose proof (into_rev_forall2 _ _ H) as HF. rewrite rev_length in HF.
    apply Forall2_rev in HF. rewrite rev_involutive in HF.
    assert (Es : rev (firstn (length v) (rev g)) = skipn (length g - length v) g).
    { rewrite firstn_rev, rev_involutive. reflexivity. }
    rewrite Es in HF. exact HF.
Qed.

(* non-vacuity *)
Example seed_examples :
  seed_accept [2; 3] [3] = true /\ seed_accept [2; 3] [2; 1] = true /\ seed_accept [2; 3] [] = true /\
  seed_accept [2; 1] [2; 3] = false /\ seed_accept [3] [2; 3] = false /\ seed_accept [2; 3] [2] = false /\
  reduce_shape [4; 2; 3] [2; 1] = Some [2; 1] /\ reduce_shape [3] [2; 3] = None.
Proof. vm_compute. repeat split; reflexivity. Qed.
