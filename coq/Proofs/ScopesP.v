From Coq Require Import List Arith Bool Lia.
Import ListNotations.
From MG Require Import Model.Scopes.

Lemma pop_dict_set d v l :
  (forall k w, In (k, w) l -> k < d) -> pop d (dict_set d v l) = Some (v, l).
Proof.
  induction l as [|[k' v'] t IH]; intros H; simpl.
  - now rewrite Nat.eqb_refl.
  - assert (Hk : k' < d) by (apply (H k' v'); now left).
    destruct (Nat.eqb_spec d k') as [E|NE]; [lia|].
    simpl. destruct (Nat.eqb_spec d k') as [E|_]; [lia|].
    rewrite IH; [reflexivity|]. intros k w Hin. apply (H k w). now right.
Qed.

Lemma in_dict_set k v d w l : In (k, v) (dict_set d w l) -> (k = d /\ v = w) \/ In (k, v) l.
Proof.
  induction l as [|[k' v'] t IH]; simpl.
  - intros [H|[]]. inversion H; subst. now left.
  - destruct (Nat.eqb_spec d k') as [E|NE]; simpl.
    + intros [H|H]; [inversion H; subst; now left | right; now right].
    + intros [H|H]; [right; now left|]. destruct (IH H) as [?|?]; [now left|right; now right].
Qed.

Lemma wf_enter m s : wf s -> wf (enter m s).
Proof.
  intros (Ha & Hb & Hc). unfold wf, enter, wf_m in *.
  destruct m; simpl; repeat split; auto; intros k v H;
    apply in_dict_set in H; destruct H as [[-> _]|H]; try lia;
    try (specialize (Ha _ _ H)); try (specialize (Hb _ _ H)); try (specialize (Hc _ _ H)); lia.
Qed.

Lemma mstate_eta x : {| depth := depth x; saved := saved x |} = x.
Proof. now destruct x. Qed.

(* exit undoes enter when the manager's own bookkeeping is as enter left it (whatever the flags are) *)
Lemma exit_after_enter m s s1 :
  wf s -> get_m s1 m = get_m (enter m s) m ->
  exists s2, exit m s1 = Some s2 /\ get_flag s2 m = get_flag s m /\ get_m s2 m = get_m s m /\
    (forall m', m' <> m -> get_m s2 m' = get_m s1 m') /\
    (forall m', get_flag s1 m' = get_flag s1 m -> True) /\
    (match m with NoAutodiff => guard s2 = guard s1 | _ => track s2 = track s1 end).
Proof.
  intros (Ha & Hb & Hc) Hm. unfold exit. rewrite Hm.
  destruct m; simpl in *.
  - rewrite pop_dict_set by exact Ha. eexists; split; [reflexivity|]. simpl.
    rewrite mstate_eta. repeat split; auto. intros m' Hne; destruct m'; simpl; congruence.
  - rewrite pop_dict_set by exact Hb. eexists; split; [reflexivity|]. simpl.
    rewrite mstate_eta. repeat split; auto. intros m' Hne; destruct m'; simpl; congruence.
  - rewrite pop_dict_set by exact Hc. eexists; split; [reflexivity|]. simpl.
    rewrite mstate_eta. repeat split; auto. intros m' Hne; destruct m'; simpl; congruence.
Qed.

(* Main invariant, by induction on the program (any nesting, any exceptions):
   running p never fails in __exit__, leaves each manager's bookkeeping as it found it, never
   changes TRACK_GRAPH, and changes MEM_GUARD only through a Turn* statement. *)
Lemma exec_mgrs : forall p s, wf s -> exists s' r t, exec p s = Some (s', r, t) /\
   m_na s' = m_na s /\ m_off s' = m_off s /\ m_on s' = m_on s /\
   (no_turn p = true -> guard s' = guard s) /\ track s' = track s.
Proof.
  induction p as [|p IHp q IHq|m p IHp| |p IHp| | |]; intros s Hwf; simpl.
  - exists s, false, []. repeat split; auto.
  - destruct (IHp s Hwf) as (s1 & r1 & t1 & E1 & A1 & B1 & C1 & F1 & T1). rewrite E1.
    destruct r1.
    + exists s1, true, t1. split; [reflexivity|]. split; [exact A1|]. split; [exact B1|]. split; [exact C1|].
      split; [|exact T1]. intros Hn; apply andb_prop in Hn; destruct Hn as [Hn _]; apply F1; exact Hn.
    + assert (Hwf1 : wf s1) by (unfold wf in *; rewrite A1, B1, C1; exact Hwf).
      destruct (IHq s1 Hwf1) as (s2 & r2 & t2 & E2 & A2 & B2 & C2 & F2 & T2). rewrite E2.
      exists s2, r2, (t1 ++ t2). split; [reflexivity|]. split; [congruence|]. split; [congruence|].
      split; [congruence|]. split; [|congruence].
      intros Hn; apply andb_prop in Hn; destruct Hn as [Hp Hq]. rewrite (F2 Hq). apply F1; exact Hp.
  - (* With *)
    pose proof (wf_enter m s Hwf) as Hwfe.
    destruct (IHp (enter m s) Hwfe) as (s1 & r1 & t1 & E1 & A1 & B1 & C1 & F1 & T1). rewrite E1.
    assert (Hm : get_m s1 m = get_m (enter m s) m) by (destruct m; simpl; assumption).
    destruct (exit_after_enter m s s1 Hwf Hm) as (s2 & E2 & Hf & Hg & Hother & _ & Hx). rewrite E2.
    eexists s2, r1, _. split; [reflexivity|].
    destruct m.
    + pose proof (Hother GuardOff ltac:(discriminate)) as H1.
      pose proof (Hother GuardOn ltac:(discriminate)) as H2. simpl in *.
      split; [exact Hg|]. split; [congruence|]. split; [congruence|].
      split; [intros Hn; rewrite Hx; apply F1; exact Hn | exact Hf].
    + pose proof (Hother NoAutodiff ltac:(discriminate)) as H1.
      pose proof (Hother GuardOn ltac:(discriminate)) as H2. simpl in *.
      split; [congruence|]. split; [exact Hg|]. split; [congruence|].
      split; [intros _; exact Hf | rewrite Hx; exact T1].
    + pose proof (Hother NoAutodiff ltac:(discriminate)) as H1.
      pose proof (Hother GuardOff ltac:(discriminate)) as H2. simpl in *.
      split; [congruence|]. split; [congruence|]. split; [exact Hg|].
      split; [intros _; exact Hf | rewrite Hx; exact T1].
  - exists s, true, []. repeat split; auto.
  - destruct (IHp s Hwf) as (s1 & r1 & t1 & E1 & A1 & B1 & C1 & F1 & T1). rewrite E1.
    exists s1, false, t1. repeat split; auto.
  - eexists. exists false, []. split; [reflexivity|]. simpl. repeat split; auto; discriminate.
  - eexists. exists false, []. split; [reflexivity|]. simpl. repeat split; auto; discriminate.
  - exists s, false, [observe s]. repeat split; auto.
Qed.

(* C15 (scoping): a with-block or decorated call with ANY body, raising or not, never fails in
   __exit__, restores the flag its manager governs to the value in force on entry, leaves every
   manager's depth and saved table as on entry, never changes TRACK_GRAPH unless it is its own flag
   (and then restores it), and restores MEM_GUARD too -- even across Turn* calls in the body when the
   block's manager governs MEM_GUARD. *)
Theorem with_restores : forall m p s, wf s -> exists s' r t, exec (With m p) s = Some (s', r, t) /\
   get_flag s' m = get_flag s m /\
   m_na s' = m_na s /\ m_off s' = m_off s /\ m_on s' = m_on s /\
   track s' = track s /\
   (no_turn p = true \/ m <> NoAutodiff -> guard s' = guard s).
Proof.
  intros m p s Hwf.
  destruct (exec_mgrs (With m p) s Hwf) as (s' & r & t & E & A & B & C & F & T).
  exists s', r, t. split; [exact E|].
  assert (Hf : get_flag s' m = get_flag s m).
  { simpl in E. pose proof (wf_enter m s Hwf) as Hwfe.
    destruct (exec_mgrs p (enter m s) Hwfe) as (s1 & r1 & t1 & E1 & A1 & B1 & C1 & F1 & T1).
    rewrite E1 in E.
    assert (Hm : get_m s1 m = get_m (enter m s) m) by (destruct m; simpl; assumption).
    destruct (exit_after_enter m s s1 Hwf Hm) as (s2 & E2 & Hf & _). rewrite E2 in E.
    inversion E; subst. exact Hf. }
  split; [exact Hf|]. split; [exact A|]. split; [exact B|]. split; [exact C|]. split; [exact T|].
  intros [Hn|Hne]; [apply F; exact Hn|]. destruct m; [congruence| exact Hf | exact Hf].
Qed.

(* the exception raised by the body propagates unchanged (the with-block swallows nothing) *)
Theorem with_propagates : forall m p s s' r t, exec (With m p) s = Some (s', r, t) ->
  exists s1 t1, exec p (enter m s) = Some (s1, r, t1) /\ t = observe (enter m s) :: t1 ++ [observe s'].
Proof.
  intros m p s s' r t E. simpl in E.
  destruct (exec p (enter m s)) as [[[s1 r1] t1]|]; [|discriminate].
  destruct (exit m s1); [|discriminate]. inversion E; subst. now exists s1, t1.
Qed.

(* the initial state is well-formed, and well-formedness is preserved by every program: so the
   theorems above apply at every reachable state *)
Lemma wf_init : wf init_st.
Proof. unfold wf, wf_m, init_st; simpl; repeat split; intros ? ? []. Qed.

Theorem wf_preserved : forall p s s' r t, wf s -> exec p s = Some (s', r, t) -> wf s'.
Proof.
  intros p s s' r t Hwf E. destruct (exec_mgrs p s Hwf) as (s1 & r1 & t1 & E1 & A & B & C & _).
  rewrite E in E1. inversion E1; subst. unfold wf in *. rewrite A, B, C. exact Hwf.
Qed.

(* inside the body, the governed flag has the manager's value until something else changes it *)
Theorem enter_sets : forall m s, get_flag (enter m s) m = enter_value m.
Proof. intros [] s; reflexivity. Qed.

(* turn_memory_guarding_on/off outside any scope set the default that later scopes restore to *)
Theorem turn_sets_default : forall b m p s, wf s -> m <> NoAutodiff ->
  let s0 := set_flag s GuardOn b in
  exists s' r t, exec (With m p) s0 = Some (s', r, t) /\ guard s' = b.
Proof.
  intros b m p s Hwf Hm s0.
  assert (Hwf0 : wf s0) by (unfold s0; destruct s; exact Hwf).
  destruct (with_restores m p s0 Hwf0) as (s' & r & t & E & _ & _ & _ & _ & _ & G).
  exists s', r, t. split; [exact E|]. rewrite G by (right; exact Hm). reflexivity.
Qed.

(* op gate: under no_autodiff nothing is recorded and nothing is locked; with tracking on, locking
   follows MEM_GUARD *)
Theorem gate_untracked : forall s, track s = false ->
  records_graph (op_gate s) = false /\ locks_arrays (op_gate s) = false.
Proof. intros s H; unfold op_gate; simpl; rewrite H; auto. Qed.

Theorem gate_in_no_autodiff : forall s,
  records_graph (op_gate (enter NoAutodiff s)) = false /\ locks_arrays (op_gate (enter NoAutodiff s)) = false.
Proof. intros s; apply gate_untracked; reflexivity. Qed.

(* non-vacuity: a deep nesting with re-entrant managers, an exception and a Turn* in the body *)
Example with_restores_nonvacuous :
  let p := With GuardOff (Seq (With GuardOn (With GuardOff (Seq Obs TurnOff)))
                             (Seq (Try (With NoAutodiff (Seq Obs Raise))) (Seq Obs Raise))) in
  wf init_st /\
  match run (With NoAutodiff p) with
  | Some (r, t, o) => r = true /\ length t = 13 /\
                      o = (true, true, (0, 0, 0), (0, 0, 0), (true, true)) /\
                      nth 3 t o = (false, false, (1, 2, 1), (1, 2, 1), (false, false))
  | None => False
  end.
Proof. split; [exact wf_init | vm_compute; repeat split; reflexivity]. Qed.
