(* HeapP3: the view forest: descendants, the preorder list of a family, fuel lemmas. *)
From Coq Require Import List Arith Bool PeanoNat Lia.
Import ListNotations.
From MG Require Import Model.Heap.
From MG.Proofs Require Import HeapP1 HeapWfb HeapP2.

(* the children that DuplicatingGraph follows: listed tensors that have a base *)
Definition fkids (h : heap) (t : id) : list id := filter (hasbase h) (kids h t).

Lemma fkids_kids h t c : In c (fkids h t) -> In c (kids h t).
Proof. unfold fkids. rewrite filter_In. tauto. Qed.

Lemma fkids_NoDup h t : wf h -> NoDup (fkids h t).
Proof. intros W. apply NoDup_filter. now apply kids_NoDup. Qed.

(* preorder list of (tensor, parent) of the family of t, with fuel *)
Fixpoint pre (f : nat) (h : heap) (par : option id) (t : id) : list (id * option id) :=
  match f with 0 => [] | S f' => (t, par) :: flat_map (pre f' h (Some t)) (fkids h t) end.

(* the fuel f is enough to traverse the family of t *)
Fixpoint fits (f : nat) (h : heap) (t : id) : bool :=
  match f with 0 => false | S f' => forallb (fits f' h) (fkids h t) end.

Inductive desc (h : heap) : id -> id -> Prop :=
| desc_refl t : desc h t t
| desc_step t y c : desc h t y -> In c (kids h y) -> desc h t c.

Lemma desc_trans h a b c : desc h a b -> desc h b c -> desc h a c.
Proof. intros H1 H2. revert H1. induction H2; intros; auto. eapply desc_step; [apply IHdesc; exact H1|exact H]. Qed.

Lemma desc_le h a x : wf h -> desc h a x -> a <= x.
Proof. intros W H. induction H; auto. apply (kid_gt _ _ _ W) in H0. lia. Qed.

Lemma desc_tree h a b x : wf h -> desc h a x -> desc h b x -> desc h a b \/ desc h b a.
Proof. intros W H. revert b. induction H as [a|a y c H IH Hc]; intros b Hb.
  - auto.
  - inversion Hb as [|? y' ? Hb' Hc']; subst.
    + left. eapply desc_step; eauto.
    + assert (y' = y) by (eapply kid_parent_unique; eauto). subst y'. auto. Qed.

Lemma map_flat_map {A B C} (f : B -> C) (g : A -> list B) l :
  map f (flat_map g l) = flat_map (fun x => map f (g x)) l.
Proof. induction l; simpl; auto. now rewrite map_app, IHl. Qed.

Lemma pre_desc f h par t x : In x (map fst (pre f h par t)) -> desc h t x.
Proof. revert par t. induction f; simpl; intros par t; [tauto|].
  intros [<-|H]; [constructor|].
  rewrite map_flat_map in H. apply in_flat_map in H. destruct H as (c & Hc & Hx).
  apply IHf in Hx. eapply desc_trans; [|eauto]. eapply desc_step; [constructor|]. now apply fkids_kids. Qed.

Lemma NoDup_flat_map_intro {A B} (F : A -> list B) l :
  NoDup l -> (forall a, In a l -> NoDup (F a)) ->
  (forall a b x, In a l -> In b l -> a <> b -> In x (F a) -> In x (F b) -> False) ->
  NoDup (flat_map F l).
Proof. induction l as [|a r IH]; simpl; intros ND H1 H2; [constructor|].
  inversion ND; subst. apply NoDup_app_intro; auto.
  - apply IH; auto. intros; eapply H2; eauto.
  - intros x Hx Hx2. apply in_flat_map in Hx2. destruct Hx2 as (b & Hb & Hxb).
    apply (H2 a b x); auto. intros ->; tauto. Qed.

Lemma sibling_disjoint h t c1 c2 x : wf h -> In c1 (kids h t) -> In c2 (kids h t) -> c1 <> c2 ->
  desc h c1 x -> desc h c2 x -> False.
Proof. intros W H1 H2 N D1 D2.
  assert (forall a b, In a (kids h t) -> In b (kids h t) -> a <> b -> desc h a b -> False) as K.
  { intros a b Ha Hb Nab D. inversion D as [|? y ? D' Hy]; subst; [congruence|].
    assert (y = t) by (eapply kid_parent_unique; eauto). subst y.
    apply (desc_le _ _ _ W) in D'. apply (kid_gt _ _ _ W) in Ha. lia. }
  destruct (desc_tree _ _ _ _ W D1 D2); eauto. Qed.

Lemma pre_NoDup f h par t : wf h -> NoDup (map fst (pre f h par t)).
Proof. intros W. revert par t. induction f; simpl; intros par t; [constructor|].
  rewrite map_flat_map. constructor.
  - intros H. apply in_flat_map in H. destruct H as (c & Hc & Hx).
    apply pre_desc in Hx. apply (desc_le _ _ _ W) in Hx. apply fkids_kids in Hc. apply (kid_gt _ _ _ W) in Hc. lia.
  - apply NoDup_flat_map_intro; auto.
    + now apply fkids_NoDup.
    + intros a b x Ha Hb N Hxa Hxb. apply pre_desc in Hxa, Hxb.
      eapply (sibling_disjoint h t a b x); eauto using fkids_kids. Qed.

Lemma pre_gt f h par t x : wf h -> In x (map fst (tl (pre f h par t))) -> t < x.
Proof. intros W. destruct f; simpl; [tauto|]. rewrite map_flat_map. intros H.
  apply in_flat_map in H. destruct H as (c & Hc & Hx). apply pre_desc in Hx.
  apply (desc_le _ _ _ W) in Hx. apply fkids_kids in Hc. apply (kid_gt _ _ _ W) in Hc. lia. Qed.

Lemma fits_mono f h t f' : fits f h t = true -> f <= f' -> fits f' h t = true.
Proof. revert t f'. induction f; simpl; intros t f' H L; [discriminate|].
  destruct f'; [lia|]. simpl. rewrite forallb_forall in *. intros c Hc. apply IHf; auto. lia. Qed.

Lemma flat_map_ext_in {A B} (f g : A -> list B) l : (forall a, In a l -> f a = g a) -> flat_map f l = flat_map g l.
Proof. induction l; simpl; intros H; auto. rewrite H, IHl; auto. Qed.

Lemma pre_fits_mono f h par t f' : fits f h t = true -> f <= f' -> pre f' h par t = pre f h par t.
Proof. revert par t f'. induction f; simpl; intros par t f' H L; [discriminate|].
  destruct f'; [lia|]. simpl. f_equal. rewrite forallb_forall in H.
  apply flat_map_ext_in. intros c Hc. apply IHf; auto. lia. Qed.

Lemma length_flat_map_ge {A B} (F : A -> list B) l a : In a l -> length (F a) <= length (flat_map F l).
Proof. induction l; simpl; [tauto|]. intros [<-|H]; rewrite app_length; [lia|]. apply IHl in H. lia. Qed.

Lemma fits_length f h par t : fits f h t = true -> fits (length (pre f h par t)) h t = true.
Proof. revert par t. induction f; simpl; intros par t H; [discriminate|].
  rewrite forallb_forall in *. intros c Hc.
  eapply fits_mono; [apply (IHf (Some t) c); auto|].
  apply (length_flat_map_ge (pre f h (Some t))); auto. Qed.

Lemma pre_head f h par t : fits f h t = true -> exists r, pre f h par t = (t, par) :: r.
Proof. destruct f; simpl; [discriminate|eauto]. Qed.
