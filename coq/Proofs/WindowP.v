From Coq Require Import ZArith List Bool Lia ZifyBool.
Import ListNotations.
From MG Require Import Model.Window.
Open Scope Z_scope.
Ltac Zify.zify_post_hook ::= Z.to_euclidean_division_equations.

(* ---------- one axis ---------- *)
Lemma placements_pos x W S D : accepts1 x W S D = true -> 1 <= placements x W S D.
Proof.
  unfold accepts1, placements. intros H. assert (0 <= x - ((W - 1) * D + 1)) by nia.
  assert (0 <= (x - ((W - 1) * D + 1)) / S) by (apply Z.div_pos; lia). lia.
Qed.

Lemma axis_in_bounds x W S D g w : accepts1 x W S D = true ->
  0 <= g < placements x W S D -> 0 <= w < W -> 0 <= g * S + w * D < x.
Proof.
  unfold accepts1, placements. intros H Hg Hw.
  assert (HS : 0 < S) by lia. assert (HD : 0 < D) by lia. assert (HW : 0 < W) by lia.
  assert (Hq : ((x - ((W - 1) * D + 1)) / S) * S <= x - ((W - 1) * D + 1)).
  { pose proof (Z.mul_div_le (x - ((W - 1) * D + 1)) S HS). lia. }
  split; [nia|].
  assert (g * S <= ((x - ((W - 1) * D + 1)) / S) * S) by nia.
  assert (w * D <= (W - 1) * D) by nia. lia.
Qed.

(* greedy: one more placement would not fit *)
Lemma placements_maximal x W S D : accepts1 x W S D = true ->
  x - 1 < (placements x W S D) * S + (W - 1) * D.
Proof.
  unfold accepts1, placements. intros H. assert (HS : 0 < S) by lia.
  pose proof (Z.mod_pos_bound (x - ((W - 1) * D + 1)) S HS).
  pose proof (Z.div_mod (x - ((W - 1) * D + 1)) S ltac:(lia)). nia.
Qed.

Lemma accepts1_spec x W S D :
  accepts1 x W S D = true <-> (0 < W /\ 0 < S /\ 0 < D /\ W <= x /\ W * D <= x).
Proof. unfold accepts1. split; intros H; lia. Qed.

(* ---------- list algebra ---------- *)
Lemma dotZ_app a b c d : length a = length c -> dotZ (a ++ b) (c ++ d) = dotZ a c + dotZ b d.
Proof.
  revert c. induction a as [|x a IH]; intros [|y c] H; simpl in *; try discriminate; [lia|].
  rewrite IH by lia. lia.
Qed.

Lemma valid_length s ix : valid s ix -> length s = length ix.
Proof. revert ix. induction s as [|n s IH]; intros [|i ix]; simpl; try tauto. intros [_ H]. f_equal. auto. Qed.

Lemma valid_app s1 s2 i1 i2 : valid s1 i1 -> valid s2 i2 -> valid (s1 ++ s2) (i1 ++ i2).
Proof.
  revert i1. induction s1 as [|n s IH]; intros [|i ix]; simpl; try tauto.
  intros [H1 H2] H3. split; auto.
Qed.

Lemma valid_app_inv s1 s2 ix : valid (s1 ++ s2) ix ->
  exists i1 i2, ix = i1 ++ i2 /\ valid s1 i1 /\ valid s2 i2.
Proof.
  revert ix. induction s1 as [|n s IH]; intros ix H; simpl in *.
  - exists [], ix. simpl. auto.
  - destruct ix as [|i ix]; [tauto|]. destruct H as [Hi H].
    destruct (IH ix H) as (i1 & i2 & -> & H1 & H2). exists (i :: i1), i2. simpl. auto.
Qed.

Lemma cstrides_length s : length (cstrides s) = length s.
Proof. induction s; simpl; auto. Qed.

Lemma prodZ_app a b : prodZ (a ++ b) = prodZ a * prodZ b.
Proof. unfold prodZ. induction a as [|x a IH]; cbn [fold_right app]; [ring | rewrite IH; ring]. Qed.

Lemma cstrides_app lead xs : cstrides (lead ++ xs) = lead_strides lead xs ++ cstrides xs.
Proof.
  unfold lead_strides. induction lead as [|n l IH]; simpl; [reflexivity|].
  rewrite IH, prodZ_app. reflexivity.
Qed.

Lemma ravel_bound shape idx : valid shape idx -> 0 <= ravel shape idx < prodZ shape.
Proof.
  unfold ravel. revert idx. induction shape as [|n s IH]; intros [|i ix]; simpl; try tauto; [lia|].
  intros [Hi Hv]. specialize (IH ix Hv). fold (prodZ s) in *. nia.
Qed.

(* different valid indices address different elements: the view is an honest re-indexing *)
Lemma ravel_inj shape i j : valid shape i -> valid shape j -> ravel shape i = ravel shape j -> i = j.
Proof.
  unfold ravel. revert i j. induction shape as [|n s IH]; intros [|a i] [|b j]; simpl; try tauto.
  intros [Ha Hi] [Hb Hj] E. fold (prodZ s) in *.
  pose proof (ravel_bound s i Hi) as B1. pose proof (ravel_bound s j Hj) as B2. unfold ravel in B1, B2.
  assert (a = b) by nia. subst b. f_equal. apply IH; auto. lia.
Qed.

(* ---------- all windowed axes ---------- *)
Lemma windowed_axes xs : forall Ws Ss Ds g w,
  accepts_axes xs Ws Ss Ds = true -> valid (places xs Ws Ss Ds) g -> valid Ws w ->
  valid xs (zadd (zmul g Ss) (zmul w Ds))
  /\ dotZ g (zmul (cstrides xs) Ss) + dotZ w (zmul (cstrides xs) Ds)
     = dotZ (zadd (zmul g Ss) (zmul w Ds)) (cstrides xs).
Proof.
  induction xs as [|x xs IH]; intros [|W Ws] [|S Ss] [|D Ds] g w Ha Hg Hw; simpl in Ha; try discriminate.
  - destruct g, w; simpl in *; tauto.
  - apply andb_prop in Ha. destruct Ha as [H1 Ha].
    destruct g as [|g0 g]; simpl in Hg; [tauto|]. destruct Hg as [Hg0 Hg].
    destruct w as [|w0 w]; simpl in Hw; [tauto|]. destruct Hw as [Hw0 Hw].
    destruct (IH Ws Ss Ds g w Ha Hg Hw) as [V E]. simpl. split.
    + split; [apply (axis_in_bounds x W S D); assumption | exact V].
    + fold (prodZ xs). rewrite <- E. ring.
Qed.

Lemma places_length xs : forall Ws Ss Ds, accepts_axes xs Ws Ss Ds = true ->
  length (places xs Ws Ss Ds) = length xs /\ length Ws = length xs /\ length Ss = length xs /\ length Ds = length xs.
Proof.
  induction xs as [|x xs IH]; intros [|W Ws] [|S Ss] [|D Ds] Ha; simpl in Ha; try discriminate; simpl; auto.
  apply andb_prop in Ha. destruct Ha as [_ Ha]. destruct (IH _ _ _ Ha) as (A & B & C & E). lia.
Qed.

Lemma zmul_length a : forall b, length a = length b -> length (zmul a b) = length a.
Proof. induction a as [|x a IH]; intros [|y b] H; simpl in *; try discriminate; auto. Qed.

Lemma places_pos xs : forall Ws Ss Ds, accepts_axes xs Ws Ss Ds = true -> Forall (fun n => 1 <= n) (places xs Ws Ss Ds).
Proof.
  induction xs as [|x xs IH]; intros [|W Ws] [|S Ss] [|D Ds] Ha; simpl in Ha; try discriminate; simpl; auto.
  apply andb_prop in Ha. destruct Ha as [H1 Ha]. constructor; [apply placements_pos; exact H1 | apply IH; exact Ha].
Qed.

(* MAIN (C16, sliding_window_view): for an accepted configuration and EVERY index (g.., n.., w..) of the
   output, (1) the source index  n ++ (g*S + w*D)  is a valid index of the array,
   (2) the strided address of the output element IS the row-major address of that source element, i.e.
       out[g.., n.., w..] = arr[n.., g*step + w*dilation],
   (3) the address lies inside the array's buffer: the view never exposes memory outside arr. *)
Theorem swv_element lead xs Ws Ss Ds g n w :
  accepts_axes xs Ws Ss Ds = true ->
  valid (places xs Ws Ss Ds) g -> valid lead n -> valid Ws w ->
  let shape := lead ++ xs in
  let src := n ++ zadd (zmul g Ss) (zmul w Ds) in
  valid shape src
  /\ dotZ (g ++ n ++ w) (out_strides lead xs Ss Ds) = ravel shape src
  /\ 0 <= dotZ (g ++ n ++ w) (out_strides lead xs Ss Ds) < prodZ shape.
Proof.
  intros Ha Hg Hn Hw shape src.
  destruct (windowed_axes xs Ws Ss Ds g w Ha Hg Hw) as [V E].
  destruct (places_length xs Ws Ss Ds Ha) as (L1 & L2 & L3 & L4).
  assert (Hv : valid shape src) by (apply valid_app; assumption).
  assert (Heq : dotZ (g ++ n ++ w) (out_strides lead xs Ss Ds) = ravel shape src).
  { unfold out_strides, ravel, shape, src. rewrite cstrides_app.
    pose proof (valid_length _ _ Hg) as Lg. pose proof (valid_length _ _ Hn) as Ln.
    rewrite dotZ_app.
    2:{ rewrite zmul_length; rewrite cstrides_length; lia. }
    rewrite dotZ_app.
    2:{ unfold lead_strides. rewrite map_length, cstrides_length. lia. }
    rewrite dotZ_app.
    2:{ unfold lead_strides. rewrite map_length, cstrides_length. lia. }
    rewrite <- E. ring. }
  split; [exact Hv|]. split; [exact Heq|]. rewrite Heq. apply ravel_bound. exact Hv.
Qed.

(* every index of out_shape decomposes as (g.., n.., w..) *)
Theorem out_index_decomposes lead xs Ws Ss Ds idx :
  valid (out_shape lead xs Ws Ss Ds) idx ->
  exists g n w, idx = g ++ n ++ w /\ valid (places xs Ws Ss Ds) g /\ valid lead n /\ valid Ws w.
Proof.
  unfold out_shape. intros H.
  destruct (valid_app_inv _ _ _ H) as (g & r & -> & Hg & Hr).
  destruct (valid_app_inv _ _ _ Hr) as (n & w & -> & Hn & Hw).
  exists g, n, w. auto.
Qed.

(* the function, on a full shape *)
Theorem swv_spec shape Ws Ss Ds :
  match swv shape Ws Ss Ds with
  | Some (osh, ostr) =>
      exists lead xs, shape = lead ++ xs /\ length xs = length Ws /\ accepts_axes xs Ws Ss Ds = true /\
        osh = out_shape lead xs Ws Ss Ds /\ ostr = out_strides lead xs Ss Ds
  | None => (length shape < length Ws)%nat \/
            accepts_axes (skipn (length shape - length Ws) shape) Ws Ss Ds = false
  end.
Proof.
  unfold swv. destruct (Nat.leb_spec (length Ws) (length shape)) as [Hle|Hlt]; [|left; lia].
  destruct (accepts_axes _ Ws Ss Ds) eqn:Ha; [|right; reflexivity].
  exists (firstn (length shape - length Ws) shape), (skipn (length shape - length Ws) shape).
  split; [symmetry; apply firstn_skipn|]. split; [|auto].
  rewrite skipn_length. lia.
Qed.

(* acceptance is exactly the documented rule, axis by axis *)
Theorem accepts_axes_spec xs : forall Ws Ss Ds,
  accepts_axes xs Ws Ss Ds = true <->
  (length Ws = length xs /\ length Ss = length xs /\ length Ds = length xs /\
   forall i, (i < length xs)%nat ->
     let x := nth i xs 0 in let W := nth i Ws 0 in let S := nth i Ss 0 in let D := nth i Ds 0 in
     0 < W /\ 0 < S /\ 0 < D /\ W <= x /\ W * D <= x).
Proof.
  induction xs as [|x xs IH]; intros [|W Ws] [|S Ss] [|D Ds]; simpl;
    try (split; [discriminate | intros (A & B & C & _); simpl in *; lia]).
  - split; auto. intros _. split; [reflexivity|]. split; [reflexivity|]. split; [reflexivity|]. intros i Hi; lia.
  - rewrite andb_true_iff, IH, accepts1_spec. split.
    + intros [H1 (A & B & C & F)].
      split; [lia|]. split; [lia|]. split; [lia|].
      intros [|i] Hi; cbn [nth]; [lia|]. apply F. lia.
    + intros (A & B & C & F). split.
      * apply (F 0%nat). lia.
      * split; [lia|]. split; [lia|]. split; [lia|].
        intros i Hi. apply (F (Datatypes.S i)). lia.
Qed.

(* ---------- conv_nd / max_pool acceptance ---------- *)
Lemma conv_shape_ok_iff_tiles x p W S D : 0 < S ->
  conv_shape_ok x p W S D = true <-> tiles x p W S D.
Proof.
  intros HS. unfold conv_shape_ok, tiles. split.
  - intros H. exists ((x + 2 * p - ((W - 1) * D + 1)) / S + 1).
    assert (0 <= (x + 2 * p - ((W - 1) * D + 1)) / S) by (apply Z.div_pos; lia).
    pose proof (Z.div_mod (x + 2 * p - ((W - 1) * D + 1)) S ltac:(lia)). split; [lia|nia].
  - intros (G & HG & E). assert (x + 2 * p - ((W - 1) * D + 1) = (G - 1) * S) as -> by lia.
    rewrite Z.mod_mul by lia. assert (0 <= (G - 1) * S) by nia. lia.
Qed.

(* what conv_nd accepts: tilings whose window*dilation ALSO fits (the window function's stricter rule) *)
Theorem conv_accepts1_partial x p W S D :
  conv_accepts1 x p W S D = true <->
  (0 < W /\ 0 < S /\ 0 < D /\ 0 <= p /\ tiles x p W S D /\ W * D <= x + 2 * p).
Proof.
  unfold conv_accepts1. split.
  - intros H. repeat (apply andb_prop in H; destruct H as [H ?]).
    assert (HS : 0 < S) by lia.
    split; [lia|]. split; [lia|]. split; [lia|]. split; [lia|].
    split; [apply conv_shape_ok_iff_tiles; assumption|].
    match goal with A : accepts1 _ _ _ _ = true |- _ => apply accepts1_spec in A; lia end.
  - intros (HW & HS & HD & Hp & Ht & Hfit).
    apply (conv_shape_ok_iff_tiles x p W S D HS) in Ht. rewrite Ht.
    assert (Hacc : accepts1 (x + 2 * p) W S D = true).
    { apply accepts1_spec. repeat split; try lia. nia. }
    rewrite Hacc. lia.
Qed.

(* the documented rule alone (tiles) is NOT what is accepted: a valid tiling is refused *)
Theorem conv_accept_iff_tiles_refuted :
  exists x p W S D, 0 < W /\ 0 < S /\ 0 < D /\ 0 <= p /\ tiles x p W S D /\ conv_accepts1 x p W S D = false.
Proof.
  exists 3, 0, 2, 1, 2. repeat split; try lia. exists 1. lia.
Qed.

(* the refused tilings are exactly those picked out by the finding predicate *)
Theorem gap_characterises x p W S D :
  dilated_extent_gap x p W S D = true <->
  (0 < W /\ 0 < S /\ 0 < D /\ 0 <= p /\ tiles x p W S D /\ conv_accepts1 x p W S D = false).
Proof.
  unfold dilated_extent_gap. split.
  - intros H. repeat (apply andb_prop in H; destruct H as [H ?]).
    assert (HS : 0 < S) by lia.
    split; [lia|]. split; [lia|]. split; [lia|]. split; [lia|].
    split; [apply conv_shape_ok_iff_tiles; assumption|].
    destruct (conv_accepts1 x p W S D) eqn:E; [|reflexivity].
    apply conv_accepts1_partial in E. lia.
  - intros (HW & HS & HD & Hp & Ht & Hrej).
    pose proof Ht as Ht'. apply (conv_shape_ok_iff_tiles x p W S D HS) in Ht'. rewrite Ht'.
    destruct (W * D <=? x + 2 * p) eqn:E.
    + assert (conv_accepts1 x p W S D = true) by (apply conv_accepts1_partial; repeat split; try lia; exact Ht).
      congruence.
    + lia.
Qed.

(* conv output extent = number of placements, and every placement lies inside the padded data *)
Theorem conv_placements_inside x p W S D g w :
  conv_accepts1 x p W S D = true -> 0 <= g < placements (x + 2 * p) W S D -> 0 <= w < W ->
  0 <= g * S + w * D < x + 2 * p.
Proof.
  intros H. unfold conv_accepts1 in H. repeat (apply andb_prop in H; destruct H as [H ?]).
  apply axis_in_bounds. assumption.
Qed.

Theorem pool_accepts1_iff_tiles x P S :
  pool_accepts1 x P S = true <-> (0 < P /\ 0 < S /\ tiles x 0 P S 1).
Proof.
  unfold pool_accepts1, tiles. split.
  - intros H. repeat (apply andb_prop in H; destruct H as [H ?]).
    split; [lia|]. split; [lia|]. exists ((x - P) / S + 1).
    assert (0 <= (x - P) / S) by (apply Z.div_pos; lia).
    pose proof (Z.div_mod (x - P) S ltac:(lia)). split; [lia|nia].
  - intros (HP & HS & G & HG & E). assert (x - P = (G - 1) * S) as -> by lia.
    rewrite Z.mod_mul by lia. assert (0 <= (G - 1) * S) by nia. lia.
Qed.

(* non-vacuity: a 2-d window with step and dilation on a (2,5,7) array *)
Example swv_nonvacuous :
  swv [2; 5; 7] [2; 3] [1; 2] [2; 2] = Some ([3; 2; 2; 2; 3], [7; 2; 35; 14; 2])
  /\ accepts_axes [5; 7] [2; 3] [1; 2] [2; 2] = true
  /\ valid (places [5; 7] [2; 3] [1; 2] [2; 2]) [1; 0] /\ valid [2] [1] /\ valid [2; 3] [1; 2].
Proof. vm_compute. repeat split; try reflexivity; try discriminate. Qed.
