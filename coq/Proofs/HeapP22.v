(* HeapP22: towards T4: the order of the children in the graph; what the re-creation loop establishes for each member. *)
From Coq Require Import List Arith Bool PeanoNat Lia.
Import ListNotations.
From MG Require Import Model.Heap.
From MG.Proofs Require Import HeapP1 HeapWfb HeapP2 HeapP3 HeapP4 HeapP5 HeapP6 HeapP7 HeapP8 HeapP10 HeapP11 HeapP12 HeapP13 HeapP14 HeapP15 HeapP16 HeapP17 HeapP18 HeapP19.

(* ------------------------------------------------------------------ splitting lists *)
Lemma app_split {A} (l r l1 : list A) x l2 : l ++ r = l1 ++ x :: l2 ->
  (exists l2', l = l1 ++ x :: l2' /\ l2 = l2' ++ r) \/ (exists l1', l1 = l ++ l1' /\ r = l1' ++ x :: l2).
Proof. revert l1. induction l as [|a l IH]; intros l1 H; simpl in *.
  - right. exists l1. auto.
  - destruct l1 as [|b l1]; simpl in H; inversion H; subst.
    + left. exists l. auto.
    + destruct (IH l1 H2) as [(l2' & -> & ->)|(l1' & -> & ->)].
      * left. exists l2'. auto.
      * right. exists l1'. auto. Qed.

Lemma flat_map_split {A B} (F : A -> list B) K : forall l1 x l2, flat_map F K = l1 ++ x :: l2 ->
  exists K1 k K2 l1' l2', K = K1 ++ k :: K2 /\ F k = l1' ++ x :: l2' /\ l1 = flat_map F K1 ++ l1' /\ l2 = l2' ++ flat_map F K2.
Proof. induction K as [|a K IH]; intros l1 x l2 H; simpl in H.
  - destruct l1; discriminate.
  - apply app_split in H. destruct H as [(l2' & E1 & E2)|(l1' & E1 & E2)].
    + exists [], a, K, l1, l2'. simpl. auto.
    + destruct (IH _ _ _ E2) as (K1 & k & K2 & m1 & m2 & F1 & F2 & F3 & F4).
      exists (a :: K1), k, K2, m1, m2. subst. simpl. rewrite app_assoc. auto. Qed.

(* in the preorder list, the siblings listed before c come before c, those listed after c come after *)
Lemma pre_order f h : forall par0 t l1 c q l2, pre f h par0 t = l1 ++ (c, Some q) :: l2 -> l1 <> [] ->
  exists A B, fkids h q = A ++ c :: B /\ (forall a, In a A -> In a (map fst l1)) /\ (forall b, In b B -> In b (map fst l2)).
Proof. induction f as [|f IH]; intros par0 t l1 c q l2 H Hne; simpl in H.
  - destruct l1; discriminate.
  - destruct l1 as [|x l1r]; [congruence|]. simpl in H. inversion H as [[Hx Hrest]]. clear H.
    apply flat_map_split in Hrest. destruct Hrest as (K1 & k & K2 & m1 & m2 & F1 & F2 & F3 & F4).
    assert (Hhead : forall k' K', In k' K' -> f <> 0 -> In k' (map fst (flat_map (pre f h (Some t)) K'))).
    { intros k' K' Hk Hf. rewrite map_flat_map. apply in_flat_map. exists k'. split; auto.
      destruct f; [congruence|]. simpl; auto. }
    assert (Hf0 : f <> 0) by (intros ->; simpl in F2; destruct m1; discriminate).
    destruct m1 as [|y m1].
    + simpl in F2. rewrite (pre_cons f h (Some t) k Hf0) in F2. inversion F2; subst c q.
      exists K1, K2. split; auto. split.
      * intros a Ha. simpl. right. subst l1r. rewrite app_nil_r. apply Hhead; auto.
      * intros b Hb. subst l2. rewrite map_app, in_app_iff. right. apply Hhead; auto.
    + destruct (IH (Some t) k (y :: m1) c q m2 F2) as (A & B & E & HA & HB); [discriminate|].
      exists A, B. split; auto. split.
      * intros a Ha. apply HA in Ha. simpl. right. subst l1r. rewrite map_app, in_app_iff. right. exact Ha.
      * intros b Hb. apply HB in Hb. subst l2. rewrite map_app, in_app_iff. left. exact Hb. Qed.

Section Order.
Variables (h3 : heap) (root : id) (h4 : heap) (g : list node) (tb : tens) (L : list id).
Hypothesis W3 : wf h3.
Hypothesis DS : DupSpec h3 root h4 g tb L.

Lemma g_order g1 n gs par : g = g1 ++ n :: gs -> n_parent n = Some par ->
  exists A B, fkids h3 par = A ++ n_t n :: B /\ (forall a, In a A -> In a (map n_t g1)) /\ (forall b, In b B -> In b (map n_t gs)).
Proof. intros Eg Hp. pose proof (ds_pre _ _ _ _ _ _ DS) as HP. rewrite Eg, map_app in HP. change (map tp (n :: gs)) with (tp n :: map tp gs) in HP.
  unfold tp at 2 in HP. rewrite Hp in HP.
  assert (Hne : map tp g1 <> []).
  { destruct g1 as [|x g1']; [|discriminate]. simpl in Eg.
    destruct (ds_head _ _ _ _ _ _ DS) as (g2 & Eg2). rewrite Eg in Eg2. inversion Eg2; subst n. discriminate. }
  destruct (pre_order _ _ _ _ _ _ _ _ (eq_sym HP) Hne) as (A & B & E & HA & HB).
  exists A, B. split; auto. split.
  - intros a Ha. apply HA in Ha. rewrite map_map in Ha. exact Ha.
  - intros b Hb. apply HB in Hb. rewrite map_map in Hb. exact Hb. Qed.

End Order.
