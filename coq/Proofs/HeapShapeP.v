(* HeapShapeP: the Tensor.shape setter (Model/HeapShape.v). *)
From Coq Require Import List Arith Bool PeanoNat Lia.
Import ListNotations.
From MG Require Import Model.Heap Model.HeapShape.
From MG.Proofs Require Import HeapP1 HeapWfb HeapP2 HeapP3 HeapP4 HeapP5 HeapP6 HeapP7 HeapP8 HeapP9 HeapP10 HeapP11 HeapP12 HeapP13 HeapP14
               HeapP15 HeapP16 HeapP17 HeapP18 HeapP19 HeapEx.

(* ------------------------------------------------------------------ B1 *)
Theorem set_shape_fail_noop h m : set_shape h m true = Some (Raised h).
Proof. reflexivity. Qed.

(* ------------------------------------------------------------------ apply_view without any well-formedness hypothesis *)
Record AVF (h : heap) (k : nat) (par : id) (tp0 : tens) (h' : heap) (v : id) : Prop := mkAVF {
  avf_par0 : getT h par = Some tp0;
  avf_v : v = 2 + h_next h;
  avf_next : h_next h' = 5 + h_next h;
  avf_par : v <> par -> getT h' par = Some (touch true tp0);
  avf_vrec : getT h' v = Some (mkT (Some (S (h_next h))) (Some (view_base par tp0)) (S v) (S (S v)) (h_next h) false false);
  avf_told : forall q, q <> v -> q <> par -> getT h' q = getT h q;
  avf_o : getO h' (S (h_next h)) = Some (mkO k [par] []);
  avf_o_old : forall o, o <> S (h_next h) -> getO h' o = getO h o;
  avf_set_new : set_of h' (S (S v)) = [];
  avf_anew : getA h' (h_next h) <> None;
  avf_aold : forall a, a <> h_next h -> getA h' a = getA h a;
  avf_data : getA h (t_data tp0) <> None
}.

Lemma apply_view_frame h k par h' v : apply_view h k par = Some (h', v) -> exists tp0, AVF h k par tp0 h' v.
Proof. unfold apply_view. intros H. apply bind_Some in H. destruct H as (tp0 & Hp & H). exists tp0. cbv zeta in H.
  apply bind_Some in H. destruct H as ([h1 a] & VA & H).
  apply bind_Some in H. destruct H as (h2 & TI & H).
  unfold fresh in H. apply bind_Some in H. destruct H as (h5 & RG & H).
  match type of H with context [new_tensor ?hh ?c ?b ?d] => destruct (new_tensor hh c b d) as [h6 v6] eqn:NT end.
  apply bind_Some in H. destruct H as (tp & Etp & H). inversion H; subst h' v6. clear H.
  pose proof VA as VA'. unfold view_array in VA'. apply bind_Some in VA'. destruct VA' as (ra & Era & VA').
  assert (Hnext1 : h_next h1 = S (h_next h)).
  { clear - VA'. unfold new_array, fresh in VA'. simpl in VA'. inversion VA'. reflexivity. }
  apply view_array_spec in VA. destruct VA as (V1 & V2 & V3 & V4 & V5 & V6 & V7 & V8). simpl in V1, V2, V3, V4, V5.
  apply touch_inputs_spec in TI. destruct TI as (A1 & A2 & A3 & A4 & A5 & A6 & A7 & A8).
  apply (register_spec []) in RG. destruct RG as (B1 & B2 & B3 & B4 & B5 & B6 & _). simpl in B1, B2, B3, B4, B5.
  apply new_tensor_spec in NT. destruct NT as (Et & Hn & Ho & Ha & Ht & Hl & Hs).
  rewrite B5 in Et, Hn. rewrite A5, Hnext1 in Et, Hn. simpl in Et, Hn.
  assert (HT2 : forall q, getT h2 q = if Nat.eqb par q then Some (touch true tp0) else getT h q).
  { intros q. rewrite A8.
    assert (mem q [par] = Nat.eqb par q) as -> by (unfold mem; cbn [existsb]; rewrite orb_false_r; apply Nat.eqb_sym).
    assert (getT h1 q = if Nat.eqb par q then Some (touch true tp0) else getT h q) as ->.
    { unfold getT. rewrite V1. apply get_put. }
    destruct (Nat.eqb par q); auto. unfold option_map. now rewrite touch_idem. }
  set (hf := setL h6 (t_children tp) (lst_of h6 (t_children tp) ++ [v])).
  assert (HT6 : forall q, getT hf q = if Nat.eqb v q then Some (mkT (Some (S (h_next h))) (Some (view_base par tp0)) (S v) (S (S v)) a false false)
                                     else getT h2 q).
  { intros q. unfold hf, getT at 1. simpl. rewrite Ht, get_put, B1. simpl. rewrite A5, Hnext1. destruct (Nat.eqb v q); auto. }
  subst a.
  constructor.
  - exact Hp.
  - exact Et.
  - unfold hf. simpl. rewrite Hn. reflexivity.
  - intros N. rewrite HT6, HT2, Nat.eqb_refl. destruct (Nat.eqb v par) eqn:E; auto. apply Nat.eqb_eq in E; congruence.
  - rewrite HT6, Nat.eqb_refl. reflexivity.
  - intros q N1 N2. rewrite HT6, HT2. destruct (Nat.eqb v q) eqn:E; [apply Nat.eqb_eq in E; congruence|].
    destruct (Nat.eqb par q) eqn:E2; [apply Nat.eqb_eq in E2; congruence|]. reflexivity.
  - unfold hf, getO. simpl. rewrite Ho, B2. simpl. rewrite A5, Hnext1. apply get_put_eq.
  - intros o N. unfold hf, getO. simpl. rewrite Ho, B2. simpl. rewrite A5, Hnext1, get_put_ne by auto. now rewrite A1, V2.
  - unfold hf, set_of. simpl. rewrite Hs, get_put_eq. reflexivity.
  - unfold hf, getA. simpl. rewrite Ha, B4. simpl. rewrite A4. exact V7.
  - intros a0 N. unfold hf, getA. simpl. rewrite Ha, B4. simpl. rewrite A4. apply V8. exact N.
  - intros E. unfold getA in Era, E. simpl in Era. congruence. Qed.

(* ------------------------------------------------------------------ a frame relation for the steps after DuplicatingGraph:
   tensors with ids in [lo, B) (the placeholders) survive and keep creator / array / consumer set; operations below B are kept *)
Definition Same3 (r r' : tens) : Prop := t_creator r' = t_creator r /\ t_data r' = t_data r /\ t_ops r' = t_ops r.

Record PR (lo B : id) (hh hh' : heap) : Prop := mkPR {
  pr_n : h_next hh <= h_next hh';
  pr_t : forall q r, getT hh q = Some r -> lo <= q < B -> exists r', getT hh' q = Some r' /\ Same3 r r';
  pr_op : forall o r, getO hh o = Some r -> o < B -> getO hh' o = Some r
}.

Lemma Same3_refl r : Same3 r r. Proof. unfold Same3; auto. Qed.
Lemma Same3_trans a b c : Same3 a b -> Same3 b c -> Same3 a c.
Proof. unfold Same3. intuition congruence. Qed.

Lemma PR_refl lo B h : PR lo B h h.
Proof. constructor; auto. intros q r E _. exists r. split; auto. apply Same3_refl. Qed.

Lemma PR_trans lo B h1 h2 h3 : PR lo B h1 h2 -> PR lo B h2 h3 -> PR lo B h1 h3.
Proof. intros P Q. constructor.
  - pose proof (pr_n _ _ _ _ P). pose proof (pr_n _ _ _ _ Q). lia.
  - intros q r E Hq. destruct (pr_t _ _ _ _ P q r E Hq) as (r' & E' & S'). destruct (pr_t _ _ _ _ Q q r' E' Hq) as (r'' & E'' & S'').
    exists r''. split; auto. eapply Same3_trans; eauto.
  - intros o r E Ho. apply (pr_op _ _ _ _ Q); auto. apply (pr_op _ _ _ _ P); auto. Qed.

Lemma PR_tables lo B h h' : h_t h' = h_t h -> h_o h' = h_o h -> h_next h <= h_next h' -> PR lo B h h'.
Proof. intros E1 E2 L. constructor; auto.
  - intros q r E _. exists r. unfold getT in *. rewrite E1. split; auto. apply Same3_refl.
  - intros o r E _. unfold getO in *. now rewrite E2. Qed.

Lemma PR_setT_same lo B h q0 r0 r' : getT h q0 = Some r0 -> Same3 r0 r' -> PR lo B h (setT h q0 r').
Proof. intros E0 S. constructor; auto.
  intros q r E _. rewrite getT_setT. destruct (Nat.eqb q0 q) eqn:Q.
  - apply Nat.eqb_eq in Q; subst q0. rewrite E0 in E. inversion E; subst. eauto.
  - exists r. split; auto. apply Same3_refl. Qed.

Lemma PR_setT_out lo B h q0 r' : ~ (lo <= q0 < B) -> PR lo B h (setT h q0 r').
Proof. intros N. constructor; auto.
  intros q r E Hq. rewrite getT_setT. destruct (Nat.eqb q0 q) eqn:Q.
  - apply Nat.eqb_eq in Q; subst q0. tauto.
  - exists r. split; auto. apply Same3_refl. Qed.

Lemma PR_delT lo B h q0 : ~ (lo <= q0 < B) -> PR lo B h (delT h q0).
Proof. intros N. constructor; auto.
  intros q r E Hq. exists r. split; [|apply Same3_refl]. unfold getT, delT in *; simpl. rewrite get_del_ne; auto. intros ->. tauto. Qed.

Lemma PR_delO lo B h c : B <= c -> PR lo B h (delO h c).
Proof. intros N. constructor; auto.
  - intros q r E _. exists r. split; auto. apply Same3_refl.
  - intros o r E Ho. unfold getO, delO in *; simpl. rewrite get_del_ne; auto. intros ->. lia. Qed.

Lemma PR_apply_view lo B h k par h' v : B <= h_next h -> apply_view h k par = Some (h', v) -> PR lo B h h'.
Proof. intros HB H. destruct (apply_view_frame _ _ _ _ _ H) as (tp0 & F). constructor.
  - rewrite (avf_next _ _ _ _ _ _ F). lia.
  - intros q r E Hq. pose proof (avf_v _ _ _ _ _ _ F) as Hv.
    destruct (Nat.eq_dec q par) as [->|N].
    + rewrite (avf_par0 _ _ _ _ _ _ F) in E. inversion E; subst r. exists (touch true tp0).
      split; [apply (avf_par _ _ _ _ _ _ F); intros Q; rewrite Q in Hv; lia|]. destruct tp0; unfold Same3; simpl; auto.
    + exists r. split; [|apply Same3_refl]. rewrite (avf_told _ _ _ _ _ _ F); auto. intros Q; rewrite Q in Hq; lia.
  - intros o r E Ho. rewrite (avf_o_old _ _ _ _ _ _ F); auto. apply Nat.lt_neq. lia. Qed.

Lemma reroute_nil h src tgt h' rs : reroute h src tgt = Some h' -> getT h src = Some rs -> set_of h (t_ops rs) = [] -> h' = h.
Proof. unfold reroute. intros H E S. rewrite E in H. simpl in H. rewrite S in H. simpl in H. now inversion H. Qed.

Lemma PR_replay_into lo B h t parent h' : lo <= B -> B <= h_next h -> t < lo -> replay_into h t parent = Some h' -> PR lo B h h'.
Proof. intros HloB HB Ht H. unfold replay_into in H.
  apply bind_Some in H. destruct H as (rt & Ert & H). apply bind_Some in H. destruct H as (c & Ec & H).
  apply bind_Some in H. destruct H as (oc & Eoc & H). apply bind_Some in H. destruct H as ([hv v] & AV & H).
  apply bind_Some in H. destruct H as (hm & M & H). apply bind_Some in H. destruct H as (hr & RR & H).
  apply bind_Some in H. destruct H as (tpar & Etpar & H). inversion H; subst h'. clear H.
  destruct (apply_view_frame _ _ _ _ _ AV) as (tp0 & F).
  pose proof (avf_v _ _ _ _ _ _ F) as Hv. pose proof (avf_vrec _ _ _ _ _ _ F) as Ev.
  unfold mirror in M. rewrite Ev in M. simpl in M. inversion M; subst hm. clear M.
  assert (hr = setT hv t (mkT (Some (S (h_next h))) (Some (view_base parent tp0)) (S v) (S (S v)) (h_next h) false false)).
  { eapply reroute_nil; [exact RR| |].
    - rewrite getT_setT. destruct (Nat.eqb t v) eqn:Q; [apply Nat.eqb_eq in Q; lia|]. exact Ev.
    - simpl. apply (avf_set_new _ _ _ _ _ _ F). }
  subst hr.
  set (rv := mkT (Some (S (h_next h))) (Some (view_base parent tp0)) (S v) (S (S v)) (h_next h) false false) in *.
  apply (PR_trans lo B h hv); [eapply PR_apply_view; eauto|].
  apply (PR_trans lo B hv (setT hv t rv)); [apply PR_setT_out; lia|].
  apply (PR_trans lo B _ (delT (setT hv t rv) v)); [apply PR_delT; lia|].
  apply PR_tables; auto. Qed.

Definition ss_step (m unshaped : id) (acc : option heap) (n : node) : option heap :=
  match acc with None => None | Some hh =>
    match n_parent n with
    | None => Some hh
    | Some par => replay_into hh (n_t n) (if Nat.eqb par m then unshaped else par)
    end end.

Lemma ss_fold_None m u ns : fold_left (ss_step m u) ns None = None.
Proof. induction ns; simpl; auto. Qed.

(* the creator of [u] (a tensor that is neither a husk nor younger than the heap) is not changed by replay_into *)
Definition CU (u cu : id) (hh : heap) : Prop := u < h_next hh /\ exists ru, getT hh u = Some ru /\ t_creator ru = Some cu.

Lemma CU_replay_into u cu h t parent h' : t <> u -> CU u cu h -> replay_into h t parent = Some h' -> CU u cu h'.
Proof. intros Ntu (Hu & ru & Eu & Ec) H. unfold replay_into in H.
  apply bind_Some in H. destruct H as (rt & Ert & H). apply bind_Some in H. destruct H as (c & Ec' & H).
  apply bind_Some in H. destruct H as (oc & Eoc & H). apply bind_Some in H. destruct H as ([hv v] & AV & H).
  apply bind_Some in H. destruct H as (hm & M & H). apply bind_Some in H. destruct H as (hr & RR & H).
  apply bind_Some in H. destruct H as (tpar & Etpar & H). inversion H; subst h'. clear H.
  destruct (apply_view_frame _ _ _ _ _ AV) as (tp0 & F).
  pose proof (avf_v _ _ _ _ _ _ F) as Hv. pose proof (avf_vrec _ _ _ _ _ _ F) as Ev.
  unfold mirror in M. rewrite Ev in M. simpl in M. inversion M; subst hm. clear M.
  assert (hr = setT hv t (mkT (Some (S (h_next h))) (Some (view_base parent tp0)) (S v) (S (S v)) (h_next h) false false)).
  { eapply reroute_nil; [exact RR| |].
    - rewrite getT_setT. destruct (Nat.eqb t v) eqn:Q; [reflexivity|exact Ev].
    - simpl. apply (avf_set_new _ _ _ _ _ _ F). }
  subst hr. split.
  - simpl. pose proof (avf_next _ _ _ _ _ _ F). lia.
  - assert (exists ru', getT hv u = Some ru' /\ t_creator ru' = Some cu) as (ru' & Eu' & Ec2).
    { destruct (Nat.eq_dec u parent) as [->|N].
      - rewrite (avf_par0 _ _ _ _ _ _ F) in Eu. inversion Eu; subst ru. exists (touch true tp0).
        split; [apply (avf_par _ _ _ _ _ _ F); intros Q; rewrite Q in Hv; lia|]. destruct tp0; simpl in *; auto.
      - exists ru. split; auto. rewrite (avf_told _ _ _ _ _ _ F); auto. intros Q; rewrite Q in Hu; lia. }
    exists ru'. split; auto. unfold getT, setL, delT, setT; simpl. rewrite get_del_ne, get_put_ne; auto.
    intros Q. rewrite Q in Hv. lia. Qed.

Lemma ss_fold_PR lo B m u cu ns : lo <= B -> (forall n, In n ns -> n_t n < lo) -> lo <= u ->
  forall hh hh', B <= h_next hh -> CU u cu hh -> fold_left (ss_step m u) ns (Some hh) = Some hh' -> PR lo B hh hh' /\ CU u cu hh'.
Proof. intros HloB Hns Hu. induction ns as [|n ns IH]; intros hh hh' HB C H; cbn [fold_left] in H.
  - inversion H; subst. split; [apply PR_refl|auto].
  - unfold ss_step at 2 in H. destruct (n_parent n) as [par|].
    + destruct (replay_into hh (n_t n) (if Nat.eqb par m then u else par)) as [h1|] eqn:E; [|rewrite ss_fold_None in H; discriminate].
      assert (Hn : n_t n < lo) by (apply Hns; simpl; auto).
      pose proof (PR_replay_into lo B hh _ _ h1 HloB HB Hn E) as P1.
      assert (C1 : CU u cu h1). { eapply CU_replay_into; [|exact C|exact E]. intros Q. rewrite Q in Hn. lia. }
      destruct (IH (fun n' Hn' => Hns n' (or_intror Hn')) h1 hh') as (P2 & C2); auto.
      * pose proof (pr_n _ _ _ _ P1). lia.
      * split; auto. eapply PR_trans; eauto.
    + apply IH; auto. intros n' Hn'. apply Hns. simpl; auto. Qed.

(* ------------------------------------------------------------------ B4 *)
Lemma null_grad_false_spec h m h0 : null_grad h m false = Some h0 ->
  exists r, getT h m = Some r /\ h0 = setT h m (with_grads r false false).
Proof. intros H. apply null_grad_spec in H. destruct H as (r & E & ->). exists r. split; auto. Qed.

Lemma wf_null_grad_false h m r : wf h -> getT h m = Some r -> wf (setT h m (with_grads r false false)).
Proof. intros W E. eapply wf_setT_weaker; eauto. unfold weaker; simpl; auto 10. Qed.

Theorem set_shape_frame h m h' : wf h -> set_shape h m false = Some (Done h') ->
  exists r g h1, getT h m = Some r /\ dup (setT h m (with_grads r false false)) m = Some (h1, g) /\
    PR (h_next h) (h_next h1) h1 h'.
Proof. intros W H. unfold set_shape in H.
  apply bind_Some in H. destruct H as (h0 & NG & H).
  apply null_grad_false_spec in NG. destruct NG as (r & Em & ->).
  set (h0 := setT h m (with_grads r false false)) in *.
  pose proof (wf_null_grad_false h m r W Em) as W0.
  apply bind_Some in H. destruct H as ([h1 g] & D & H).
  exists r, g, h1. split; auto. split; auto.
  destruct (dup_spec h0 m h1 g W0 D) as (tb & L & DS).
  pose proof (ds_inv _ _ _ _ _ _ DS) as I.
  assert (Hlo : h_next h = h_next h0) by reflexivity.
  set (lo := h_next h). set (B := h_next h1).
  assert (HloB : lo <= B) by (unfold lo, B; rewrite Hlo; apply (i_next _ _ _ _ _ _ I)).
  assert (Hmlo : m < lo) by (eapply getT_lt; eauto).
  apply bind_Some in H. destruct H as (ns & NS & H).
  assert (ns = g) by (pose proof (nodes_eq h0 m h1 g tb L DS h1 (ph_tree_h1 h0 m h1 g tb L W0 DS)); congruence). subst ns.
  apply bind_Some in H. destruct H as (nb & Enb & H).
  apply bind_Some in H. destruct H as ([h2 out] & AV1 & H).
  apply bind_Some in H. destruct H as (tp & Etp & H).
  apply bind_Some in H. destruct H as (tout & Etout & H).
  apply bind_Some in H. destruct H as (h4 & M4 & H).
  apply bind_Some in H. destruct H as (h5 & RR & H).
  apply bind_Some in H. destruct H as (h8 & E8 & H).
  apply bind_Some in H. destruct H as ([h9 unshaped] & AV2 & H).
  apply bind_Some in H. destruct H as (h10 & FD & H).
  (* out = placeholder.reshape *)
  destruct (apply_view_frame _ _ _ _ _ AV1) as (tp0 & F1).
  pose proof (avf_v _ _ _ _ _ _ F1) as Hout. fold B in Hout.
  pose proof (PR_apply_view lo B h1 _ _ h2 out (le_n _) AV1) as P12.
  rewrite (avf_vrec _ _ _ _ _ _ F1) in Etout. inversion Etout; subst tout. clear Etout.
  set (ro := with_base (mkT (Some (S (h_next h1))) (Some (view_base (n_p nb) tp0)) (S out) (S (S out)) (h_next h1) false false) (t_base tp)) in *.
  set (h3 := setT h2 out ro) in *.
  assert (P23 : PR lo B h2 h3) by (apply PR_setT_out; lia).
  unfold mirror in M4. assert (E3o : getT h3 out = Some ro) by apply getT_setT_eq. rewrite E3o in M4. simpl in M4. inversion M4; subst h4. clear M4.
  assert (P34 : PR lo B h3 (setT h3 m ro)) by (apply PR_setT_out; lia).
  assert (h5 = setT h3 m ro).
  { eapply reroute_nil; [exact RR| |].
    - rewrite getT_setT. destruct (Nat.eqb m out) eqn:Q; [reflexivity|exact E3o].
    - simpl. change (set_of (setT h3 m ro) (S (S out))) with (set_of h2 (S (S out))). apply (avf_set_new _ _ _ _ _ _ F1). }
  subst h5.
  set (h6 := delT (setT h3 m ro) out) in *.
  assert (P46 : PR lo B (setT h3 m ro) h6) by (apply PR_delT; lia).
  set (h7 := setL h6 (t_children tp) (filter (fun x => negb (Nat.eqb x out)) (lst_of h6 (t_children tp)) ++ [m])) in *.
  assert (P67 : PR lo B h6 h7) by (apply PR_tables; auto).
  assert (P78 : PR lo B h7 h8).
  { destruct (t_base tp) as [bb|]; [|inversion E8; subst; apply PR_refl].
    apply bind_Some in E8. destruct E8 as (c & _ & E8). apply bind_Some in E8. destruct E8 as (oc & _ & E8).
    apply bind_Some in E8. destruct E8 as (par & _ & E8). apply bind_Some in E8. destruct E8 as (tpar & Etpar & E8).
    unfold fresh in E8. inversion E8. clear E8.
    match goal with |- PR _ _ _ (setT ?hx par ?rx) => apply (PR_trans lo B h7 hx); [apply PR_tables; simpl; auto|] end.
    eapply PR_setT_same; [exact Etpar|]. unfold Same3; simpl; auto. }
  assert (P18 : PR lo B h1 h8).
  { eapply PR_trans; [exact P12|]. eapply PR_trans; [exact P23|]. eapply PR_trans; [exact P34|].
    eapply PR_trans; [exact P46|]. eapply PR_trans; [exact P67|exact P78]. }
  (* unshaped = self.reshape(old_shape) *)
  assert (HB8 : B <= h_next h8) by apply (pr_n _ _ _ _ P18).
  destruct (apply_view_frame _ _ _ _ _ AV2) as (tm8 & F2).
  pose proof (PR_apply_view lo B h8 _ _ h9 unshaped HB8 AV2) as P89.
  pose proof (avf_v _ _ _ _ _ _ F2) as Hu.
  assert (C9 : CU unshaped (S (h_next h8)) h9).
  { split; [rewrite (avf_next _ _ _ _ _ _ F2); lia|]. eexists. split; [apply (avf_vrec _ _ _ _ _ _ F2)|reflexivity]. }
  change (fun (acc : option heap) (n : node) => match acc with Some hh => match n_parent n with Some par => replay_into hh (n_t n) (if Nat.eqb par m then unshaped else par) | None => Some hh end | None => None end)
    with (ss_step m unshaped) in FD.
  destruct (ss_fold_PR lo B m unshaped (S (h_next h8)) g HloB) with (hh := h9) (hh' := h10) as (P910 & C10); auto.
  { intros n Hn. unfold lo. rewrite Hlo. apply (i_tlt _ _ _ _ _ _ I n Hn). }
  { lia. }
  { pose proof (pr_n _ _ _ _ P89). lia. }
  assert (P110 : PR lo B h1 h10) by (eapply PR_trans; [exact P18|]; eapply PR_trans; eauto).
  destruct (existsb _ g).
  - inversion H; subst. exact P110.
  - apply bind_Some in H. destruct H as (tu & Etu & H). apply bind_Some in H. destruct H as (tm & Etm & H).
    destruct C10 as (Hu10 & ru & Eru & Ecu). rewrite Etu in Eru. inversion Eru; subst ru. rewrite Ecu in H.
    inversion H; subst h'. clear H.
    eapply PR_trans; [exact P110|].
    match goal with |- PR _ _ _ (delO (setS ?hx ?s ?l) ?c) =>
      apply (PR_trans lo B h10 hx); [|apply (PR_trans lo B hx (setS hx s l)); [apply PR_tables; auto|apply PR_delO; lia]] end.
    apply (PR_trans lo B h10 (delT h10 unshaped)); [apply PR_delT; lia|apply PR_tables; auto]. Qed.

(* every old operation keeps its class; each variable is kept or replaced by a NEW tensor (a placeholder) that carries the old
   creator, the old array and the old consumer set *)
Theorem set_shape_old_consumers : forall h m h', wf h -> set_shape h m false = Some (Done h') ->
  forall o r0, getO h o = Some r0 ->
  exists r1, getO h' o = Some r1 /\ o_kind r1 = o_kind r0 /\ o_keep r1 = o_keep r0 /\
    Forall2 (fun v v' => v' = v \/
                         (h_next h <= v' /\ exists r rp, getT h v = Some r /\ getT h' v' = Some rp /\
                                                        t_creator rp = t_creator r /\ t_data rp = t_data r /\ t_ops rp = t_ops r))
            (o_vars r0) (o_vars r1).
Proof. intros h m h' W H o r0 Eo.
  destruct (set_shape_frame h m h' W H) as (r & g & h1 & Em & D & P).
  set (h0 := setT h m (with_grads r false false)) in *.
  pose proof (wf_null_grad_false h m r W Em) as W0.
  destruct (dup_spec h0 m h1 g W0 D) as (tb & L & DS).
  pose proof (ds_inv _ _ _ _ _ _ DS) as I.
  assert (Eo0 : getO h0 o = Some r0) by exact Eo.
  pose proof (dup_routes_ops h0 m h1 g tb L DS o r0 Eo0) as Eo1.
  assert (Holt : o < h_next h1).
  { assert (o < h_next h) by (apply (wf_lt_o _ W); eapply get_keys; exact Eo). pose proof (i_next _ _ _ _ _ _ I). simpl in H1. lia. }
  eexists. split; [apply (pr_op _ _ _ _ P _ _ Eo1 Holt)|]. simpl. split; auto. split; auto.
  clear - W W0 Em DS I P Eo. revert Eo. intros Eo.
  assert (Hgen : forall v, In v (o_vars r0) ->
     sigma h0 g o v = v \/ (h_next h <= sigma h0 g o v /\ exists r rp, getT h v = Some r /\ getT h' (sigma h0 g o v) = Some rp /\
                            t_creator rp = t_creator r /\ t_data rp = t_data r /\ t_ops rp = t_ops r)).
  { intros v Hv. pose proof (proj1 (wf_oper _ W _ _ Eo) v Hv) as Hvlt.
    unfold sigma. destruct (mem o (ops_of h0 v)); auto. unfold ph_if_exists.
    destruct (gfind g v) as [n|] eqn:Eg; auto. right.
    destruct (gfind_In _ _ _ Eg) as (Hn & Hvn).
    pose proof (i_p _ _ _ _ _ _ I n Hn) as Hp. simpl in Hp.
    destruct Hvn as [-> | ->]; [|lia].
    split; [lia|].
    destruct (dup_routes_placeholders h0 m h1 g tb L W0 DS n Hn) as (rr0 & rp1 & C1 & C2 & C3 & C4 & C5 & _).
    destruct (pr_t _ _ _ _ P _ _ C2 Hp) as (rp & Erp & (S1 & S2 & S3)).
    assert (exists rh, getT h (n_t n) = Some rh /\ t_creator rr0 = t_creator rh /\ t_data rr0 = t_data rh /\ t_ops rr0 = t_ops rh) as (rh & Erh & Q1 & Q2 & Q3).
    { unfold h0 in C1. rewrite getT_setT in C1. destruct (Nat.eqb m (n_t n)) eqn:Q.
      - apply Nat.eqb_eq in Q. rewrite <- Q. inversion C1; subst rr0. exists r. simpl. auto.
      - exists rr0. auto. }
    exists rh, rp. split; auto. split; auto. split; [congruence|]. split; congruence. }
  induction (o_vars r0) as [|v vs IH]; simpl; constructor.
  - apply Hgen. simpl; auto.
  - apply IH. intros v' Hv'. apply Hgen. simpl; auto. Qed.

(* ------------------------------------------------------------------ B3: wf, as defined, is not preserved by the shape setter *)
(* (a) one assignment on a leaf: the placeholder 5 (a NEW object) now lists the OLD tensor 2 among its view children
       (placeholder._view_children.append(self)); the conjunct of wf that fails is "a listed child is younger than its lister"
       (child_ok 5 2: Nat.ltb 5 2 = false), i.e. the encoding of acyclicity by the order of the ids. *)
Definition sh (h : heap) (m : id) : heap := match set_shape h m false with Some o => heap_of o | None => empty_heap end.
Definition sh_h0 : heap := run0 [SLeaf].
Example set_shape_breaks_wf_order :
  wfb sh_h0 = true /\ (exists h1, set_shape sh_h0 2 false = Some (Done h1) /\ wfb h1 = false /\
    lst_of h1 (match getT h1 5 with Some r => t_children r | None => 0 end) = [2] /\ child_ok h1 5 2 = false).
Proof. split; [vm_compute; reflexivity|]. eexists. split; [vm_compute; reflexivity|]. vm_compute. auto. Qed.

(* (b) a second assignment: the first placeholder 5 still lists tensor 2 and the second placeholder 17 lists it too:
       "no tensor is listed twice" fails (tensor 2 has no base, so DuplicatingGraph would skip it in both lists). *)
Example set_shape_breaks_wf_forest :
  let h2 := sh (sh sh_h0 2) 2 in
  nodupb (flat_map (fun p => lst_of h2 (t_children (snd p))) (h_t h2)) = false /\
  map (fun t => match getT h2 t with Some r => lst_of h2 (t_children r) | None => [] end) [5; 17] = [[2]; [2]] /\
  option_map t_base (getT h2 2) = Some None.
Proof. vm_compute. auto. Qed.

(* ------------------------------------------------------------------ B2: the shape setter is never stuck *)
Lemma touch_base_creator r b : t_base (touch true r) = Some b -> t_creator r <> None.
Proof. rewrite touch_true_eq. simpl. destruct (t_creator r); [discriminate|]. destruct (t_base r); simpl; discriminate. Qed.

(* one replay: existence, and what it leaves *)
Lemma replay_into_ex h t parent rt c oc tp0 :
  getT h t = Some rt -> t_creator rt = Some c -> getO h c = Some oc ->
  getT h parent = Some tp0 -> getA h (t_data tp0) <> None ->
  t < h_next h -> parent < h_next h -> t <> parent ->
  exists hv v h', AVF h (o_kind oc) parent tp0 hv v /\ replay_into h t parent = Some h' /\
    h_next h' = h_next hv /\ h_o h' = h_o hv /\ h_arr h' = h_arr hv /\ h_set h' = h_set hv /\
    (forall q, q <> v -> getT h' q = if Nat.eqb t q then getT hv v else getT hv q).
Proof. intros Et Ec Eoc Ep Hd Htl Hpl Ntp.
  destruct (apply_view_ex h (o_kind oc) parent tp0 Ep Hd) as (hv & v & AV).
  destruct (apply_view_frame _ _ _ _ _ AV) as (tp0' & F).
  assert (tp0' = tp0) by (pose proof (avf_par0 _ _ _ _ _ _ F); congruence). subst tp0'.
  pose proof (avf_v _ _ _ _ _ _ F) as Hv. pose proof (avf_vrec _ _ _ _ _ _ F) as Ev.
  set (rv := mkT (Some (S (h_next h))) (Some (view_base parent tp0)) (S v) (S (S v)) (h_next h) false false) in *.
  exists hv, v. unfold replay_into. rewrite Et. cbn [bind]. rewrite Ec. cbn [bind]. rewrite Eoc. cbn [bind]. rewrite AV. cbn [bind].
  unfold mirror. rewrite Ev. cbn [bind].
  assert (Evm : getT (setT hv t rv) v = Some rv).
  { rewrite getT_setT. destruct (Nat.eqb t v); auto. }
  destruct (reroute_some (setT hv t rv) v t rv Evm) as (hr & RR). rewrite RR. cbn [bind].
  assert (hr = setT hv t rv).
  { eapply reroute_nil; [exact RR|exact Evm|]. simpl. apply (avf_set_new _ _ _ _ _ _ F). }
  subst hr.
  assert (Epar : getT (setT hv t rv) parent = Some (touch true tp0)).
  { rewrite getT_setT. destruct (Nat.eqb t parent) eqn:Q; [apply Nat.eqb_eq in Q; congruence|].
    apply (avf_par _ _ _ _ _ _ F). intros Q2. rewrite Q2 in Hv. lia. }
  rewrite Epar. cbn [bind]. eexists. split; [exact F|]. split; [reflexivity|].
  split; [reflexivity|]. split; [reflexivity|]. split; [reflexivity|]. split; [reflexivity|].
  intros q Q1. unfold getT at 1. simpl. rewrite get_del_ne, get_put by auto.
  destruct (Nat.eqb t q); auto. Qed.

Lemma avf_arr_alloc h k par tp0 h' v a : AVF h k par tp0 h' v -> getA h a <> None -> getA h' a <> None.
Proof. intros F Ha. destruct (Nat.eq_dec a (h_next h)) as [->|N]; [apply (avf_anew _ _ _ _ _ _ F)|].
  rewrite (avf_aold _ _ _ _ _ _ F); auto. Qed.

Lemma avf_op_alloc h k par tp0 h' v o : AVF h k par tp0 h' v -> getO h o <> None -> getO h' o <> None.
Proof. intros F Ho. destruct (Nat.eq_dec o (S (h_next h))) as [->|N]; [rewrite (avf_o _ _ _ _ _ _ F); discriminate|].
  rewrite (avf_o_old _ _ _ _ _ _ F); auto. Qed.

Section ShapeLoop.
Variables (h0 : heap) (m : id) (h1 : heap) (g : list node) (tb : tens) (L : list id).
Hypothesis W0 : wf h0.
Hypothesis DS : DupSpec h0 m h1 g tb L.
Variable u : id.

Let I : Inv h0 (h_next h0) (t_base tb) h1 g L := ds_inv _ _ _ _ _ _ DS.
Let lo := h_next h0.
Let B := h_next h1.

Record NSI (gs : list node) (hh : heap) : Prop := mkNSI {
  ns_cre : forall n, In n gs -> exists r c, getT hh (n_t n) = Some r /\ t_creator r = Some c /\ getO hh c <> None;
  ns_par : forall n, In n g -> ~ In n gs -> n_parent n <> None -> exists r, getT hh (n_t n) = Some r /\ getA hh (t_data r) <> None;
  ns_u : exists ru, getT hh u = Some ru /\ getA hh (t_data ru) <> None;
  ns_m : getT hh m <> None;
  ns_next : B <= h_next hh /\ lo <= u < h_next hh
}.

Lemma shape_replay_one g1 n gs par hh : g = g1 ++ n :: gs -> n_parent n = Some par -> NSI (n :: gs) hh ->
  exists hh', replay_into hh (n_t n) (if Nat.eqb par m then u else par) = Some hh' /\ NSI gs hh'.
Proof. intros Eg Hpar N.
  assert (Hn : In n g) by (rewrite Eg; apply in_or_app; simpl; auto).
  pose proof (i_tnd _ _ _ _ _ _ I) as NDt. rewrite Eg, map_app in NDt. simpl in NDt.
  apply NoDup_app_inv in NDt. destruct NDt as (ND1 & ND2 & ND3). inversion ND2 as [|? ? ND4 ND5]; subst.
  destruct (ns_next _ _ N) as (HB & Hu1 & Hu2).
  assert (HloB : lo <= B) by apply (i_next _ _ _ _ _ _ I).
  assert (Htlo : forall n', In n' g -> n_t n' < lo) by apply (i_tlt _ _ _ _ _ _ I).
  pose proof (Htlo n Hn) as Ht.
  destruct (ns_cre _ _ N n (or_introl eq_refl)) as (rt & c & Et & Ec & Eoc).
  destruct (getO hh c) as [oc|] eqn:Eoc'; [|congruence].
  destruct (ds_head _ _ _ _ _ _ DS) as (g2 & Eg2).
  assert (Hmroot : In (m, h_next h0, None) g) by (rewrite Eg2; simpl; auto).
  (* the parent to replay on *)
  set (parent := if Nat.eqb par m then u else par).
  assert (Hpar' : exists tp0, getT hh parent = Some tp0 /\ getA hh (t_data tp0) <> None /\ parent < h_next hh /\ parent <> n_t n /\
                   (forall n', In n' gs -> n_t n' <> parent) /\ parent <> m).
  { unfold parent. destruct (Nat.eqb par m) eqn:Q.
    - destruct (ns_u _ _ N) as (ru & Eru & Ha). exists ru. split; auto. split; auto. split; [lia|]. split; [lia|].
      split; [intros n' Hn'; assert (In n' g) by (rewrite Eg; apply in_or_app; simpl; auto); apply Htlo in H; lia|].
      apply Htlo in Hmroot. unfold n_t in Hmroot; simpl in Hmroot. lia.
    - apply Nat.eqb_neq in Q.
      pose proof (parent_before h0 m h1 g tb L DS n par g1 gs Eg Hpar) as Hpb.
      apply in_map_iff in Hpb. destruct Hpb as (npar & Enp & Hnp1).
      assert (Hnpar : In npar g) by (rewrite Eg; apply in_or_app; auto).
      assert (Hnpar2 : ~ In npar (n :: gs)).
      { intros Hin. eapply ND3; [apply in_map; exact Hnp1|]. change (In (n_t npar) (map n_t (n :: gs))). now apply in_map. }
      assert (Hnr : n_parent npar <> None).
      { intros Hp0. pose proof (g_parent h0 m h1 g tb L DS npar Hnpar) as G. rewrite Hp0 in G. subst npar. apply Q. symmetry. exact Enp. }
      destruct (ns_par _ _ N npar Hnpar Hnpar2 Hnr) as (r & Er & Ha). rewrite Enp in Er. exists r.
      split; auto. split; auto. split; [rewrite <- Enp; apply Htlo in Hnpar; lia|]. split.
      + intros E. apply Hnpar2. left. eapply NoDup_map_inj; [apply (i_tnd _ _ _ _ _ _ I)| | |]; auto. congruence.
      + split; auto. intros n' Hn' E. apply Hnpar2. right.
        assert (n' = npar); [|now subst]. eapply NoDup_map_inj; [apply (i_tnd _ _ _ _ _ _ I)| | |]; auto.
        * rewrite Eg. apply in_or_app; simpl; auto. * congruence. }
  destruct Hpar' as (tp0 & Ep & Hd & Hpl & Npt & Hgs & Npm).
  destruct (replay_into_ex hh (n_t n) parent rt c oc tp0 Et Ec Eoc' Ep Hd ltac:(lia) Hpl (not_eq_sym Npt))
    as (hv & v & hh' & F & RI & Hn' & Ho' & Ha' & Hs' & Hget).
  exists hh'. split; auto.
  pose proof (avf_v _ _ _ _ _ _ F) as Hv.
  assert (Hgv : forall q, q <> v -> q <> n_t n -> q <> parent -> getT hh' q = getT hh q).
  { intros q Q1 Q2 Q3. rewrite Hget by auto. destruct (Nat.eqb (n_t n) q) eqn:Q; [apply Nat.eqb_eq in Q; congruence|].
    apply (avf_told _ _ _ _ _ _ F); auto. }
  assert (Hgp : parent <> v -> getT hh' parent = Some (touch true tp0)).
  { intros Q1. rewrite Hget by auto. destruct (Nat.eqb (n_t n) parent) eqn:Q; [apply Nat.eqb_eq in Q; congruence|].
    apply (avf_par _ _ _ _ _ _ F); auto. }
  assert (Hpv : parent <> v) by (intros Q; rewrite Q in Hpl; lia).
  assert (HgA : forall a, getA hh a <> None -> getA hh' a <> None).
  { intros a Haa. unfold getA. rewrite Ha'. apply (avf_arr_alloc _ _ _ _ _ _ a F Haa). }
  assert (HgO : forall o, getO hh o <> None -> getO hh' o <> None).
  { intros o Hoo. unfold getO. rewrite Ho'. apply (avf_op_alloc _ _ _ _ _ _ o F Hoo). }
  assert (Hmlo : m < lo) by (apply Htlo in Hmroot; exact Hmroot).
  constructor.
  - intros n' Hn'1. destruct (ns_cre _ _ N n' (or_intror Hn'1)) as (r & c' & E1 & E2 & E3).
    assert (In n' g) by (rewrite Eg; apply in_or_app; simpl; auto).
    exists r, c'. split; [|split; auto].
    rewrite Hgv; auto.
    + apply Htlo in H. lia.
    + intros Q. apply ND4. rewrite <- Q. now apply in_map.
  - intros n' Hn'g Hn'gs Hnr. destruct (node_eq_dec n' n) as [->|Nn].
    + eexists. split; [rewrite Hget by lia; rewrite Nat.eqb_refl; apply (avf_vrec _ _ _ _ _ _ F)|].
      simpl. unfold getA. rewrite Ha'. apply (avf_anew _ _ _ _ _ _ F).
    + assert (Hn'2 : ~ In n' (n :: gs)) by (intros [Q|Q]; [congruence|tauto]).
      destruct (ns_par _ _ N n' Hn'g Hn'2 Hnr) as (r & Er & Har).
      assert (N1 : n_t n' <> n_t n).
      { intros Q. apply Nn. eapply NoDup_map_inj; [apply (i_tnd _ _ _ _ _ _ I)| | |]; auto. }
      assert (N2 : n_t n' <> v) by (apply Htlo in Hn'g; lia).
      destruct (Nat.eq_dec (n_t n') parent) as [Q|Q].
      * rewrite Q in Er. rewrite Ep in Er. inversion Er; subst r. exists (touch true tp0). rewrite Q. split; auto.
      * exists r. rewrite Hgv; auto.
  - destruct (ns_u _ _ N) as (ru & Eru & Har).
    destruct (Nat.eq_dec u parent) as [Q|Q].
    + rewrite Q in Eru. rewrite Ep in Eru. inversion Eru; subst ru. exists (touch true tp0). rewrite Q. split; auto.
    + exists ru. rewrite Hgv; auto; lia.
  - rewrite Hgv; auto.
    + apply (ns_m _ _ N). + lia.
    + intros Q. assert (In (n_t n) (map n_t g2) \/ n = (m, h_next h0, None)).
      { rewrite Eg2 in Hn. destruct Hn as [Q2|Q2]; [right; auto|left; now apply in_map]. }
      destruct H as [H|H].
      * pose proof (i_tnd _ _ _ _ _ _ I) as ND. rewrite Eg2 in ND. simpl in ND. inversion ND. apply H2. unfold n_t at 1; simpl. rewrite Q. exact H.
      * subst n. discriminate.
  - rewrite Hn', (avf_next _ _ _ _ _ _ F). lia. Qed.

Lemma shape_fold gs : forall g1 hh, g = g1 ++ gs -> (forall n, In n gs -> n_parent n <> None) -> NSI gs hh ->
  exists hh', fold_left (ss_step m u) gs (Some hh) = Some hh' /\ NSI [] hh'.
Proof. induction gs as [|n gs IH]; intros g1 hh Eg Hnr N.
  - simpl. eauto.
  - destruct (n_parent n) as [par|] eqn:Ep; [|exfalso; apply (Hnr n); simpl; auto].
    destruct (shape_replay_one g1 n gs par hh Eg Ep N) as (hh' & E & N').
    cbn [fold_left]. unfold ss_step at 2. rewrite Ep, E. apply (IH (g1 ++ [n]) hh'); auto.
    + rewrite <- app_assoc. exact Eg.
    + intros n' Hn'. apply Hnr. simpl; auto. Qed.

End ShapeLoop.

Theorem set_shape_not_stuck h m r : wf h -> getT h m = Some r -> getA h (t_data r) <> None ->
  (forall b c, t_base r = Some b -> t_creator r = Some c ->
     exists oc par, getO h c = Some oc /\ hd_error (o_vars oc) = Some par /\ getT h par <> None) ->
  exists out, set_shape h m false = Some out.
Proof. intros W Em Hdata Hcre. unfold set_shape.
  set (h0 := setT h m (with_grads r false false)).
  assert (NG : null_grad h m false = Some h0) by (unfold null_grad; rewrite Em; reflexivity).
  rewrite NG. cbn [bind].
  pose proof (wf_null_grad_false h m r W Em) as W0. fold h0 in W0.
  assert (Em0 : getT h0 m = Some (with_grads r false false)) by apply getT_setT_eq.
  destruct (dup_exists h0 m _ W0 Em0 eq_refl) as (h1 & g & D). rewrite D. cbn [bind].
  destruct (dup_spec h0 m h1 g W0 D) as (tb & L & DS).
  pose proof (ds_inv _ _ _ _ _ _ DS) as I.
  rewrite (nodes_eq h0 m h1 g tb L DS h1 (ph_tree_h1 h0 m h1 g tb L W0 DS)). cbn [bind].
  destruct (ds_head _ _ _ _ _ _ DS) as (g2 & Eg).
  assert (Hhd : match g with b :: _ => Some b | [] => None end = Some (m, h_next h0, None)) by (rewrite Eg; reflexivity).
  rewrite Hhd. cbn [bind]. change (n_p (m, h_next h0, None)) with (h_next h0).
  set (p := h_next h0) in *. set (lo := h_next h0) in *. set (B := h_next h1) in *.
  assert (Hrootnode : In (m, p, None) g) by (rewrite Eg; simpl; auto).
  assert (HloB : lo <= B) by apply (i_next _ _ _ _ _ _ I).
  assert (Hmlo : m < lo) by (apply (i_tlt _ _ _ _ _ _ I _ Hrootnode)).
  destruct (ph_final h0 m h1 g tb L W0 DS _ Hrootnode) as (r0 & lp & E1 & E2 & E3 & E4 & E5 & E6).
  unfold n_t, n_p in E1, E3; simpl in E1, E3. rewrite Em0 in E1. inversion E1; subst r0. clear E1.
  set (rp := with_children (with_base (with_grads r false false) (bb (h_next h0) (t_base tb) (m, p, None))) lp) in *.
  change (getT h1 p = Some rp) in E3.
  assert (Hpdata : getA h1 (t_data rp) <> None).
  { simpl. unfold getA. rewrite (i_arr _ _ _ _ _ _ I). exact Hdata. }
  destruct (apply_view_ex h1 K_RESHAPE p rp E3 Hpdata) as (h2 & out & AV1). rewrite AV1. cbn [bind].
  destruct (apply_view_frame _ _ _ _ _ AV1) as (rp' & F1).
  assert (rp' = rp) by (pose proof (avf_par0 _ _ _ _ _ _ F1); congruence). subst rp'.
  pose proof (avf_v _ _ _ _ _ _ F1) as Hout. fold B in Hout.
  assert (Hplt : p < B) by (apply (i_p _ _ _ _ _ _ I _ Hrootnode)).
  assert (Ep2 : getT h2 p = Some (touch true rp)) by (apply (avf_par _ _ _ _ _ _ F1); intros Q; rewrite Q in Hout; lia).
  rewrite Ep2. cbn [bind]. rewrite (avf_vrec _ _ _ _ _ _ F1). cbn [bind].
  set (tp := touch true rp) in *.
  set (ro := with_base (mkT (Some (S (h_next h1))) (Some (view_base p rp)) (S out) (S (S out)) (h_next h1) false false) (t_base tp)).
  set (h3 := setT h2 out ro).
  unfold mirror. assert (E3o : getT h3 out = Some ro) by apply getT_setT_eq. rewrite E3o. cbn [bind].
  set (h4 := setT h3 m ro).
  assert (E4o : getT h4 out = Some ro).
  { unfold h4. rewrite getT_setT. destruct (Nat.eqb m out); auto. }
  destruct (reroute_some h4 out m ro E4o) as (h5 & RR). rewrite RR. cbn [bind].
  assert (h5 = h4).
  { eapply reroute_nil; [exact RR|exact E4o|]. simpl. change (set_of h4 (S (S out))) with (set_of h2 (S (S out))). apply (avf_set_new _ _ _ _ _ _ F1). }
  subst h5.
  set (h6 := delT h4 out).
  set (h7 := setL h6 (t_children tp) (filter (fun x => negb (Nat.eqb x out)) (lst_of h6 (t_children tp)) ++ [m])).
  (* tensors below out *)
  assert (Hget7 : forall q, q <> out -> getT h7 q = if Nat.eqb m q then Some ro else getT h2 q).
  { intros q Q. unfold h7, h6, h4, h3, getT, setL, delT, setT; simpl. rewrite get_del_ne by auto. rewrite get_put.
    destruct (Nat.eqb m q); auto. rewrite get_put_ne; auto. }
  assert (Hget2 : forall q, q <> out -> q <> p -> getT h2 q = getT h1 q) by (intros; apply (avf_told _ _ _ _ _ _ F1); auto).
  assert (Hal7 : forall q, getT h1 q <> None -> q <> out -> getT h7 q <> None).
  { intros q Hq Q. rewrite Hget7 by auto. destruct (Nat.eqb m q); [discriminate|].
    destruct (Nat.eq_dec q p) as [->|Np]; [rewrite Ep2; discriminate|]. rewrite Hget2; auto. }
  assert (HO7 : forall o, getO h7 o = getO h2 o) by reflexivity.
  assert (HA7 : forall a, getA h7 a = getA h2 a) by reflexivity.
  (* the parent of a view lists the placeholder *)
  assert (exists h8, match t_base tp with
            | None => Some h7
            | Some _ => c <- t_creator tp ;; oc <- getO h7 c ;; par <- hd_error (o_vars oc) ;; tpar <- getT h7 par ;;
                        let (l, hh) := fresh h7 in
                        Some (setT (setL hh l (map (fun w => if Nat.eqb w m then p else w) (lst_of h7 (t_children tpar)))) par (with_children tpar l))
            end = Some h8 /\ h_o h8 = h_o h7 /\ h_arr h8 = h_arr h7 /\ h_next h7 <= h_next h8 <= S (h_next h7) /\
            (forall q rq, getT h7 q = Some rq -> exists rq', getT h8 q = Some rq' /\ t_creator rq' = t_creator rq /\ t_data rq' = t_data rq))
    as (h8 & E8 & HO8 & HA8 & HN8 & HT8).
  { destruct (t_base tp) as [bs|] eqn:Ebt.
    - pose proof (touch_base_creator rp bs Ebt) as Hc. change (t_creator rp) with (t_creator r) in Hc.
      destruct (t_creator r) as [c|] eqn:Ecr; [|congruence].
      assert (Ect : t_creator tp = Some c) by (unfold tp; rewrite touch_true_eq; simpl; exact Ecr).
      rewrite Ect. cbn [bind].
      assert (Hbr : t_base r = Some bs).
      { apply touch_base_some in Ebt. simpl in Ebt. unfold bb in Ebt. simpl in Ebt.
        pose proof (ds_b _ _ _ _ _ _ DS) as Hb. rewrite Em0 in Hb. inversion Hb. rewrite <- H0 in Ebt. exact Ebt. }
      destruct (Hcre bs c Hbr eq_refl) as (oc & par & Eoc & Ehd & Hpar).
      assert (Eoc0 : getO h0 c = Some oc) by exact Eoc.
      pose proof (dup_routes_ops h0 m h1 g tb L DS c oc Eoc0) as Eoc1.
      assert (Hclt : c < B).
      { assert (c < h_next h) by (apply (wf_lt_o _ W); eapply get_keys; exact Eoc). unfold B. pose proof (i_next _ _ _ _ _ _ I). simpl in H0. lia. }
      rewrite HO7, (avf_o_old _ _ _ _ _ _ F1) by (apply Nat.lt_neq; lia). rewrite Eoc1. cbn [bind o_vars].
      destruct (o_vars oc) as [|par0 vs] eqn:Ev; [discriminate|]. simpl in Ehd. inversion Ehd; subst par0.
      cbn [map hd_error bind].
      assert (Hpar7 : getT h7 (sigma h0 g c par) <> None).
      { apply Hal7.
        - unfold sigma. destruct (mem c (ops_of h0 par)).
          + unfold ph_if_exists. destruct (gfind g par) as [n|] eqn:Eg'.
            * destruct (gfind_In _ _ _ Eg') as (Hn & _). destruct (ph_final h0 m h1 g tb L W0 DS n Hn) as (? & ? & _ & _ & Q & _). congruence.
            * assert (getT h0 par <> None).
              { unfold h0. rewrite getT_setT. destruct (Nat.eqb m par); [discriminate|auto]. }
              destruct (getT h0 par) eqn:Q; [|congruence]. rewrite (h1_orig h0 m h1 g tb L W0 DS par t Q). discriminate.
          + assert (getT h0 par <> None).
            { unfold h0. rewrite getT_setT. destruct (Nat.eqb m par); [discriminate|auto]. }
            destruct (getT h0 par) eqn:Q; [|congruence]. rewrite (h1_orig h0 m h1 g tb L W0 DS par t Q). discriminate.
        - intros Q.
          assert (sigma h0 g c par < B).
          { unfold sigma. assert (par < lo).
            { destruct (getT h par) eqn:Q2; [|congruence]. apply (getT_lt _ _ _ W) in Q2. exact Q2. }
            destruct (mem c (ops_of h0 par)); [|lia]. unfold ph_if_exists. destruct (gfind g par) as [n|] eqn:Eg'; [|lia].
            destruct (gfind_In _ _ _ Eg') as (Hn & _). apply (i_p _ _ _ _ _ _ I n Hn). }
          rewrite Q in H. lia. }
      destruct (getT h7 (sigma h0 g c par)) as [tpar|] eqn:Etpar; [|congruence]. cbn [bind]. unfold fresh.
      eexists. split; [reflexivity|]. split; [reflexivity|]. split; [reflexivity|]. split; [simpl; lia|].
      intros q rq Eq. rewrite getT_setT. destruct (Nat.eqb (sigma h0 g c par) q) eqn:Q.
      + apply Nat.eqb_eq in Q. subst q. change (getT h7 (sigma h0 g c par)) with (getT h7 (sigma h0 g c par)) in Eq.
        rewrite Etpar in Eq. inversion Eq; subst rq. eexists. split; [reflexivity|]. simpl. auto.
      + exists rq. split; auto.
    - exists h7. split; auto. split; auto. split; auto. split; [lia|]. intros q rq Eq. exists rq. auto. }
  rewrite E8. cbn [bind].
  (* unshaped *)
  assert (Hn7 : h_next h7 = h_next h2) by reflexivity.
  assert (Hn2 : h_next h2 = 5 + B) by apply (avf_next _ _ _ _ _ _ F1).
  assert (Hmout : m <> out) by lia.
  assert (Em7 : getT h7 m = Some ro) by (rewrite Hget7 by auto; now rewrite Nat.eqb_refl).
  destruct (HT8 m ro Em7) as (rm8 & Em8 & Hc8 & Hd8).
  assert (Hd8a : getA h8 (t_data rm8) <> None).
  { rewrite Hd8. simpl. unfold getA. rewrite HA8. apply (avf_anew _ _ _ _ _ _ F1). }
  destruct (apply_view_ex h8 K_RESHAPE m rm8 Em8 Hd8a) as (h9 & u & AV2). rewrite AV2. cbn [bind].
  destruct (apply_view_frame _ _ _ _ _ AV2) as (rm8' & F2).
  assert (rm8' = rm8) by (pose proof (avf_par0 _ _ _ _ _ _ F2); congruence). subst rm8'.
  pose proof (avf_v _ _ _ _ _ _ F2) as Hu.
  (* the views are re-created *)
  assert (N9 : NSI h0 m h1 g u g2 h9).
  { constructor.
    - intros n Hn. assert (Hng : In n g) by (rewrite Eg; simpl; auto).
      assert (Hnm : n_t n <> m).
      { intros Q. pose proof (i_tnd _ _ _ _ _ _ I) as ND. rewrite Eg in ND. simpl in ND. inversion ND. apply H1. unfold n_t at 1; simpl. rewrite <- Q. now apply in_map. }
      pose proof (i_tlt _ _ _ _ _ _ I n Hng) as Htl. fold lo in Htl.
      pose proof (g_parent h0 m h1 g tb L DS n Hng) as HP.
      destruct (n_parent n) as [par|] eqn:Epar; [|subst n; unfold n_t in Hnm; simpl in Hnm; congruence].
      unfold fkids in HP. apply filter_In in HP. destruct HP as (Hk & Hb).
      destruct (kid_wf _ _ _ W0 Hk) as (_ & rc & Erc & Hcc). unfold hasbase in Hb. rewrite Erc in Hb.
      destruct Hcc as (_ & c0 & oc0 & Ec0 & Eoc0); [destruct (t_base rc); discriminate|].
      assert (E1n : getT h1 (n_t n) = Some rc) by (apply (h1_orig h0 m h1 g tb L W0 DS); auto).
      assert (E7n : getT h7 (n_t n) = Some rc).
      { rewrite Hget7 by lia. destruct (Nat.eqb m (n_t n)) eqn:Q; [apply Nat.eqb_eq in Q; congruence|].
        rewrite Hget2; auto; [lia|]. intros Q2. rewrite Q2 in Htl. unfold p, lo in Htl. lia. }
      destruct (HT8 _ _ E7n) as (rc8 & E8n & Hcc8 & _).
      exists rc8, c0. split; [|split; [congruence|]].
      + rewrite (avf_told _ _ _ _ _ _ F2); auto. lia.
      + apply (avf_op_alloc _ _ _ _ _ _ c0 F2). unfold getO. rewrite HO8. fold (getO h7 c0). rewrite HO7.
        apply (avf_op_alloc _ _ _ _ _ _ c0 F1). rewrite (i_oget _ _ _ _ _ _ I), Eoc0. discriminate.
    - intros n Hng Hng2 Hp. exfalso. rewrite Eg in Hng. destruct Hng as [<-|Hng]; [apply Hp; reflexivity|tauto].
    - eexists. split; [apply (avf_vrec _ _ _ _ _ _ F2)|]. simpl. apply (avf_anew _ _ _ _ _ _ F2).
    - rewrite (avf_par _ _ _ _ _ _ F2); [discriminate|]. lia.
    - rewrite (avf_next _ _ _ _ _ _ F2). fold B lo. lia. }
  change (fun (acc : option heap) (n : node) => match acc with Some hh => match n_parent n with Some par => replay_into hh (n_t n) (if Nat.eqb par m then u else par) | None => Some hh end | None => None end)
    with (ss_step m u).
  assert (Hnr : forall n, In n g2 -> n_parent n <> None).
  { intros n Hn Hp. assert (Hng : In n g) by (rewrite Eg; simpl; auto).
    pose proof (g_parent h0 m h1 g tb L DS n Hng) as Q. rewrite Hp in Q. subst n.
    pose proof (i_tnd _ _ _ _ _ _ I) as ND. rewrite Eg in ND. simpl in ND. inversion ND. apply H1. change m with (n_t (m, h_next h0, None)). now apply in_map. }
  destruct (shape_fold h0 m h1 g tb L DS u g2 [(m, p, None)] h9 Eg Hnr N9) as (h10 & E10 & N10).
  rewrite Eg. cbn [fold_left ss_step n_parent snd]. rewrite E10. cbn [bind].
  destruct (existsb _ _); [eauto|].
  destruct (ns_u _ _ _ _ _ _ _ N10) as (ru & Eru & _). rewrite Eru. cbn [bind].
  pose proof (ns_m _ _ _ _ _ _ _ N10) as Hm10. destruct (getT h10 m) as [tm|]; [|congruence]. cbn [bind].
  destruct (t_creator ru); eauto. Qed.

(* ------------------------------------------------------------------ non-vacuity: ex_h (HeapEx.v), shape assignment on the view 7 (which has the view 12) *)
Example ex_shape_hyps : getT ex_h 7 <> None /\ (exists r, getT ex_h 7 = Some r /\ getA ex_h (t_data r) <> None /\
  exists b c oc par, t_base r = Some b /\ t_creator r = Some c /\ getO ex_h c = Some oc /\ hd_error (o_vars oc) = Some par /\ getT ex_h par <> None).
Proof. vm_compute. split; [discriminate|]. eexists. split; [reflexivity|]. split; [discriminate|].
  do 4 eexists. repeat split; try reflexivity. discriminate. Qed.
Example ex_shape_runs : exists h', set_shape ex_h 7 false = Some (Done h') /\
  (* the old consumers 17 = f(7) and 23 = f(12, 2) now read the placeholders 27, 28 *)
  map (fun o => option_map o_vars (getO h' o)) [17; 23] = [Some [27]; Some [28; 2]] /\
  map (fun t => option_map (fun r => (t_creator r, t_data r)) (getT h' t)) [27; 28] =
  map (fun t => option_map (fun r => (t_creator r, t_data r)) (getT ex_h t)) [7; 12].
Proof. eexists. split; [vm_compute; reflexivity|]. vm_compute. auto. Qed.

Print Assumptions set_shape_not_stuck.
Print Assumptions set_shape_old_consumers.
