(* HeapCor: readable corollaries of the theorems of task L.  The statements use only the vocabulary of Model/Heap.v plus
   [wf], [same_tables], [stmt_ok] / [run_ok]. *)
From Coq Require Import List Arith Bool PeanoNat Lia.
Import ListNotations.
From MG Require Import Model.Heap.
From MG.Proofs Require Import HeapP1 HeapWfb HeapP2 HeapP3 HeapP4 HeapP5 HeapP6 HeapP7 HeapP8 HeapP9 HeapP10 HeapP11 HeapP12 HeapP13 HeapP14
               HeapP15 HeapP16 HeapP17 HeapP18 HeapP19 HeapP20 HeapP21 HeapP22 HeapP23 HeapP24 HeapP25 HeapBuf.

(* ------------------------------------------------------------------ A1 *)
Theorem reachable_failed_inplace_noop : forall ss h, run_ok empty_heap ss -> run empty_heap ss = Some h ->
  forall m k inputs masked out, inplace h m k inputs masked true = Some out ->
  exists h', out = Raised h' /\ same_tables h h'.
Proof. intros ss h OK R m k inputs masked out H. eapply inplace_failure_noop; eauto. eapply wf_reachable; eauto. Qed.

Theorem reachable_raised_inplace_noop : forall ss h, run_ok empty_heap ss -> run empty_heap ss = Some h ->
  forall m k inputs masked fails h', inplace h m k inputs masked fails = Some (Raised h') -> same_tables h h'.
Proof. intros ss h OK R m k inputs masked fails h' H. eapply inplace_raised_noop; eauto. eapply wf_reachable; eauto. Qed.

(* ------------------------------------------------------------------ A2 *)
Lemma Forall2_map_r {A B} (R : A -> B -> Prop) (f : A -> B) l : (forall x, In x l -> R x (f x)) -> Forall2 R l (map f l).
Proof. induction l; simpl; intros H; constructor; auto. Qed.

(* every old operation keeps its class; each of its variables is kept, or replaced by a NEW tensor that carries the old creator,
   the old array and the old consumer set: the pre-mutation values stay visible to the old graph *)
Theorem success_old_consumers : forall h m k inputs masked h', wf h -> (forall i, In i inputs -> getT h i <> None) ->
  inplace h m k inputs masked false = Some (Done h') ->
  forall o r0, getO h o = Some r0 ->
  exists r1, getO h' o = Some r1 /\ o_kind r1 = o_kind r0 /\ o_keep r1 = o_keep r0 /\
    Forall2 (fun v v' => v' = v \/
                         (h_next h <= v' /\ exists r rp, getT h v = Some r /\ getT h' v' = Some rp /\
                                                        t_creator rp = t_creator r /\ t_data rp = t_data r /\ t_ops rp = t_ops r))
            (o_vars r0) (o_vars r1).
Proof. intros h m k inputs masked h' W Hin H o r0 Eo.
  destruct (inplace_success_spec h m k inputs masked h' W Hin H)
    as (tm0 & r2 & pb & h3 & root & h4 & g & tb & L & nm & path & h6 & Hm & P & Hroot & D & DS & Hnm & Hnmt & EP & SF & Ham & Hops & Hph & Hut).
  eexists. split; [apply (Hops o r0 Eo)|]. simpl. split; auto. split; auto.
  apply Forall2_map_r. intros v Hv.
  pose proof (proj1 (wf_oper _ W _ _ Eo) v Hv) as Hvlt.
  unfold sigma. destruct (mem o (ops_of h v)); auto. unfold ph_if_exists.
  destruct (gfind g v) as [n|] eqn:Eg; auto. right.
  destruct (gfind_In _ _ _ Eg) as (Hn & Hvn).
  pose proof (i_p _ _ _ _ _ _ (ds_inv _ _ _ _ _ _ DS) n Hn) as Hp. rewrite (pr_next _ _ _ _ _ _ P) in Hp.
  destruct Hvn as [-> | ->]; [|lia].
  split; [lia|]. destruct (Hph n Hn) as (r & rp & A1 & A2 & A3 & A4 & A5). exists r, rp. auto. Qed.

(* ------------------------------------------------------------------ A3 *)
(* after a successful in-place operation the target's array object is new, and no array of the old heap shares its buffer;
   [wf] does not constrain the buffer field of arrays, hence the explicit hypothesis that the old buffers are below h_next
   (an invariant of reachable heaps: see the second statement) *)
Theorem success_target_fresh_array : forall h m k inputs masked h', wf h -> (forall i, In i inputs -> getT h i <> None) ->
  (forall a ra0, getA h a = Some ra0 -> a_buf ra0 < h_next h) ->
  inplace h m k inputs masked false = Some (Done h') ->
  exists rm ra, getT h' m = Some rm /\ getA h' (t_data rm) = Some ra /\
    (forall a, getA h a <> None -> a <> t_data rm) /\ (forall a ra0, getA h a = Some ra0 -> a_buf ra0 <> a_buf ra).
Proof. intros h m k inputs masked h' W Hin HAB H.
  destruct (inplace_success_spec h m k inputs masked h' W Hin H)
    as (tm0 & r2 & pb & h3 & root & h4 & g & tb & L & nm & path & h6 & Hm & P & Hroot & D & DS & Hnm & Hnmt & EP & SF & Ham & Hops & Hph & Hut).
  pose proof (next34 h3 root h4 g tb L DS) as N34. pose proof (pr_next _ _ _ _ _ _ P) as N3.
  assert (Hold : forall a, getA h a <> None -> a < h_next h).
  { intros a Ha. destruct (getA h a) eqn:E; [|congruence]. apply (wf_lt_arr _ W). eapply get_keys; exact E. }
  assert (Hfin : forall rm ra, getT h' m = Some rm -> getA h' (t_data rm) = Some ra -> h_next h4 <= t_data rm -> a_buf ra = S (h_next h4) ->
            exists rm ra, getT h' m = Some rm /\ getA h' (t_data rm) = Some ra /\
              (forall a, getA h a <> None -> a <> t_data rm) /\ (forall a ra0, getA h a = Some ra0 -> a_buf ra0 <> a_buf ra)).
  { intros rm ra E1 E2 E3 E4. exists rm, ra. split; auto. split; auto. split.
    - intros a Ha Q. apply Hold in Ha. lia.
    - intros a ra0 Ea Q. apply HAB in Ea. lia. }
  apply gfind_In in Hnm. destruct Hnm as (Hnmg & _).
  pose proof (g_parent h3 root h4 g tb L DS nm Hnmg) as HP.
  destruct (n_parent nm) as [par|] eqn:Epar.
  - destruct (sf_members _ _ _ _ _ _ _ _ _ _ _ _ _ _ SF nm par Hnmg Epar) as (rc & oc & kd & ra & M1 & M2 & M3 & M4 & M5 & M6 & M7 & M8 & M9 & M10 & M11 & M12).
    rewrite Hnmt in M1. eapply Hfin; eauto.
  - subst nm. unfold n_t in Hnmt; simpl in Hnmt. subst m.
    destruct (sf_root _ _ _ _ _ _ _ _ _ _ _ _ _ _ SF) as (rs & oc & R1 & R2 & R3 & R4 & R5 & _).
    pose proof (sf_rootarr _ _ _ _ _ _ _ _ _ _ _ _ _ _ SF) as RA. rewrite <- R5 in RA.
    eapply Hfin; eauto; [rewrite R5; lia|simpl; now rewrite R5]. Qed.

Theorem reachable_success_target_fresh_array : forall ss h, run_ok empty_heap ss -> run empty_heap ss = Some h ->
  forall m k inputs masked h', (forall i, In i inputs -> getT h i <> None) ->
  inplace h m k inputs masked false = Some (Done h') ->
  exists rm ra, getT h' m = Some rm /\ getA h' (t_data rm) = Some ra /\
    (forall a, getA h a <> None -> a <> t_data rm) /\ (forall a ra0, getA h a = Some ra0 -> a_buf ra0 <> a_buf ra).
Proof. intros ss h OK R m k inputs masked h' Hin H.
  eapply success_target_fresh_array; eauto.
  - eapply wf_reachable; eauto. - apply (AB_reachable ss h OK R). Qed.

(* ------------------------------------------------------------------ A4 *)
(* the family is the set of tensors for which a placeholder is made: the members of the graph built on the (normalised) base *)
Theorem success_outside_untouched : forall h m k inputs masked h', wf h -> (forall i, In i inputs -> getT h i <> None) ->
  inplace h m k inputs masked false = Some (Done h') ->
  exists h3 root h4 g,
    (forall t, t <> m -> t <> root -> getT h3 t = getT h t) /\ h_o h3 = h_o h /\ h_lst h3 = h_lst h /\
    dup h3 root = Some (h4, g) /\
    forall t r, getT h t = Some r -> ~ In t (map n_t g) -> ~ In t inputs -> getT h' t = Some r.
Proof. intros h m k inputs masked h' W Hin H.
  destruct (inplace_success_spec h m k inputs masked h' W Hin H)
    as (tm0 & r2 & pb & h3 & root & h4 & g & tb & L & nm & path & h6 & Hm & P & Hroot & D & DS & Hnm & Hnmt & EP & SF & Ham & Hops & Hph & Hut).
  exists h3, root, h4, g. split; [|split; [apply (pr_o _ _ _ _ _ _ P)|split; [apply (pr_lst _ _ _ _ _ _ P)|split; auto]]].
  intros t N1 N2. pose proof (pr_b _ _ _ _ _ _ P) as PB. destruct pb as [[gb vb]|].
  - destruct PB as (b & tb' & B1 & _ & _ & _ & _ & _ & _ & B6). rewrite B1 in Hroot. subst root. auto.
  - destruct PB as (_ & B6). auto. Qed.

Theorem success_wf : forall h m k inputs masked h', wf h -> (forall i, In i inputs -> getT h i <> None) ->
  inplace h m k inputs masked false = Some (Done h') -> wf h'.
Proof. intros h m k inputs masked h' W Hin H. apply (wf_inplace h m k inputs masked false (Done h') W Hin H). Qed.

(* ------------------------------------------------------------------ A5 *)
Theorem reachable_inplace_never_stuck : forall ss h, run_ok empty_heap ss -> run empty_heap ss = Some h ->
  forall m k inputs masked fails, getT h m <> None -> (forall i, In i inputs -> getT h i <> None) ->
  inplace h m k inputs masked fails <> None.
Proof. intros ss h OK R m k inputs masked fails Hm Hin.
  destruct (getT h m) as [tm0|] eqn:E; [|congruence].
  destruct (inplace_not_stuck h m k inputs masked fails tm0 (wf_reachable ss h OK R) E Hin) as (out & ->). discriminate. Qed.

Print Assumptions reachable_failed_inplace_noop.
Print Assumptions success_old_consumers.
Print Assumptions reachable_success_target_fresh_array.
Print Assumptions success_outside_untouched.
Print Assumptions reachable_inplace_never_stuck.
