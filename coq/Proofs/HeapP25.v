(* HeapP25: T4 inplace_success, stated for the heap h of the statement. *)
From Coq Require Import List Arith Bool PeanoNat Lia.
Import ListNotations.
From MG Require Import Model.Heap.
From MG.Proofs Require Import HeapP1 HeapWfb HeapP2 HeapP3 HeapP4 HeapP5 HeapP6 HeapP7 HeapP8 HeapP9 HeapP10 HeapP11 HeapP12 HeapP13 HeapP14
               HeapP15 HeapP16 HeapP17 HeapP18 HeapP19 HeapP20 HeapP21 HeapP22 HeapP23 HeapP24.

(* the preamble does not change who is registered where *)
Lemma Preamble_ops_of h m tm0 h3 r2 pb v : getT h m = Some tm0 -> Preamble h m tm0 h3 r2 pb -> ops_of h3 v = ops_of h v.
Proof. intros Hm P. unfold ops_of, set_of. rewrite (pr_set _ _ _ _ _ _ P).
  destruct (Nat.eq_dec v m) as [->|Nm].
  - rewrite (pr_m _ _ _ _ _ _ P), Hm. destruct (pr_r2 _ _ _ _ _ _ P) as ((_ & _ & -> & _) & _). reflexivity.
  - pose proof (pr_b _ _ _ _ _ _ P) as PB. destruct pb as [[gb vb]|].
    + destruct PB as (b & tb & B1 & B2 & B3 & B4 & _ & _ & B5 & B6).
      destruct (Nat.eq_dec v b) as [->|Nb]; [rewrite B5, B4; reflexivity|]. rewrite B6; auto.
    + destruct PB as (_ & B6). rewrite B6; auto. Qed.

Lemma Preamble_sigma h m tm0 h3 r2 pb g o v : getT h m = Some tm0 -> Preamble h m tm0 h3 r2 pb -> sigma h3 g o v = sigma h g o v.
Proof. intros Hm P. unfold sigma. now rewrite (Preamble_ops_of h m tm0 h3 r2 pb v Hm P). Qed.

(* a tensor of h is, in h3, the same up to _base / gradient flags *)
Lemma Preamble_tensor h m tm0 h3 r2 pb t r : getT h m = Some tm0 -> Preamble h m tm0 h3 r2 pb -> getT h t = Some r ->
  exists r3, getT h3 t = Some r3 /\ weaker r r3 /\ t_data r3 = t_data r /\
             (t <> m -> t <> (match t_base r2 with Some b => b | None => m end) -> r3 = r).
Proof. intros Hm P E. destruct (Nat.eq_dec t m) as [->|Nm].
  - rewrite Hm in E. inversion E; subst r. exists r2. split; [apply (pr_m _ _ _ _ _ _ P)|].
    destruct (pr_r2 _ _ _ _ _ _ P) as (Wk & D & _). split; auto. split; auto. congruence.
  - pose proof (pr_b _ _ _ _ _ _ P) as PB. destruct pb as [[gb vb]|].
    + destruct PB as (b & tb & B1 & B2 & B3 & B4 & _ & _ & B5 & B6). rewrite B1.
      destruct (Nat.eq_dec t b) as [->|Nb].
      * rewrite B4 in E. inversion E; subst r. exists (with_grads tb false false). split; auto. split.
        { unfold weaker; simpl. auto 10. } split; [reflexivity|congruence].
      * exists r. rewrite B6; auto. split; auto. split; [apply weaker_refl|auto].
    + destruct PB as (_ & B6). exists r. rewrite B6; auto. split; auto. split; [apply weaker_refl|auto]. Qed.

Theorem inplace_success_spec h m k inputs masked h' : wf h -> (forall i, In i inputs -> getT h i <> None) ->
  inplace h m k inputs masked false = Some (Done h') ->
  exists tm0 r2 pb h3 root h4 g tb L nm path h6,
    getT h m = Some tm0 /\ Preamble h m tm0 h3 r2 pb /\ root = (match t_base r2 with Some b => b | None => m end) /\
    dup h3 root = Some (h4, g) /\ DupSpec h3 root h4 g tb L /\ gfind g m = Some nm /\ n_t nm = m /\ path_to_base g m = Some path /\
    (* everything relative to h3 and the graph: root, members, lists, placeholders, operations *)
    SuccFacts h3 root h4 g k inputs masked nm h6 h' (h_next h4) (S (h_next h4)) r2 path /\
    getA h (h_next h4) = None /\
    (* (i) the old operations read the placeholders; the placeholders keep creator and array *)
    (forall o r0, getO h o = Some r0 -> getO h' o = Some (mkO (o_kind r0) (map (sigma h g o) (o_vars r0)) (o_keep r0))) /\
    (forall n, In n g -> exists r0 rp, getT h (n_t n) = Some r0 /\ getT h' (n_p n) = Some rp /\
                                       t_creator rp = t_creator r0 /\ t_data rp = t_data r0 /\ t_ops rp = t_ops r0) /\
    (* (iv) tensors outside the family that are not operands are untouched *)
    (forall t r, getT h t = Some r -> ~ In t (map n_t g) -> ~ In t inputs -> getT h' t = Some r).
Proof. intros W Hin H. rewrite inplace_unfold in H.
  apply bind_Some in H. destruct H as (tm0 & Hm & H).
  apply bind_Some in H. destruct H as (h1 & NG & H).
  apply bind_Some in H. destruct H as (tm1 & Hm1 & H).
  apply bind_Some in H. destruct H as (h2 & H2 & H).
  apply bind_Some in H. destruct H as (tm2 & Hm2 & H).
  apply bind_Some in H. destruct H as ([h3 pb] & HB & H).
  pose proof (preamble_spec h m tm0 h1 tm1 h2 tm2 h3 pb W Hm NG Hm1 H2 Hm2 HB) as P.
  cbv zeta in H.
  remember (match t_base tm2 with Some b => b | None => m end) as root eqn:Hroot.
  destruct (dup h3 root) as [[h4 g]|] eqn:D; [|discriminate].
  assert (Hfail : forall pr pb', inplace_fail h4 g m pr pb' = Some (Done h') -> False).
  { intros pr pb' F. unfold inplace_fail in F.
    apply bind_Some in F. destruct F as (? & _ & F). apply bind_Some in F. destruct F as (? & _ & F). discriminate. }
  destruct (path_to_base g m) as [path|] eqn:EP; [|exfalso; eapply Hfail; eauto].
  destruct (new_array h4 None None) as [h5 am] eqn:NA.
  apply bind_Some in H. destruct H as ([h6 at_] & E6 & H).
  destruct (negb (path_check h6 root path)); [discriminate|].
  pose proof (pr_wf _ _ _ _ _ _ P) as W3.
  destruct (dup_spec h3 root h4 g W3 D) as (tb & L & DS).
  pose proof (FZ_h4 h3 root h4 g tb L W3 DS) as F4.
  pose proof (FZ_new_array root h4 g h4 None None h5 am F4 NA) as F5.
  pose proof (new_array_spec _ _ _ _ _ NA) as (N1 & N2 & N3 & N4 & N5 & N6 & N7 & N8).
  assert (Ham5 : getA h5 am = Some (mkA None (S am))).
  { clear - NA. unfold new_array, fresh in NA. simpl in NA. inversion NA. unfold getA; simpl. apply get_put_eq. }
  assert (F6 : FZ root h4 g h6 /\ getA h6 at_ <> None /\ getA h6 am = Some (mkA None (S am)) /\ h_t h6 = h_t h4 /\ (t_base tm2 = None -> at_ = am)).
  { destruct (Nat.eqb m root) eqn:Q.
    - inversion E6; subst h6 at_. split; [exact F5|]. split; [exact N7|]. split; [exact Ham5|]. split; [exact N1|]. auto.
    - split; [eapply FZ_view_array; eauto|].
      pose proof (view_array_spec _ _ _ _ E6) as (V1 & V2 & V3 & V4 & V5 & V6 & V7 & V8). split; auto.
      split; [rewrite V8; auto; rewrite V5, N5; lia|]. split; [congruence|].
      intros Eb. rewrite Eb in Hroot. subst root. rewrite Nat.eqb_refl in Q. discriminate. }
  destruct F6 as (F6 & Hat & Ham & Ht6 & Hatam).
  pose proof EP as EP'. unfold path_to_base in EP'. apply bind_Some in EP'. destruct EP' as (nm & Hnm & _).
  assert (Hm3 : getT h3 m = Some tm2) by apply (pr_m _ _ _ _ _ _ P).
  assert (Hnm_t : n_t nm = m).
  { destruct (gfind_In _ _ _ Hnm) as (Hn & [Q|Ep]); [auto|].
    exfalso. apply (getT_lt _ _ _ W3) in Hm3. pose proof (i_p _ _ _ _ _ _ (ds_inv _ _ _ _ _ _ DS) nm Hn). lia. }
  assert (HmX : In m (map n_t g)).
  { rewrite <- Hnm_t. apply in_map. apply gfind_In in Hnm. tauto. }
  assert (Hin3 : forall i, In i inputs -> getT h3 i <> None).
  { intros i Hi. specialize (Hin i Hi). destruct (getT h i) as [ri|] eqn:Ei; [|congruence].
    assert (In i (keys (h_t h3))) by (rewrite (pr_keys _ _ _ _ _ _ P); eapply get_keys; exact Ei).
    apply keys_get in H0. destruct H0 as (ri3 & E3). unfold getT. congruence. }
  assert (U6 : UT h3 h4 g inputs h6).
  { intros q _ _ _. unfold getT. now rewrite Ht6. }
  rewrite N5 in Ham.
  destruct (success_spec h3 root h4 g tb L W3 DS m k inputs masked nm h6 tm2 am at_ (S (h_next h4)) path
              F6 U6 Hat ltac:(rewrite N5; exact Ham) Hatam Hm3 Hroot Hnm HmX Hin3 (path_to_base_in g m path EP))
    as (h12 & E12 & SF).
  rewrite E12 in H. inversion H; subst h12. clear H.
  rewrite N5 in SF.
  exists tm0, tm2, pb, h3, root, h4, g, tb, L, nm, path, h6.
  split; auto. split; auto. split; auto. split; auto. split; auto. split; auto. split; auto. split; auto. split; auto.
  pose proof (next34 h3 root h4 g tb L DS) as N34. pose proof (pr_next _ _ _ _ _ _ P) as Nh3.
  split.
  { apply get_None_keys. intros Hk. apply (wf_lt_arr _ W) in Hk. lia. }
  split.
  { intros o r0 Eo. assert (Eo3 : getO h3 o = Some r0) by (unfold getO; rewrite (pr_o _ _ _ _ _ _ P); exact Eo).
    rewrite (sf_ops _ _ _ _ _ _ _ _ _ _ _ _ _ _ SF o _ (dup_routes_ops h3 root h4 g tb L DS o r0 Eo3)).
    f_equal. f_equal. apply map_ext. intros v. apply (Preamble_sigma h m tm0 h3 tm2 pb g o v Hm P). }
  split.
  { intros n Hn. destruct (sf_ph _ _ _ _ _ _ _ _ _ _ _ _ _ _ SF n Hn) as (rp4 & rp & A & B & (Wc & _ & Wo & _) & Dd).
    destruct (dup_routes_placeholders h3 root h4 g tb L W3 DS n Hn) as (r0 & rp4' & C1 & C2 & C3 & C4 & C5 & _).
    rewrite A in C2. inversion C2; subst rp4'.
    assert (exists rh, getT h (n_t n) = Some rh) as (rh & Erh).
    { assert (In (n_t n) (keys (h_t h))) by (rewrite <- (pr_keys _ _ _ _ _ _ P); eapply get_keys; exact C1).
      apply keys_get in H. exact H. }
    destruct (Preamble_tensor h m tm0 h3 tm2 pb (n_t n) rh Hm P Erh) as (r3 & E3 & (Vc & _ & Vo & _) & Vd & _).
    rewrite C1 in E3. inversion E3; subst r3.
    exists rh, rp. split; auto. split; auto. split; [congruence|]. split; congruence. }
  intros t r Et HtX Hti.
  destruct (Preamble_tensor h m tm0 h3 tm2 pb t r Hm P Et) as (r3 & E3 & _ & _ & Hsame).
  assert (r3 = r).
  { apply Hsame.
    - intros ->. tauto.
    - rewrite <- Hroot. intros ->. apply HtX.
      destruct (ds_head _ _ _ _ _ _ DS) as (g2 & Eg). rewrite Eg. simpl. auto. }
  subst r3.
  rewrite (sf_ut _ _ _ _ _ _ _ _ _ _ _ _ _ _ SF t); auto.
  - rewrite (dup_routes_originals h3 root h4 g tb L DS); auto. eapply getT_lt; eauto.
  - eapply getT_lt; eauto. Qed.
