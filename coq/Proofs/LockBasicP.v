From Coq Require Import List Arith Bool Lia.
Import ListNotations.
From MG Require Import Model.LockMgr.

Lemma nth_upd_arr_same l i f : i < length l -> nth i (upd_arr l i f) dead = f (nth i l dead).
Proof.
  revert i; induction l as [|a l IH]; intros [|i] H; simpl in *; try lia; [reflexivity|]. apply IH. lia.
Qed.

(* lock_arr_writeability always leaves the array read-only (whatever the tables say) *)
Theorem lock_makes_readonly s i force : i < length (arrs s) -> a_wr (get (lock s i force) i) = false.
Proof.
  intros Hi. unfold lock.
  destruct (negb (tracked s i) && (negb force && negb (a_wr (get s i)) && _)) eqn:E.
  - apply andb_prop in E. destruct E as [_ E]. apply andb_prop in E. destruct E as [E _].
    apply andb_prop in E. destruct E as [_ E]. apply negb_true_iff in E. exact E.
  - destruct (negb (tracked s i)); unfold get; simpl; rewrite nth_upd_arr_same by exact Hi; reflexivity.
Qed.
