(* HeapP9: DuplicatingGraph never gets stuck on a well-formed heap (enough fuel, no gradient in the family);
   T1 dup_restore in full; the failing in-place statement is never stuck (T6, fails = true). *)
From Coq Require Import List Arith Bool PeanoNat Lia.
Import ListNotations.
From MG Require Import Model.Heap.
From MG.Proofs Require Import HeapP1 HeapWfb HeapP2 HeapP3 HeapP4 HeapP5 HeapP6 HeapP7 HeapP8.

(* ------------------------------------------------------------------ the fuel of dup is enough *)
Lemma fits_anc h : wf h -> forall f t anc, NoDup anc ->
  (forall a, In a anc -> In a (keys (h_t h)) /\ a < t) ->
  length (keys (h_t h)) < f + length anc -> fits f h t = true.
Proof. intros W. induction f as [|f IH]; intros t anc ND HA HL.
  - exfalso. simpl in HL. assert (length anc <= length (keys (h_t h))); [|lia].
    apply NoDup_incl_length; auto. intros a Ha. apply HA; auto.
  - simpl. apply forallb_forall. intros c Hc. apply fkids_kids in Hc.
    assert (Htc : t < c) by (eapply kid_gt; eauto).
    apply (IH c (t :: anc)).
    + constructor; auto. intros Hin. apply HA in Hin. lia.
    + intros a [<-|Ha].
      * split; auto. apply kids_spec in Hc. destruct Hc as (r & Er & _). eapply get_keys; exact Er.
      * destruct (HA a Ha). split; auto. lia.
    + simpl. lia. Qed.

Lemma fits_dup_fuel h t : wf h -> fits (dup_fuel h) h t = true.
Proof. intros W. apply (fits_anc h W (dup_fuel h) t []).
  - constructor. - intros a []. - unfold dup_fuel, keys. rewrite map_length. simpl. lia. Qed.

(* ------------------------------------------------------------------ dup_rec succeeds *)
Section DupEx.
Variables (h0 : heap) (bph : id) (rb : option id).
Hypothesis W : wf h0.

Local Notation Inv := (Inv h0 bph rb).
Local Notation bb := (bb bph rb).

Lemma make_placeholder_ex h g L c rc bbv : Inv h g L -> getT h0 c = Some rc -> t_grad rc = false ->
  exists h2 p, make_placeholder h c bbv = Some (h2, p).
Proof. intros I Hc Hg. assert (Hclt : c < h_next h0) by (eapply getT_lt; eauto).
  unfold make_placeholder. rewrite (i_tget _ _ _ _ _ _ I), Hc by auto. simpl. rewrite Hg. unfold fresh.
  match goal with |- context [reroute ?hh c ?p] => destruct (reroute_some hh c p rc) as (h3 & R) end.
  - rewrite getT_setT. pose proof (i_next _ _ _ _ _ _ I).
    destruct (Nat.eqb (h_next h) c) eqn:E; [apply Nat.eqb_eq in E; lia|].
    unfold getT; simpl. fold (getT h c). rewrite (i_tget _ _ _ _ _ _ I); auto.
  - rewrite R. simpl. eauto. Qed.

Definition dup_rec_ex_stmt (F : nat) : Prop :=
  forall t par pt r0 h g L,
  Inv h g L -> In (t, pt, par) g -> getT h0 t = Some r0 ->
  getT h pt = Some (with_base r0 (bb (t, pt, par))) ->
  (forall x, In x (map fst (tl (pre F h0 par t))) -> ~ In x (map n_t g)) ->
  fits F h0 t = true ->
  exists h' g', dup_rec F bph t (h, g) = Some (h', g').

Lemma fkid_nograd t c : In c (fkids h0 t) -> exists rc, getT h0 c = Some rc /\ t_grad rc = false.
Proof. intros Hc. unfold fkids in Hc. apply filter_In in Hc. destruct Hc as [Hk Hb].
  destruct (kid_wf _ _ _ W Hk) as (_ & rc & Erc & H). exists rc. split; auto.
  apply H. unfold hasbase in Hb. rewrite Erc in Hb. destruct (t_base rc); [discriminate|discriminate]. Qed.

Lemma fold_ex f t pt par r0 : dup_rec_ex_stmt f ->
  getT h0 t = Some r0 ->
  forall cs2 h g L,
  (forall c, In c cs2 -> In c (fkids h0 t)) ->
  NoDup (map fst (flat_map (pre f h0 (Some t)) cs2)) ->
  Inv h g L -> In (t, pt, par) g ->
  (forall x, In x (map fst (flat_map (pre f h0 (Some t)) cs2)) -> ~ In x (map n_t g)) ->
  forallb (fits f h0) cs2 = true ->
  exists h' g', fold_left (FF f bph t) cs2 (Some (h, g)) = Some (h', g').
Proof. intros IHf Ht. induction cs2 as [|c cs2 IHcs]; intros h g L Hsub ND I Hin Hdis Hfit.
  - simpl. eauto.
  - simpl in Hfit. apply andb_true_iff in Hfit. destruct Hfit as [Hfc Hfit].
    assert (Hf0 : f <> 0) by (intros ->; discriminate).
    assert (Hcf : In c (fkids h0 t)) by (apply Hsub; simpl; auto).
    destruct (fkid_nograd t c Hcf) as (rc & Hrc & Hgc).
    assert (Htc : t < c) by (eapply kid_gt; eauto using fkids_kids).
    simpl in ND. rewrite map_app in ND. apply NoDup_app_inv in ND. destruct ND as (ND1 & ND2 & ND3).
    assert (Hcn : ~ In c (map n_t g)).
    { apply Hdis. simpl. rewrite map_app, in_app_iff. left. now apply pre_self. }
    destruct (make_placeholder_ex h g L c rc (Some bph) I Hrc Hgc) as (h2 & p & MP).
    assert (Hparin : forall q, Some t = Some q -> In q (map n_t g)).
    { intros q Eq. inversion Eq; subst q. change t with (n_t (t, pt, par)). now apply in_map. }
    destruct (step_placeholder h0 bph rb W h g L c rc (Some t) (Some bph) h2 p I Hrc Hcn MP eq_refl Hparin)
      as (Ep & Hn2 & Hl2 & I2 & Hp2 & Hsame2).
    assert (Hdis2 : forall x, In x (map fst (tl (pre f h0 (Some t) c))) -> ~ In x (map n_t (g ++ [(c, p, Some t)]))).
    { intros x Hx. rewrite map_app, in_app_iff. intros [H|[H|[]]].
      - revert H. apply Hdis. simpl. rewrite map_app, in_app_iff. left. now apply in_map_tl.
      - unfold n_t in H; simpl in H. subst x. apply (pre_gt _ _ _ _ _ W) in Hx. lia. }
    assert (Hin2 : In (c, p, Some t) (g ++ [(c, p, Some t)])) by (apply in_or_app; simpl; auto).
    destruct (IHf c (Some t) p rc h2 (g ++ [(c, p, Some t)]) L I2 Hin2 Hrc Hp2 Hdis2 Hfc) as (h3 & g3 & DR).
    simpl. rewrite MP, DR.
    destruct (dup_rec_inv h0 bph rb W f c (Some t) p rc h2 (g ++ [(c, p, Some t)]) L h3 g3 I2 Hin2 Hrc Hp2 Hdis2 DR)
      as (L1 & g21 & Eg3 & I3 & Htp1 & Hfit1 & Hsame3 & Hfin_c & Hfin21 & Hnx3).
    assert (Hin3 : In (t, pt, par) g3) by (subst g3; apply in_or_app; left; apply in_or_app; auto).
    assert (Hng3 : map n_t g3 = map n_t g ++ map fst (pre f h0 (Some t) c)).
    { subst g3. rewrite !map_app. simpl. rewrite <- app_assoc. f_equal. simpl.
      rewrite (pre_cons f h0 (Some t) c Hf0). simpl. f_equal.
      rewrite <- Htp1. rewrite map_map. reflexivity. }
    apply (IHcs h3 g3 (L ++ L1)); auto.
    + intros; apply Hsub; simpl; auto.
    + intros x Hx. rewrite Hng3, in_app_iff. intros [H|H].
      * revert H. apply Hdis. simpl. rewrite map_app, in_app_iff. right. exact Hx.
      * eapply ND3; eauto. Qed.

Lemma dup_rec_ex F : dup_rec_ex_stmt F.
Proof. induction F as [|f IHf]; intros t par pt r0 h g L I Hin Ht Hpt Hdis Hfit; [discriminate|].
  rewrite dup_rec_S.
  assert (Htlt : t < h_next h0) by (eapply getT_lt; eauto).
  rewrite (i_tget _ _ _ _ _ _ I), Ht by auto. simpl.
  unfold hb_filter. rewrite (Inv_cs h0 bph rb W h g L t r0 I Ht).
  destruct (fkids h0 t) as [|c0 cs0] eqn:Ecs.
  - assert (Hgf : gfind g t = Some (t, pt, par)) by apply (phx_in h0 bph rb h g L (t, pt, par) I Hin).
    rewrite Hgf. simpl. unfold n_p at 1; simpl. rewrite Hpt. simpl. eauto.
  - rewrite <- Ecs in *.
    assert (NDp : NoDup (map fst (flat_map (pre f h0 (Some t)) (fkids h0 t)))).
    { pose proof (pre_NoDup (S f) h0 par t W) as H. simpl in H. now inversion H. }
    simpl in Hfit.
    destruct (fold_ex f t pt par r0 IHf Ht (fkids h0 t) h g L (fun c H => H) NDp I Hin Hdis Hfit) as (h1 & g1 & Hfold).
    rewrite Hfold. simpl.
    destruct (fold_inv h0 bph rb W f t pt par r0 (dup_rec_inv h0 bph rb W f) Ht (fkids h0 t) h g L h1 g1 (fun c H => H) NDp I Hin Hdis Hfold)
      as (L1 & g2 & Eg1 & I1 & Htp & Hfit' & Hsame1 & Hfin2 & Hall & Hnx1).
    assert (Hin1 : In (t, pt, par) g1) by (subst g1; apply in_or_app; auto).
    assert (Hgf : gfind g1 t = Some (t, pt, par)) by apply (phx_in h0 bph rb h1 g1 _ (t, pt, par) I1 Hin1).
    rewrite Hgf. simpl.
    rewrite phs_of_some.
    2:{ intros c Hc. apply Hall in Hc. apply in_map_iff in Hc. destruct Hc as (n & <- & Hn).
        rewrite (phx_in h0 bph rb h1 g1 _ n I1 Hn). discriminate. }
    simpl. unfold n_p at 1; simpl.
    rewrite (Hsame1 (t, pt, par) Hin : getT h1 pt = getT h pt), Hpt. simpl. eauto. Qed.

End DupEx.

Theorem dup_exists h b tb : wf h -> getT h b = Some tb -> t_grad tb = false -> exists h1 g, dup h b = Some (h1, g).
Proof. intros W Hb Hg. unfold dup. rewrite Hb. simpl.
  pose (bph := h_next h). pose (rb := t_base tb).
  destruct (make_placeholder_ex h bph rb W h [] [] b tb (t_base tb) (Inv_init h bph rb) Hb Hg) as (h1' & p & MP).
  rewrite MP. simpl.
  destruct (step_placeholder h bph rb W h [] [] b tb None (t_base tb) h1' p (Inv_init h bph rb) Hb (fun H => H) MP eq_refl (fun q E => match E with end))
    as (Ep & Hn & Hl & I1 & Hp & Hsame).
  simpl in I1. subst p.
  apply (dup_rec_ex h bph rb W (dup_fuel h) b None (h_next h) tb h1' [(b, h_next h, None)] [] I1 (or_introl eq_refl) Hb Hp).
  - intros x Hx [H|[]]. unfold n_t in H; simpl in H. subst x. apply (pre_gt _ _ _ _ _ W) in Hx. lia.
  - apply fits_dup_fuel; auto. Qed.

(* ------------------------------------------------------------------ T1 *)
Theorem dup_restore h b tb : wf h -> getT h b = Some tb -> t_grad tb = false ->
  exists h1 g h2, dup h b = Some (h1, g) /\ restore h1 g = Some h2 /\ same_tables h (free_placeholders h2 g).
Proof. intros W Hb Hg. destruct (dup_exists h b tb W Hb Hg) as (h1 & g & D).
  destruct (dup_restore_given h b h1 g W D) as (h2 & R & S & _). exists h1, g, h2. auto. Qed.
