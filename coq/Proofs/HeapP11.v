(* HeapP11: [wfx X h]: well-formedness in extensional (per-object) form, in which the tensors of X (husks waiting to be
   re-populated during an in-place operation) may share their _ops set with another tensor.  wfx [] h <-> wf h. *)
From Coq Require Import List Arith Bool PeanoNat Lia.
Import ListNotations.
From MG Require Import Model.Heap.
From MG.Proofs Require Import HeapP1 HeapWfb HeapP2 HeapP3.

Record wfx (X : list id) (h : heap) : Prop := mkWfx {
  x_nd_t : NoDup (keys (h_t h));
  x_nd_o : NoDup (keys (h_o h));
  x_nd_set : NoDup (keys (h_set h));
  x_nd_lst : NoDup (keys (h_lst h));
  x_nd_arr : NoDup (keys (h_arr h));
  x_lt_t : forall k, In k (keys (h_t h)) -> k < h_next h;
  x_lt_o : forall k, In k (keys (h_o h)) -> k < h_next h;
  x_lt_set : forall k, In k (keys (h_set h)) -> k < h_next h;
  x_lt_lst : forall k, In k (keys (h_lst h)) -> k < h_next h;
  x_lt_arr : forall k, In k (keys (h_arr h)) -> k < h_next h;
  x_tens : forall t r, getT h t = Some r -> tens_wf h t r;
  x_oper : forall o r, getO h o = Some r -> oper_wf h r;
  x_kids_nd : forall t r, getT h t = Some r -> NoDup (lst_of h (t_children r));
  x_par : forall t1 r1 t2 r2 c, getT h t1 = Some r1 -> getT h t2 = Some r2 ->
          In c (lst_of h (t_children r1)) -> In c (lst_of h (t_children r2)) -> t1 = t2;
  x_pdc : forall t1 r1 t2 r2, getT h t1 = Some r1 -> getT h t2 = Some r2 -> t_children r1 = t_children r2 -> t1 = t2;
  x_pdo : forall t1 r1 t2 r2, getT h t1 = Some r1 -> getT h t2 = Some r2 -> ~ In t1 X -> ~ In t2 X ->
          t_ops r1 = t_ops r2 -> t1 = t2
}.

Lemma NoDup_pairs {A} (l : list (id * A)) : NoDup (keys l) -> NoDup l.
Proof. unfold keys. apply NoDup_map_inv. Qed.

Lemma NoDup_map_iff {A B} (f : A -> B) l : NoDup l ->
  (NoDup (map f l) <-> forall a b, In a l -> In b l -> f a = f b -> a = b).
Proof. intros ND. split.
  - intros H a b Ha Hb E. revert H Ha Hb E. clear. induction l; simpl; [tauto|].
    intros H; inversion H; subst. intros [<-|Ha] [<-|Hb] E; auto.
    + exfalso; apply H2. rewrite E. now apply in_map.
    + exfalso; apply H2. rewrite <- E. now apply in_map.
  - induction l; simpl; intros H; [constructor|]. inversion ND; subst. constructor.
    + intros Hin. apply in_map_iff in Hin. destruct Hin as (b & E & Hb).
      assert (a = b) by (apply H; auto). subst; tauto.
    + apply IHl; auto. Qed.

Lemma filter_true {A} (l : list A) : filter (fun _ => true) l = l.
Proof. induction l; simpl; congruence. Qed.

Theorem wfx_nil h : wfx [] h <-> wf h.
Proof. split.
  - intros X.
    assert (NDp : NoDup (h_t h)) by (apply NoDup_pairs, (x_nd_t _ _ X)).
    pose proof (x_nd_t _ _ X) as NDk.
    constructor; try apply X.
    + apply NoDup_flat_map_intro; auto.
      * intros [t r] Hin. simpl. apply (x_kids_nd _ _ X t r). now apply In_get.
      * intros [t1 r1] [t2 r2] c H1 H2 N Hc1 Hc2. simpl in *. apply N.
        assert (t1 = t2) by (eapply (x_par _ _ X); eauto using In_get). subst t2.
        apply In_get in H1, H2; auto. congruence.
    + apply NoDup_map_iff; auto. intros [t1 r1] [t2 r2] H1 H2 E. simpl in E.
      assert (t1 = t2) by (eapply (x_pdc _ _ X); eauto using In_get). subst t2.
      apply In_get in H1, H2; auto. congruence.
    + apply NoDup_map_iff; auto. intros [t1 r1] [t2 r2] H1 H2 E. simpl in E.
      assert (t1 = t2) by (eapply (x_pdo _ _ X t1 r1 t2 r2); eauto using In_get). subst t2.
      apply In_get in H1, H2; auto. congruence.
  - intros W.
    assert (NDp : NoDup (h_t h)) by (apply NoDup_pairs, (wf_nd_t _ W)).
    constructor; try apply W.
    + intros t r Ht. destruct (NoDup_flat_map_inv _ _ (wf_par _ W)) as [H _]. apply (H (t, r)). now apply get_In.
    + intros t1 r1 t2 r2 c H1 H2 Hc1 Hc2. apply (kid_parent_unique h t1 t2 c W); apply kids_spec; eauto.
    + intros t1 r1 t2 r2 H1 H2 E. apply get_In in H1, H2.
      assert ((t1, r1) = (t2, r2)); [|congruence].
      apply (proj1 (NoDup_map_iff (fun p => t_children (snd p)) (h_t h) NDp) (wf_pdc _ W)); auto.
    + intros t1 r1 t2 r2 H1 H2 _ _ E. apply get_In in H1, H2.
      assert ((t1, r1) = (t2, r2)); [|congruence].
      apply (proj1 (NoDup_map_iff (fun p => t_ops (snd p)) (h_t h) NDp) (wf_pdo _ W)); auto. Qed.

Lemma wfx_weaken X Y h : wfx X h -> (forall x, In x X -> In x Y) -> wfx Y h.
Proof. intros W H. constructor; try apply W.
  intros t1 r1 t2 r2 H1 H2 N1 N2 E. eapply (x_pdo _ _ W); eauto. Qed.

Lemma wf_wfx X h : wf h -> wfx X h.
Proof. intros W. apply wfx_nil in W. eapply wfx_weaken; eauto. intros x []. Qed.

(* a heap with the same tables and a larger allocation counter *)
Definition bump (h : heap) (n : id) : heap := mkH (h_t h) (h_o h) (h_set h) (h_lst h) (h_arr h) n.

Lemma child_wf_ext h h' t c : (forall q, getT h' q = getT h q) -> (forall q, getO h' q = getO h q) ->
  child_wf h t c -> child_wf h' t c.
Proof. intros HT HO (H1 & rc & E & H2). split; auto. exists rc. rewrite HT. split; auto.
  intros HB. destruct (H2 HB) as (G & o & ro & Eo & Ego). split; auto. exists o, ro. rewrite HO. auto. Qed.

Lemma wfx_bump X h n : wfx X h -> h_next h <= n -> wfx X (bump h n).
Proof. intros W L. constructor; simpl; try apply W.
  - intros k Hk. apply (x_lt_t _ _ W) in Hk. lia.
  - intros k Hk. apply (x_lt_o _ _ W) in Hk. lia.
  - intros k Hk. apply (x_lt_set _ _ W) in Hk. lia.
  - intros k Hk. apply (x_lt_lst _ _ W) in Hk. lia.
  - intros k Hk. apply (x_lt_arr _ _ W) in Hk. lia.
  - intros t r Ht. destruct (x_tens _ _ W t r Ht) as (A & B & C & D). split; [simpl; lia|]. split; [simpl; lia|]. split; auto.
  - intros o r Ho. destruct (x_oper _ _ W o r Ho) as (A & B). split; intros v Hv; simpl; [apply A in Hv|apply B in Hv]; lia. Qed.
