(* HeapP19: the re-creation of the views (the last loop of _in_place_op): each step re-populates one husk. *)
From Coq Require Import List Arith Bool PeanoNat Lia.
Import ListNotations.
From MG Require Import Model.Heap.
From MG.Proofs Require Import HeapP1 HeapWfb HeapP2 HeapP3 HeapP4 HeapP5 HeapP6 HeapP7 HeapP8 HeapP10 HeapP11 HeapP12 HeapP13 HeapP14 HeapP15 HeapP16 HeapP17 HeapP18.

Lemma rm_head_nodup x l : ~ In x l -> rm x (x :: l) = l.
Proof. intros H. unfold rm. simpl. rewrite Nat.eqb_refl. simpl. apply filter_id.
  intros y Hy. apply negb_true_iff, Nat.eqb_neq. intros ->; tauto. Qed.

Lemma touch_base_some r b0 : t_base (touch true r) = Some b0 -> t_base r = Some b0.
Proof. rewrite touch_true_eq. simpl. destruct (isSome (t_base r) && negb (isSome (t_creator r))); [discriminate|auto]. Qed.

Lemma node_eq_dec (a b : node) : {a = b} + {a <> b}.
Proof. repeat decide equality. Qed.

Section Loop.
Variables (h3 : heap) (root : id) (h4 : heap) (g : list node) (tb : tens) (L : list id).
Hypothesis W3 : wf h3.
Hypothesis DS : DupSpec h3 root h4 g tb L.

Let I : Inv h3 (h_next h3) (t_base tb) h4 g L := ds_inv _ _ _ _ _ _ DS.

Definition LI (gs : list node) (hh : heap) : Prop :=
  wfx (map n_t gs) hh /\
  (forall t r c, getT hh t = Some r -> In c (lst_of hh (t_children r)) -> In c (map n_t gs) -> In t (map n_t gs)) /\
  (forall n, In n gs -> getT hh (n_t n) = getT h3 (n_t n)) /\
  (forall n, In n g -> ~ In n gs -> exists r, getT hh (n_t n) = Some r /\ getA hh (t_data r) <> None) /\
  (forall o r, getO h4 o = Some r -> getO hh o = Some r) /\
  (forall n r0, In n gs -> getT h3 (n_t n) = Some r0 -> lst_of hh (t_children r0) = lst_of h3 (t_children r0)) /\
  h_next h4 <= h_next hh.

Lemma filter_drop_last old v : (forall c, In c old -> c <> v) ->
  filter (fun x => negb (Nat.eqb x v)) (old ++ [v]) = old.
Proof. intros H. rewrite filter_app. simpl. rewrite Nat.eqb_refl. simpl. rewrite app_nil_r.
  apply filter_id. intros c Hc. apply negb_true_iff, Nat.eqb_neq. auto. Qed.

Lemma rebuild_one g1 n gs par hh : g = g1 ++ n :: gs -> n_parent n = Some par -> LI (n :: gs) hh ->
  exists hh', rebuild_step (Some hh) n = Some hh' /\ LI gs hh'.
Proof. intros Eg Hpar (W & U & H3 & Hdone & Hops & Hlst & Hnx).
  assert (Hn : In n g) by (rewrite Eg; apply in_or_app; simpl; auto).
  pose proof (i_tnd _ _ _ _ _ _ I) as NDt. rewrite Eg, map_app in NDt. simpl in NDt.
  apply NoDup_app_inv in NDt. destruct NDt as (ND1 & ND2 & ND3). inversion ND2 as [|? ? ND4 ND5]; subst.
  (* the husk *)
  pose proof (g_parent h3 root h4 g tb L DS n Hn) as Hfk. rewrite Hpar in Hfk.
  pose proof (fkids_kids _ _ _ Hfk) as Hk.
  destruct (kid_wf _ _ _ W3 Hk) as (Hlt & r0 & Er0 & Hc0).
  assert (Hb0 : t_base r0 <> None).
  { unfold fkids in Hfk. apply filter_In in Hfk. destruct Hfk as [_ Hb]. unfold hasbase in Hb. rewrite Er0 in Hb.
    destruct (t_base r0); [discriminate|discriminate]. }
  destruct (Hc0 Hb0) as (Hg0 & c & oc3 & Ec & Eoc3).
  assert (Ehusk : getT hh (n_t n) = Some r0) by (rewrite (H3 n (or_introl eq_refl)); exact Er0).
  pose proof (dup_routes_ops h3 root h4 g tb L DS c oc3 Eoc3) as Eoc4.
  pose proof (Hops _ _ Eoc4) as Eoc. simpl in Eoc.
  (* the parent *)
  pose proof (parent_before h3 root h4 g tb L DS n par g1 gs Eg Hpar) as Hparin.
  assert (Hpar_notin : ~ In par (map n_t (n :: gs))) by (intros Hin; eapply ND3; eauto).
  apply in_map_iff in Hparin. destruct Hparin as (npar & Enp & Hnp1).
  assert (Hnpar : In npar g) by (rewrite Eg; apply in_or_app; auto).
  assert (Hnpar2 : ~ In npar (n :: gs)).
  { intros Hin. apply Hpar_notin. rewrite <- Enp. now apply in_map. }
  destruct (Hdone npar Hnpar Hnpar2) as (tp0 & Etp0 & Hdata). rewrite Enp in Etp0.
  destruct (apply_view_ex hh (o_kind oc3) par tp0 Etp0 Hdata) as (hv & v & AVe).
  destruct (apply_view_spec _ hh _ par hv v W AVe) as (tp0' & AV).
  assert (tp0' = tp0) by (pose proof (av_par0 _ _ _ _ _ _ AV); congruence). subst tp0'.
  pose proof (wfx_apply_view _ _ _ _ _ _ W AVe) as Wv.
  set (rv := mkT (Some (S (h_next hh))) (Some (view_base par tp0)) (S v) (S (S v)) (h_next hh) false false) in *.
  pose proof (av_vrec _ _ _ _ _ _ AV) as Ev. fold rv in Ev.
  assert (Hv : v = 2 + h_next hh) by apply (av_v _ _ _ _ _ _ AV).
  assert (Halloc_lt : forall q r, getT hh q = Some r -> q < h_next hh).
  { intros q r E. apply (x_lt_t _ _ W). eapply get_keys; exact E. }
  assert (Hpar_ne : par <> n_t n) by lia.
  assert (Hv_ne_t : v <> n_t n) by (apply Halloc_lt in Ehusk; lia).
  assert (Hv_ne_par : v <> par) by (apply Halloc_lt in Etp0; lia).
  set (ptr := t_children tp0).
  set (old := lst_of hh ptr).
  assert (Hold_lt : forall c0, In c0 old -> c0 < h_next hh).
  { intros c0 Hc. destruct (proj2 (proj2 (proj2 (x_tens _ _ W par tp0 Etp0))) c0 Hc) as (_ & rc & Erc & _). eapply Halloc_lt; eauto. }
  assert (Hhusk_unlisted : forall t r, getT hh t = Some r -> ~ In (n_t n) (lst_of hh (t_children r))).
  { intros t r E Hin. assert (Ht : In t (map n_t (n :: gs))) by (eapply U; eauto; simpl; auto).
    apply in_map_iff in Ht. destruct Ht as (n' & En' & Hn').
    assert (getT h3 t = Some r) by (rewrite <- En', <- (H3 n' Hn'), En'; exact E).
    rewrite <- En' in H. rewrite (Hlst n' r Hn' H) in Hin.
    assert (n_t n' = par).
    { eapply (kid_parent_unique h3 (n_t n') par (n_t n) W3); auto. apply kids_spec. eauto. }
    apply Hpar_notin. rewrite <- H0. now apply in_map. }
  (* the statement runs *)
  unfold rebuild_step. rewrite Hpar, Ehusk. cbn [bind]. rewrite Ec. cbn [bind]. rewrite Eoc. cbn [bind o_kind].
  rewrite AVe. cbn [bind]. unfold mirror. rewrite Ev. cbn [bind].
  assert (Epar_m : getT (setT hv (n_t n) rv) par = Some (touch true tp0)).
  { rewrite getT_setT. destruct (Nat.eqb (n_t n) par) eqn:E; [apply Nat.eqb_eq in E; congruence|]. apply (av_par _ _ _ _ _ _ AV). }
  rewrite Epar_m. cbn [bind].
  change (t_children (touch true tp0)) with ptr.
  assert (Elm : lst_of (setT hv (n_t n) rv) ptr = old ++ [v]) by apply (av_lpar _ _ _ _ _ _ AV).
  rewrite Elm. rewrite filter_drop_last by (intros c0 Hc0' ; apply Hold_lt in Hc0'; lia).
  eexists. split; [reflexivity|].
  set (xs := old ++ [n_t n]).
  change (setL (delT (setT hv (n_t n) rv) v) ptr xs) with (delT (setT (setL hv ptr xs) (n_t n) rv) v).
  (* step A: the husk takes the place of the temporary view in its parent's list *)
  assert (Hpar_v : getT hv par = Some (touch true tp0)) by apply (av_par _ _ _ _ _ _ AV).
  assert (Hhusk_v : getT hv (n_t n) = Some r0) by (rewrite (av_told _ _ _ _ _ _ AV); auto).
  assert (Hlv_par : lst_of hv ptr = old ++ [v]) by apply (av_lpar _ _ _ _ _ _ AV).
  assert (Hops_v : forall o r, getO hh o = Some r -> getO hv o = Some r).
  { intros o r E. rewrite (av_o_old _ _ _ _ _ _ AV); auto. intros ->.
    assert (In (S (h_next hh)) (keys (h_o hh))) by (eapply get_keys; exact E). apply (x_lt_o _ _ W) in H. lia. }
  assert (Hlister_v : forall t r c0, getT hv t = Some r -> In c0 (lst_of hv (t_children r)) -> c0 <> v ->
            exists r', getT hh t = Some r' /\ In c0 (lst_of hh (t_children r'))).
  { intros t r c0 E Hc Hcv. destruct (Nat.eq_dec t v) as [->|Ntv].
    - rewrite Ev in E. inversion E; subst r. simpl in Hc. rewrite (av_lnew _ _ _ _ _ _ AV) in Hc. destruct Hc.
    - destruct (Nat.eq_dec t par) as [->|Ntp].
      + rewrite Hpar_v in E. inversion E; subst r.
        assert (Hc' : In c0 (old ++ [v])) by (rewrite <- Hlv_par; exact Hc).
        apply in_app_or in Hc'. destruct Hc' as [Hc'|[Hc'|[]]]; [|congruence]. exists tp0. auto.
      + rewrite (av_told _ _ _ _ _ _ AV) in E by auto. exists r. split; auto.
        rewrite (av_lold _ _ _ _ _ _ AV) in Hc; auto.
        * intros Ep. apply Ntp. eapply (x_pdc _ _ W t r par tp0); eauto.
        * pose proof (proj1 (x_tens _ _ W t r E)). lia. }
  assert (WA : wfx (map n_t (n :: gs)) (setL hv ptr xs)).
  { apply (wfx_setL _ hv par (touch true tp0)); auto.
    - unfold xs. apply NoDup_snoc; [apply (x_kids_nd _ _ W par tp0 Etp0)|]. apply (Hhusk_unlisted par tp0 Etp0).
    - intros c0 Hc. unfold xs in Hc. apply in_app_or in Hc. destruct Hc as [Hc|[<-|[]]].
      + apply (x_tens _ _ Wv par _ Hpar_v). change (In c0 (lst_of hv ptr)). rewrite Hlv_par. apply in_or_app; auto.
      + split; [exact Hlt|]. exists r0. split; auto. intros _. split; auto. exists c. eexists.
        split; auto. apply Hops_v. exact Eoc.
    - intros c0 t r Hc E Hin. unfold xs in Hc. apply in_app_or in Hc. destruct Hc as [Hc|[<-|[]]].
      + eapply (x_par _ _ Wv t r par (touch true tp0) c0); eauto.
        change (In c0 (lst_of hv ptr)). rewrite Hlv_par. apply in_or_app; auto.
      + exfalso. destruct (Hlister_v t r (n_t n) E Hin (not_eq_sym Hv_ne_t)) as (r' & E' & Hin'). eapply Hhusk_unlisted; eauto. }
  (* step B: the husk receives the dictionary of the temporary view, which dies *)
  set (hA := setL hv ptr xs) in *.
  assert (HgetA : forall q, getT hA q = getT hv q) by reflexivity.
  assert (HlA : forall p, lst_of hA p = if Nat.eqb ptr p then xs else lst_of hv p).
  { intros p. unfold hA, lst_of, setL; simpl. rewrite get_put. destruct (Nat.eqb ptr p); auto. }
  assert (Hptr_lt : ptr < h_next hh) by apply (x_tens _ _ W par tp0 Etp0).
  assert (Hvb_lt : view_base par tp0 < n_t n /\ view_base par tp0 < h_next hh).
  { unfold view_base. remember (t_base (touch true tp0)) as bt eqn:Eb. destruct bt as [b0|]; symmetry in Eb.
    - apply touch_base_some in Eb. destruct (proj1 (proj2 (proj2 (x_tens _ _ W par tp0 Etp0))) b0 Eb) as (B1 & rb0 & B2).
      apply Halloc_lt in B2. split; lia.
    - apply Halloc_lt in Etp0. split; lia. }
  assert (WB : wfx (rm (n_t n) (map n_t (n :: gs))) (delT (setT hA (n_t n) rv) v)).
  { apply (wfx_move _ hA (n_t n) v r0 rv); auto.
    - simpl. rewrite HlA. destruct (Nat.eqb ptr (S v)) eqn:E; [apply Nat.eqb_eq in E; lia|]. apply (av_lnew _ _ _ _ _ _ AV).
    - intros b0 Eb. simpl in Eb. inversion Eb; subst b0. apply Hvb_lt.
    - intros t r E Hin. rewrite HgetA in E. rewrite HlA in Hin. destruct (Nat.eqb ptr (t_children r)) eqn:Ep.
      + unfold xs in Hin. apply in_app_or in Hin. destruct Hin as [Hin|[Hin|[]]]; [apply Hold_lt in Hin; lia|congruence].
      + assert (t = par).
        { eapply (x_par _ _ Wv t r par (touch true tp0) v); eauto.
          change (In v (lst_of hv ptr)). rewrite Hlv_par. apply in_or_app; simpl; auto. }
        subst t. rewrite Hpar_v in E. inversion E; subst r. change (t_children (touch true tp0)) with ptr in Ep.
        rewrite Nat.eqb_refl in Ep. discriminate.
    - intros t r E Eb. rewrite HgetA in E. destruct (Nat.eq_dec t v) as [->|Ntv].
      + rewrite Ev in E. inversion E; subst r. simpl in Eb. inversion Eb. lia.
      + destruct (Nat.eq_dec t par) as [->|Ntp].
        * rewrite Hpar_v in E. inversion E; subst r. apply touch_base_some in Eb.
          destruct (proj1 (proj2 (proj2 (x_tens _ _ W par tp0 Etp0))) v Eb) as (_ & rb0 & B2). apply Halloc_lt in B2. lia.
        * rewrite (av_told _ _ _ _ _ _ AV) in E by auto.
          destruct (proj1 (proj2 (proj2 (x_tens _ _ W t r E))) v Eb) as (_ & rb0 & B2). apply Halloc_lt in B2. lia.
    - intros _. right. split; [reflexivity|]. exists (S (h_next hh)). eexists. split; [reflexivity|]. apply (av_o _ _ _ _ _ _ AV).
    - intros Hin. apply in_map_iff in Hin. destruct Hin as (n' & En' & Hn').
      assert (In n' g) by (rewrite Eg; apply in_or_app; auto).
      pose proof (i_tlt _ _ _ _ _ _ I n' H). pose proof (i_next _ _ _ _ _ _ I). lia. }
  change (map n_t (n :: gs)) with (n_t n :: map n_t gs) in WB. rewrite rm_head_nodup in WB by exact ND4.
  set (hh' := delT (setT hA (n_t n) rv) v) in *.
  assert (Hget' : forall q, getT hh' q = if Nat.eqb v q then None else if Nat.eqb (n_t n) q then Some rv else getT hv q).
  { intros q. unfold hh', getT, delT, setT; simpl. rewrite get_del by (apply NoDup_keys_put, (x_nd_t _ _ Wv)). now rewrite get_put. }
  assert (Hl' : forall p, lst_of hh' p = lst_of hA p) by reflexivity.
  assert (Hold_rec : forall q r, getT hh' q = Some r -> q <> n_t n -> q <> par -> getT hh q = Some r /\ lst_of hh' (t_children r) = lst_of hh (t_children r)).
  { intros q r E N1 N2. rewrite Hget' in E. destruct (Nat.eqb v q) eqn:Evq; [discriminate|]. apply Nat.eqb_neq in Evq.
    destruct (Nat.eqb (n_t n) q) eqn:Etq; [apply Nat.eqb_eq in Etq; congruence|].
    rewrite (av_told _ _ _ _ _ _ AV) in E by auto. split; auto.
    rewrite Hl', HlA. destruct (Nat.eqb ptr (t_children r)) eqn:Ep.
    - apply Nat.eqb_eq in Ep. exfalso. apply N2. eapply (x_pdc _ _ W q r par tp0); eauto.
    - apply (av_lold _ _ _ _ _ _ AV).
      + intros Eq. rewrite Eq, Nat.eqb_refl in Ep. discriminate.
      + pose proof (proj1 (x_tens _ _ W q r E)). lia. }
  split; [exact WB|]. split; [|split; [|split; [|split; [|split]]]].
  - intros t r c0 E Hc Hcg. destruct (Nat.eq_dec t (n_t n)) as [->|Nt].
    + rewrite Hget' in E. destruct (Nat.eqb v (n_t n)); [discriminate|]. rewrite Nat.eqb_refl in E. inversion E; subst r.
      simpl in Hc. rewrite Hl', HlA in Hc. destruct (Nat.eqb ptr (S v)) eqn:Ep; [apply Nat.eqb_eq in Ep; lia|].
      rewrite (av_lnew _ _ _ _ _ _ AV) in Hc. destruct Hc.
    + destruct (Nat.eq_dec t par) as [->|Ntp].
      * exfalso. rewrite Hget' in E. destruct (Nat.eqb v par); [discriminate|].
        destruct (Nat.eqb (n_t n) par) eqn:Q; [apply Nat.eqb_eq in Q; congruence|].
        rewrite Hpar_v in E. inversion E; subst r. change (t_children (touch true tp0)) with ptr in Hc.
        rewrite Hl', HlA, Nat.eqb_refl in Hc. unfold xs in Hc. apply in_app_or in Hc. destruct Hc as [Hc|[<-|[]]].
        -- apply Hpar_notin. eapply (U par tp0 c0); eauto. simpl; auto.
        -- apply ND4. exact Hcg.
      * destruct (Hold_rec t r E Nt Ntp) as (E0 & El).
        assert (Hc2 : In c0 (lst_of hh (t_children r))) by (rewrite <- El; exact Hc).
        assert (In t (map n_t (n :: gs))) by (eapply U; eauto; simpl; auto).
        destruct H as [H|H]; [congruence|exact H].
  - intros n' Hn'. assert (n_t n' <> n_t n) by (intros Q; apply ND4; rewrite <- Q; now apply in_map).
    assert (n_t n' <> par) by (intros Q; apply Hpar_notin; rewrite <- Q; simpl; right; now apply in_map).
    assert (Hall : getT hh (n_t n') = getT h3 (n_t n')) by (apply H3; simpl; auto).
    assert (n_t n' <> v).
    { destruct (getT h3 (n_t n')) eqn:Q; [|pose proof (i_tlt _ _ _ _ _ _ I n'); exfalso].
      - apply Halloc_lt in Hall. lia.
      - assert (In n' g) by (rewrite Eg; apply in_or_app; simpl; auto).
        destruct (i_ph _ _ _ _ _ _ I n' H2) as (r1 & ? & E1 & _). congruence. }
    rewrite Hget'. destruct (Nat.eqb v (n_t n')) eqn:Q1; [apply Nat.eqb_eq in Q1; congruence|].
    destruct (Nat.eqb (n_t n) (n_t n')) eqn:Q2; [apply Nat.eqb_eq in Q2; congruence|].
    rewrite (av_told _ _ _ _ _ _ AV) by auto. exact Hall.
  - intros n' Hn' Hn'gs. destruct (node_eq_dec n' n) as [->|Nn].
    + exists rv. split.
      * rewrite Hget'. destruct (Nat.eqb v (n_t n)) eqn:Q; [apply Nat.eqb_eq in Q; congruence|]. now rewrite Nat.eqb_refl.
      * simpl. destruct (av_anew _ _ _ _ _ _ AV) as (ra & ra' & _ & Q & _). unfold getA in *. simpl. change (h_arr hh') with (h_arr hv). congruence.
    + assert (Hn'2 : ~ In n' (n :: gs)) by (intros [Q|Q]; [congruence|tauto]).
      destruct (Hdone n' Hn' Hn'2) as (r & Er & Ha).
      assert (Hne1 : n_t n' <> n_t n).
      { intros Q. apply Nn. eapply NoDup_map_inj; [apply (i_tnd _ _ _ _ _ _ I)| | |]; auto. }
      assert (Hne2 : n_t n' <> v) by (apply Halloc_lt in Er; lia).
      assert (Harr : forall a, getA hh a <> None -> getA hh' a = getA hh a).
      { intros a Haa. change (getA hh' a) with (getA hv a). apply (av_aold _ _ _ _ _ _ AV). intros ->.
        apply Haa. apply get_None_keys. intros Hin. apply (x_lt_arr _ _ W) in Hin. lia. }
      rewrite Hget'. destruct (Nat.eqb v (n_t n')) eqn:Q1; [apply Nat.eqb_eq in Q1; congruence|].
      destruct (Nat.eqb (n_t n) (n_t n')) eqn:Q2; [apply Nat.eqb_eq in Q2; congruence|].
      destruct (Nat.eq_dec (n_t n') par) as [Q|Q].
      * rewrite Q, Hpar_v. rewrite Q, Etp0 in Er. inversion Er; subst r. exists (touch true tp0). split; auto.
        change (t_data (touch true tp0)) with (t_data tp0). rewrite Harr; auto.
      * rewrite (av_told _ _ _ _ _ _ AV) by auto. exists r. split; auto. rewrite Harr; auto.
  - intros o r E. change (getO hh' o) with (getO hv o). apply Hops_v. apply Hops. exact E.
  - intros n' r0' Hn' Er0'.
    assert (E1 : getT hh (n_t n') = Some r0') by (rewrite (H3 n' (or_intror Hn')); exact Er0').
    rewrite Hl', HlA. destruct (Nat.eqb ptr (t_children r0')) eqn:Ep.
    + apply Nat.eqb_eq in Ep. exfalso. apply Hpar_notin.
      assert (n_t n' = par) by (eapply (x_pdc _ _ W (n_t n') r0' par tp0); eauto). rewrite <- H. simpl. right. now apply in_map.
    + rewrite (av_lold _ _ _ _ _ _ AV).
      * apply (Hlst n' r0' (or_intror Hn') Er0').
      * intros Q. rewrite Q, Nat.eqb_refl in Ep. discriminate.
      * pose proof (proj1 (x_tens _ _ W _ _ E1)). lia.
  - pose proof (av_next _ _ _ _ _ _ AV) as Q. change (h_next h4 <= h_next hv). lia. Qed.

End Loop.
