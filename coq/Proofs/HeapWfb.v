(* HeapWfb: the boolean well-formedness check (executable on dumped heaps). *)
From Coq Require Import List Arith Bool PeanoNat Lia.
Import ListNotations.
From MG Require Import Model.Heap.
From MG.Proofs Require Import HeapP1.

Fixpoint nodupb (l : list id) : bool :=
  match l with [] => true | x :: r => negb (mem x r) && nodupb r end.

Definition ltall (n : id) (l : list id) : bool := forallb (fun x => Nat.ltb x n) l.

Definition kids (h : heap) (t : id) : list id :=
  match getT h t with Some r => lst_of h (t_children r) | None => [] end.

(* a member c of the children list of t *)
Definition child_ok (h : heap) (t c : id) : bool :=
  Nat.ltb t c &&
  match getT h c with
  | Some rc => negb (isSome (t_base rc)) ||
               negb (t_grad rc) &&
               match t_creator rc with Some o => isSome (getO h o) | None => false end
  | None => false
  end.

Definition tens_ok (h : heap) (t : id) (r : tens) : bool :=
  Nat.ltb (t_children r) (h_next h) && Nat.ltb (t_ops r) (h_next h) &&
  match t_base r with Some b => Nat.ltb b t && isSome (getT h b) | None => true end &&
  forallb (child_ok h t) (lst_of h (t_children r)).

Definition oper_ok (h : heap) (r : oper) : bool := ltall (h_next h) (o_vars r) && ltall (h_next h) (o_keep r).

Definition wfb (h : heap) : bool :=
  nodupb (keys (h_t h)) && nodupb (keys (h_o h)) && nodupb (keys (h_set h)) && nodupb (keys (h_lst h)) && nodupb (keys (h_arr h)) &&
  ltall (h_next h) (keys (h_t h)) && ltall (h_next h) (keys (h_o h)) && ltall (h_next h) (keys (h_set h)) &&
  ltall (h_next h) (keys (h_lst h)) && ltall (h_next h) (keys (h_arr h)) &&
  forallb (fun p => tens_ok h (fst p) (snd p)) (h_t h) &&
  forallb (fun p => oper_ok h (snd p)) (h_o h) &&
  nodupb (flat_map (fun p => lst_of h (t_children (snd p))) (h_t h)) &&
  nodupb (map (fun p => t_children (snd p)) (h_t h)) &&
  nodupb (map (fun p => t_ops (snd p)) (h_t h)).
