(* Task B: clear_graph / staleness in the history-level model of MyGrad's graph bookkeeping (Model/GraphP.v).
   C07 (clear_releases, backward_releases), C09 detection (invalid_backprop_iff), fresh_graph_no_error.
   No axioms; every theorem is closed under the global context. *)
From Coq Require Import ZArith List Arith Bool Lia.
Import ListNotations.
From MG Require Import Base.EngCore Base.GatherScatter Base.Dfs Base.EngOrder Model.OpsExact Model.GraphP.

Notation leafd := (Leaf Z true).
Definition acc := (list bool * list bool)%type.

(* ====================================================================================== *)
(* 1. set_nth, set_all                                                                     *)
(* ====================================================================================== *)

Lemma set_nth_length {X} (l : list X) i x : length (set_nth l i x) = length l.
Proof. revert i; induction l as [|y l IH]; intros [|i]; simpl; auto. Qed.

Lemma nth_set_nth_eq {X} (l : list X) i x d : i < length l -> nth i (set_nth l i x) d = x.
Proof.
  revert i; induction l as [|y l IH]; intros [|i] Hi; simpl in *; try lia; auto.
  apply IH. lia.
Qed.

Lemma nth_set_nth_neq {X} (l : list X) i j x d : j <> i -> nth j (set_nth l i x) d = nth j l d.
Proof.
  revert i j; induction l as [|y l IH]; intros [|i] [|j] Hij; simpl; try reflexivity; try lia.
  apply IH. lia.
Qed.

(* reading with the written value as default never depends on the length *)
Lemma nth_set_nth_same {X} (l : list X) i x : nth i (set_nth l i x) x = x.
Proof. revert i; induction l as [|y l IH]; intros [|i]; simpl; auto. Qed.

Lemma nth_set_nth_cases {X} (l : list X) i j x d :
  nth j (set_nth l i x) d = x \/ nth j (set_nth l i x) d = nth j l d.
Proof.
  destruct (Nat.eq_dec j i) as [->|Hne]; [|right; now apply nth_set_nth_neq].
  destruct (Nat.lt_ge_cases i (length l)) as [Hlt|Hge]; [left; now apply nth_set_nth_eq|].
  right. rewrite !nth_overflow; [reflexivity|exact Hge|now rewrite set_nth_length].
Qed.

Lemma set_all_cons {X} (l : list X) i is x : set_all l (i :: is) x = set_all (set_nth l i x) is x.
Proof. reflexivity. Qed.

Lemma set_all_length {X} (is : list nat) : forall (l : list X) x, length (set_all l is x) = length l.
Proof.
  induction is as [|i is IH]; intros l x; [reflexivity|].
  rewrite set_all_cons, IH. apply set_nth_length.
Qed.

Lemma set_all_keep {X} (is : list nat) : forall (l : list X) j x d,
  nth j l d = x -> nth j (set_all l is x) d = x.
Proof.
  induction is as [|i is IH]; intros l j x d H; [exact H|].
  rewrite set_all_cons. apply IH.
  destruct (nth_set_nth_cases l i j x d) as [E|E]; rewrite E; auto.
Qed.

Lemma set_all_in {X} (is : list nat) : forall (l : list X) j x d,
  In j is -> j < length l -> nth j (set_all l is x) d = x.
Proof.
  induction is as [|i is IH]; intros l j x d Hin Hj; [destruct Hin|].
  rewrite set_all_cons. destruct (Nat.eq_dec i j) as [->|Hne].
  - apply set_all_keep. now apply nth_set_nth_eq.
  - destruct Hin as [E|Hin]; [contradiction|]. apply IH; [exact Hin|now rewrite set_nth_length].
Qed.

Lemma set_all_notin {X} (is : list nat) : forall (l : list X) j x d,
  ~ In j is -> nth j (set_all l is x) d = nth j l d.
Proof.
  induction is as [|i is IH]; intros l j x d Hn; [reflexivity|].
  rewrite set_all_cons, IH by (intros H; apply Hn; now right).
  apply nth_set_nth_neq. intros ->. apply Hn. now left.
Qed.

(* a few list facts *)
Lemma nth_neq_default_lt {X} (l : list X) k d : nth k l d <> d -> k < length l.
Proof.
  intros H. destruct (Nat.lt_ge_cases k (length l)) as [Hlt|Hge]; [exact Hlt|].
  exfalso. apply H. now apply nth_overflow.
Qed.

Lemma nth_App_lt (nodes : list znode) k c o : nth k nodes leafd = App Z c o -> k < length nodes.
Proof. intros H. apply (nth_neq_default_lt nodes k leafd). rewrite H. discriminate. Qed.

Lemma nth_App_nth_error (nodes : list znode) k c o :
  nth k nodes leafd = App Z c o -> nth_error nodes k = Some (App Z c o).
Proof.
  intros H. pose proof (nth_App_lt nodes k c o H) as Hlt.
  destruct (nth_error nodes k) as [n|] eqn:E.
  - rewrite (nth_error_nth nodes k leafd E) in H. now subst.
  - apply nth_error_None in E. lia.
Qed.

(* ====================================================================================== *)
(* 1'. clear_from: unfolding, a generic "preorder" principle, lengths, monotonicity        *)
(* ====================================================================================== *)

Lemma clear_from_S f nodes t cl ho :
  clear_from (S f) nodes t (cl, ho) =
  match nth t nodes leafd with
  | App _ _ o => if nth t cl true then (cl, set_nth ho t false)
                 else fold_left (fun a i => clear_from f nodes i a) (ins Z o)
                                (set_nth cl t true, set_nth ho t false)
  | Leaf _ _ => (cl, set_nth ho t false)
  end.
Proof. reflexivity. Qed.

Section Preorder.
Variable Q : acc -> acc -> Prop.
Hypothesis Qrefl : forall a, Q a a.
Hypothesis Qtrans : forall a b c, Q a b -> Q b c -> Q a c.
Hypothesis Qho : forall cl ho t, Q (cl, ho) (cl, set_nth ho t false).
Hypothesis Qcl : forall cl ho t, Q (cl, ho) (set_nth cl t true, ho).

Lemma fold_preorder (F : nat -> acc -> acc) (HF : forall i a, Q a (F i a)) :
  forall is a, Q a (fold_left (fun a i => F i a) is a).
Proof.
  induction is as [|i is IH]; intros a; simpl; [apply Qrefl|].
  eapply Qtrans; [apply HF|apply IH].
Qed.

Lemma clear_from_preorder nodes : forall f t a, Q a (clear_from f nodes t a).
Proof.
  induction f as [|f IH]; intros t [cl ho]; [apply Qrefl|].
  rewrite clear_from_S.
  destruct (nth t nodes leafd) as [c|c o].
  - apply Qho.
  - destruct (nth t cl true).
    + apply Qho.
    + eapply Qtrans; [apply Qho|]. eapply Qtrans; [apply Qcl|].
      apply (fold_preorder (fun i a => clear_from f nodes i a)). intros i a. apply IH.
Qed.
End Preorder.

(* lengths *)
Definition same_len (a b : acc) := length (fst b) = length (fst a) /\ length (snd b) = length (snd a).

Theorem clear_from_length f nodes t a : same_len a (clear_from f nodes t a).
Proof.
  apply clear_from_preorder; unfold same_len; simpl.
  - auto.
  - intros a0 b c [H1 H2] [H3 H4]. split; congruence.
  - intros cl ho t0. split; [reflexivity|apply set_nth_length].
  - intros cl ho t0. split; [apply set_nth_length|reflexivity].
Qed.

Corollary clear_from_length' f nodes t cl ho cl' ho' :
  clear_from f nodes t (cl, ho) = (cl', ho') -> length cl' = length cl /\ length ho' = length ho.
Proof. intros E. pose proof (clear_from_length f nodes t (cl, ho)) as H. rewrite E in H. exact H. Qed.

(* monotonicity: cleared only ever goes to true, hasops only ever goes to false (for any default) *)
Definition mono (a b : acc) :=
  (forall x d, nth x (fst a) d = true -> nth x (fst b) d = true) /\
  (forall x d, nth x (snd a) d = false -> nth x (snd b) d = false).

Lemma mono_refl a : mono a a.
Proof. split; auto. Qed.
Lemma mono_trans a b c : mono a b -> mono b c -> mono a c.
Proof. intros [H1 H2] [H3 H4]. split; intros x d H; auto. Qed.

Theorem clear_from_mono f nodes t a : mono a (clear_from f nodes t a).
Proof.
  apply clear_from_preorder.
  - apply mono_refl.
  - apply mono_trans.
  - intros cl ho t0. split; simpl; [auto|]. intros x d H.
    destruct (nth_set_nth_cases ho t0 x false d) as [E|E]; rewrite E; auto.
  - intros cl ho t0. split; simpl; [|auto]. intros x d H.
    destruct (nth_set_nth_cases cl t0 x true d) as [E|E]; rewrite E; auto.
Qed.

Corollary clear_from_mono' f nodes t cl ho cl' ho' :
  clear_from f nodes t (cl, ho) = (cl', ho') ->
  (forall x d, nth x cl d = true -> nth x cl' d = true) /\
  (forall x d, nth x ho d = false -> nth x ho' d = false).
Proof. intros E. pose proof (clear_from_mono f nodes t (cl, ho)) as H. rewrite E in H. exact H. Qed.

(* ====================================================================================== *)
(* upstream                                                                                *)
(* ====================================================================================== *)

(* k = t, or k is an input of some upstream j whose creator is not yet cleared *)
Inductive upstream (nodes : list znode) (cl : list bool) (t : nat) : nat -> Prop :=
| up_refl : upstream nodes cl t t
| up_step j k c o : upstream nodes cl t j -> nth j nodes leafd = App Z c o ->
    nth j cl true = false -> In k (ins Z o) -> upstream nodes cl t k.

Lemma upstream_trans nodes cl t j k :
  upstream nodes cl t j -> upstream nodes cl j k -> upstream nodes cl t k.
Proof. intros Htj Hjk. induction Hjk as [|j' k c o _ IH En Ec Hin]; [exact Htj|]. eapply up_step; eauto. Qed.

Lemma upstream_first nodes cl t c o i k :
  nth t nodes leafd = App Z c o -> nth t cl true = false -> In i (ins Z o) ->
  upstream nodes cl i k -> upstream nodes cl t k.
Proof.
  intros En Ec Hin H. apply (upstream_trans nodes cl t i k); [|exact H].
  eapply up_step; [apply up_refl|exact En|exact Ec|exact Hin].
Qed.

(* clearing more creators can only shrink the upstream set *)
Lemma upstream_antimono nodes cl cl1 t k :
  (forall x, nth x cl true = true -> nth x cl1 true = true) ->
  upstream nodes cl1 t k -> upstream nodes cl t k.
Proof.
  intros Hm H. induction H as [|j k c o _ IH En Ec Hin]; [apply up_refl|].
  eapply up_step; [exact IH|exact En| |exact Hin].
  destruct (nth j cl true) eqn:E; [|reflexivity]. rewrite (Hm j E) in Ec. discriminate.
Qed.

Lemma upstream_le nodes (WF : wf Z nodes) cl t k : upstream nodes cl t k -> k <= t.
Proof.
  intros H. induction H as [|j k c o _ IH En Ec Hin]; [lia|].
  pose proof (WF j c o (nth_App_nth_error nodes j c o En)) as Hf.
  rewrite Forall_forall in Hf. specialize (Hf k Hin). lia.
Qed.

(* entries of tensors that are not upstream of t are unchanged *)
Theorem clear_from_unreached nodes k : forall f t cl ho cl' ho',
  clear_from f nodes t (cl, ho) = (cl', ho') -> ~ upstream nodes cl t k ->
  forall d, nth k cl' d = nth k cl d /\ nth k ho' d = nth k ho d.
Proof.
  induction f as [|f IH]; intros t cl ho cl' ho' E Hn d.
  { simpl in E. inversion E; subst. auto. }
  rewrite clear_from_S in E.
  assert (Hkt : k <> t) by (intros ->; apply Hn; apply up_refl).
  destruct (nth t nodes leafd) as [c|c o] eqn:En.
  { inversion E; subst. split; [reflexivity|now apply nth_set_nth_neq]. }
  destruct (nth t cl true) eqn:Ec.
  { inversion E; subst. split; [reflexivity|now apply nth_set_nth_neq]. }
  assert (Hfold : forall is cl1 ho1 cl2 ho2,
            (forall i, In i is -> In i (ins Z o)) ->
            (forall x, nth x cl true = true -> nth x cl1 true = true) ->
            fold_left (fun a i => clear_from f nodes i a) is (cl1, ho1) = (cl2, ho2) ->
            nth k cl2 d = nth k cl1 d /\ nth k ho2 d = nth k ho1 d).
  { induction is as [|i is IHis]; intros cl1 ho1 cl2 ho2 Hsub Hm Ef; simpl in Ef.
    - inversion Ef; subst. auto.
    - destruct (clear_from f nodes i (cl1, ho1)) as [cl1' ho1'] eqn:E1.
      destruct (IH i cl1 ho1 cl1' ho1' E1) with (d := d) as [A1 A2].
      { intros Hu. apply Hn. apply (upstream_first nodes cl t c o i k En Ec); [apply Hsub; now left|].
        now apply (upstream_antimono nodes cl cl1). }
      destruct (clear_from_mono' _ _ _ _ _ _ _ E1) as [M1 _].
      destruct (IHis cl1' ho1' cl2 ho2) as [B1 B2].
      + intros j Hj. apply Hsub. now right.
      + intros x Hx. apply M1. now apply Hm.
      + exact Ef.
      + split; congruence. }
  destruct (Hfold (ins Z o) _ _ _ _ (fun _ H => H)
              ltac:(intros x Hx; destruct (nth_set_nth_cases cl t x true true) as [E'|E']; rewrite E'; auto) E)
    as [A B].
  rewrite A, B. split; now apply nth_set_nth_neq.
Qed.

(* ====================================================================================== *)
(* 2. clear_releases (C07)                                                                 *)
(* ====================================================================================== *)

Definition is_leaf (n : znode) : bool := match n with Leaf _ _ => true | App _ _ _ => false end.
(* tensor k has no creator: it never had one, or clear_graph removed it *)
Definition creator_none (nodes : list znode) (cl : list bool) (k : nat) : bool :=
  is_leaf (nth k nodes leafd) || nth k cl true.
Definition released (nodes : list znode) (a : acc) (k : nat) : Prop :=
  nth k (snd a) false = false /\ creator_none nodes (fst a) k = true.

Lemma released_mono nodes a b k : mono a b -> released nodes a k -> released nodes b k.
Proof.
  intros [M1 M2] [H1 H2]. split; [now apply M2|].
  unfold creator_none in *. apply orb_true_iff in H2. apply orb_true_iff.
  destruct H2 as [H2|H2]; [now left|right; now apply M1].
Qed.

(* every creator cleared between a and b has had all its inputs released *)
Definition closed_from (nodes : list znode) (a b : acc) : Prop :=
  forall j c o, nth j nodes leafd = App Z c o -> nth j (fst a) true = false -> nth j (fst b) true = true ->
                forall i, In i (ins Z o) -> released nodes b i.

Lemma fold_clear_spec nodes f
  (IH : forall t a, t < f -> released nodes (clear_from f nodes t a) t /\
                             closed_from nodes a (clear_from f nodes t a)) :
  forall is a, Forall (fun i => i < f) is ->
    let b := fold_left (fun a i => clear_from f nodes i a) is a in
    mono a b /\ (forall i, In i is -> released nodes b i) /\ closed_from nodes a b.
Proof.
  induction is as [|i is IHis]; intros a Hlt; simpl.
  - split; [apply mono_refl|]. split; [intros i []|].
    intros j c o _ H1 H2. congruence.
  - inversion Hlt as [|? ? Hi Hlt']; subst.
    set (a1 := clear_from f nodes i a).
    destruct (IH i a Hi) as [R1 C1]. fold a1 in R1, C1.
    pose proof (clear_from_mono f nodes i a) as M1. fold a1 in M1.
    destruct (IHis a1 Hlt') as (M2 & R2 & C2). simpl in M2, R2, C2.
    set (b := fold_left (fun a i => clear_from f nodes i a) is a1) in *.
    split; [eapply mono_trans; eauto|]. split.
    + intros x [<-|Hx]; [eapply released_mono; eauto|now apply R2].
    + intros j c o En Ea Eb x Hx.
      destruct (nth j (fst a1) true) eqn:E1.
      * eapply released_mono; [exact M2|]. eapply C1; eauto.
      * eapply C2; eauto.
Qed.

Lemma clear_from_spec nodes (WF : wf Z nodes) : forall f t a, t < f ->
  released nodes (clear_from f nodes t a) t /\ closed_from nodes a (clear_from f nodes t a).
Proof.
  induction f as [|f IH]; intros t [cl ho] Hf; [lia|].
  rewrite clear_from_S.
  destruct (nth t nodes leafd) as [c|c o] eqn:En.
  { split.
    - split; simpl; [apply nth_set_nth_same|]. unfold creator_none. rewrite En. reflexivity.
    - intros j c' o' _ H1 H2. simpl in *. congruence. }
  destruct (nth t cl true) eqn:Ec.
  { split.
    - split; simpl; [apply nth_set_nth_same|]. unfold creator_none. rewrite Ec. apply orb_true_r.
    - intros j c' o' _ H1 H2. simpl in *. congruence. }
  assert (Hins : Forall (fun i => i < f) (ins Z o)).
  { pose proof (WF t c o (nth_App_nth_error nodes t c o En)) as Hw.
    eapply Forall_impl; [|exact Hw]. simpl. intros; lia. }
  set (a0 := (set_nth cl t true, set_nth ho t false)).
  destruct (fold_clear_spec nodes f IH (ins Z o) a0 Hins) as (M & R & C). simpl in M, R, C.
  set (b := fold_left (fun a i => clear_from f nodes i a) (ins Z o) a0) in *.
  assert (R0 : released nodes a0 t).
  { split; simpl; [apply nth_set_nth_same|]. unfold creator_none. rewrite nth_set_nth_same. apply orb_true_r. }
  split; [eapply released_mono; eauto|].
  intros j c' o' En' Ea Eb i Hi. simpl in Ea.
  destruct (Nat.eq_dec j t) as [->|Hne].
  - rewrite En in En'. inversion En'; subst. now apply R.
  - eapply C; eauto. unfold a0. simpl. rewrite nth_set_nth_neq by exact Hne. exact Ea.
Qed.

(* C07 at the level of clear_from.  Neither `t < n` nor the equal-length assumption is needed:
   reads use the defaults (`false` for hasops, `true` for cleared), which are the released values. *)
Theorem clear_releases nodes (WF : wf Z nodes) cl ho t cl' ho' :
  clear_from (S t) nodes t (cl, ho) = (cl', ho') ->
  forall k, upstream nodes cl t k ->
    nth k ho' false = false /\ creator_none nodes cl' k = true.
Proof.
  intros E k Hu.
  destruct (clear_from_spec nodes WF (S t) t (cl, ho) (Nat.lt_succ_diag_r t)) as [R C].
  rewrite E in R, C.
  change (released nodes (cl', ho') k).
  induction Hu as [|j k c o _ IHj En Ec Hin]; [exact R|].
  destruct IHj as [_ Hc]. unfold creator_none in Hc. simpl in Hc. rewrite En in Hc. simpl in Hc.
  eapply C; eauto.
Qed.
Print Assumptions clear_releases.

(* the statement exactly as in the task (with its superfluous hypotheses) *)
Corollary clear_releases_task st t cl' ho' n :
  wf Z (g_nodes st) -> length (g_nodes st) = n -> length (g_cleared st) = n -> length (g_hasops st) = n ->
  t < n -> clear_from (S t) (g_nodes st) t (g_cleared st, g_hasops st) = (cl', ho') ->
  forall k, upstream (g_nodes st) (g_cleared st) t k ->
    nth k ho' false = false /\
    (is_leaf (nth k (g_nodes st) leafd) = true \/ nth k cl' true = true).
Proof.
  intros WF _ _ _ _ E k Hu.
  destruct (clear_releases _ WF _ _ _ _ _ E k Hu) as [H1 H2]. split; [exact H1|].
  now apply orb_true_iff.
Qed.

(* ====================================================================================== *)
(* 3. lifting to do_clear / do_backward                                                    *)
(* ====================================================================================== *)

Lemma do_clear_fields st t :
  g_vals (do_clear st t) = g_vals st /\ g_nodes (do_clear st t) = g_nodes st /\
  g_grad (do_clear st t) = g_grad st /\
  clear_from (S t) (g_nodes st) t (g_cleared st, g_hasops st) = (g_cleared (do_clear st t), g_hasops (do_clear st t)).
Proof.
  unfold do_clear. destruct (clear_from (S t) (g_nodes st) t (g_cleared st, g_hasops st)) as [cl ho].
  simpl. auto.
Qed.

Theorem do_clear_releases st t (WF : wf Z (g_nodes st)) :
  forall k, upstream (g_nodes st) (g_cleared st) t k ->
    nth k (g_hasops (do_clear st t)) false = false /\
    creator_none (g_nodes (do_clear st t)) (g_cleared (do_clear st t)) k = true.
Proof.
  destruct (do_clear_fields st t) as (_ & En & _ & Ec). rewrite En.
  intros k Hu. eapply clear_releases; eauto.
Qed.

Lemma do_backward_ok st t seed st' :
  do_backward st t seed = (st', Ok) ->
  t < length (g_vals st) /\ g_vals st' = g_vals st /\ g_nodes st' = g_nodes st /\
  clear_from (S t) (g_nodes st) t (g_cleared st, g_hasops st) = (g_cleared st', g_hasops st').
Proof.
  unfold do_backward. intros H.
  destruct (Nat.ltb t (length (g_vals st))) eqn:Hlt; simpl in H; [|inversion H].
  apply Nat.ltb_lt in Hlt. split; [exact Hlt|].
  destruct (n_const st t).
  - inversion H; subst. destruct (do_clear_fields st t) as (A & B & _ & C). auto.
  - destruct (sweep_chk (g_eff st) (g_hasops st) (order_of st t) _) as [G err].
    destruct err; inversion H; subst.
    match goal with |- context [do_clear ?s t] => destruct (do_clear_fields s t) as (A & B & _ & C) end.
    simpl in *. auto.
Qed.

(* C07: after a successful L.backward(), L and every tensor upstream of it has no consumers
   and no creator (whether or not L is a constant) *)
Theorem backward_releases st t seed st' (WF : wf Z (g_nodes st)) :
  do_backward st t seed = (st', Ok) ->
  forall k, upstream (g_nodes st) (g_cleared st) t k ->
    nth k (g_hasops st') false = false /\ creator_none (g_nodes st') (g_cleared st') k = true.
Proof.
  intros H k Hu. destruct (do_backward_ok st t seed st' H) as (_ & _ & En & Ec). rewrite En.
  eapply clear_releases; eauto.
Qed.
Print Assumptions backward_releases.

(* the same, read through the graph "as the code sees it" *)
Lemma eff_nodes_nth : forall ns cl k,
  nth k (eff_nodes ns cl) leafd = eff_node (nth k ns leafd) (nth k cl false).
Proof.
  induction ns as [|n ns IH]; intros [|b cl] [|k]; simpl; try reflexivity.
  - destruct n; reflexivity.
  - destruct (nth k ns leafd); reflexivity.
  - apply IH.
Qed.

Lemma eff_nodes_length : forall ns cl, length (eff_nodes ns cl) = length ns.
Proof. induction ns as [|n ns IH]; intros [|b cl]; simpl; auto. Qed.

Definition Len (st : gstate) : Prop :=
  length (g_nodes st) = length (g_vals st) /\ length (g_cleared st) = length (g_vals st) /\
  length (g_hasops st) = length (g_vals st) /\ length (g_grad st) = length (g_vals st).

Theorem backward_releases_eff st t seed st' (WF : wf Z (g_nodes st)) (HL : Len st) :
  do_backward st t seed = (st', Ok) ->
  forall k, upstream (g_nodes st) (g_cleared st) t k ->
    nth k (g_hasops st') false = false /\ is_leaf (nth k (g_eff st') leafd) = true.
Proof.
  intros H k Hu. destruct (backward_releases st t seed st' WF H k Hu) as [H1 H2]. split; [exact H1|].
  destruct (do_backward_ok st t seed st' H) as (Ht & _ & En & Ec).
  destruct (clear_from_length' _ _ _ _ _ _ _ Ec) as [Lc _].
  destruct HL as (L1 & L2 & _ & _).
  pose proof (upstream_le _ WF _ _ _ Hu) as Hk.
  unfold g_eff. rewrite eff_nodes_nth. unfold creator_none in H2.
  destruct (nth k (g_nodes st') leafd) as [c|c o]; [reflexivity|]. simpl in H2.
  rewrite (nth_indep _ false true) by lia. rewrite H2. reflexivity.
Qed.

(* the DFS of Tensor.backward only follows non-cleared creators: its order is made of upstream tensors *)
Lemma inputs_eff st t i : In i (inputs Z (g_eff st) t) ->
  exists c o, nth t (g_nodes st) leafd = App Z c o /\ nth t (g_cleared st) false = false /\ In i (ins Z o).
Proof.
  unfold inputs, g_eff. rewrite eff_nodes_nth.
  destruct (nth t (g_nodes st) leafd) as [c|c o]; simpl; [intros []|].
  destruct (nth t (g_cleared st) false); simpl; [intros []|]. intros Hi. eauto.
Qed.

Lemma dfs_upstream st (HL : length (g_cleared st) = length (g_nodes st)) k : forall fuel t acc0,
  In k (dfs (inputs Z (g_eff st)) (isconst Z (g_eff st)) fuel t acc0) ->
  In k acc0 \/ upstream (g_nodes st) (g_cleared st) t k.
Proof.
  induction fuel as [|f IH]; intros t acc0 H; simpl in H; [now left|].
  destruct (isconst Z (g_eff st) t); [now left|].
  destruct (memb t acc0); [now left|].
  destruct H as [<-|H]; [right; apply up_refl|].
  assert (Hfold : forall is a, (forall i, In i is -> In i (inputs Z (g_eff st) t)) ->
            In k (fold_left (fun a i => dfs (inputs Z (g_eff st)) (isconst Z (g_eff st)) f i a) is a) ->
            In k a \/ upstream (g_nodes st) (g_cleared st) t k).
  { induction is as [|i is IHis]; intros a Hsub Hk; simpl in Hk; [now left|].
    destruct (IHis _ (fun j Hj => Hsub j (or_intror Hj)) Hk) as [Hk'|Hk']; [|now right].
    destruct (IH i a Hk') as [Ha|Hu]; [now left|right].
    destruct (inputs_eff st t i (Hsub i (or_introl eq_refl))) as (c & o & En & Ec & Hi).
    apply (upstream_first _ _ t c o i k En); [|exact Hi|exact Hu].
    rewrite (nth_indep _ true false); [exact Ec|]. rewrite HL. eapply nth_App_lt; eauto. }
  apply (Hfold _ _ (fun _ H => H) H).
Qed.

Theorem order_upstream st t (HL : length (g_cleared st) = length (g_nodes st)) :
  forall k, In k (order_of st t) -> upstream (g_nodes st) (g_cleared st) t k.
Proof.
  intros k Hk. unfold order_of, collect in Hk.
  destruct (dfs_upstream st HL k _ _ _ Hk) as [[]|H]. exact H.
Qed.

(* every tensor the backward pass visited (hence every tensor that received a gradient) is released *)
Theorem backward_order_released st t seed st' (WF : wf Z (g_nodes st))
  (HL : length (g_cleared st) = length (g_nodes st)) :
  do_backward st t seed = (st', Ok) ->
  forall k, In k (order_of st t) ->
    nth k (g_hasops st') false = false /\ creator_none (g_nodes st') (g_cleared st') k = true.
Proof. intros H k Hk. eapply backward_releases; eauto. now apply order_upstream. Qed.
Print Assumptions backward_order_released.

(* gradients are only written at members of the order *)
Lemma fold_grad_notin (G : list zvec) j d : forall order (gr : list (option zvec)), ~ In j order ->
  nth j (fold_left (fun gr k => match nth k G [] with [] => gr | v => set_nth gr k (Some v) end) order gr) d
  = nth j gr d.
Proof.
  induction order as [|k order IH]; intros gr Hn; simpl; [reflexivity|].
  rewrite IH by (intros H; apply Hn; now right).
  destruct (nth k G []); [reflexivity|]. apply nth_set_nth_neq. intros ->. apply Hn. now left.
Qed.

Theorem backward_grad_untouched st t seed st' :
  do_backward st t seed = (st', Ok) ->
  forall j d, ~ In j (order_of st t) -> nth j (g_grad st') d = nth j (g_grad st) d.
Proof.
  unfold do_backward. intros H j d Hn.
  destruct (Nat.ltb t (length (g_vals st))); simpl in H; [|inversion H].
  destruct (n_const st t).
  - inversion H; subst. destruct (do_clear_fields st t) as (_ & _ & Eg & _). now rewrite Eg.
  - destruct (sweep_chk (g_eff st) (g_hasops st) (order_of st t) _) as [G err].
    destruct err; inversion H; subst.
    match goal with |- context [do_clear ?s t] => destruct (do_clear_fields s t) as (_ & _ & Eg & _) end.
    rewrite Eg. simpl. rewrite fold_grad_notin by exact Hn. now apply set_all_notin.
Qed.

Corollary backward_grad_changed_released st t seed st' (WF : wf Z (g_nodes st))
  (HL : length (g_cleared st) = length (g_nodes st)) :
  do_backward st t seed = (st', Ok) ->
  forall j d, nth j (g_grad st') d <> nth j (g_grad st) d ->
    upstream (g_nodes st) (g_cleared st) t j /\
    nth j (g_hasops st') false = false /\ creator_none (g_nodes st') (g_cleared st') j = true.
Proof.
  intros H j d Hd.
  assert (Hin : In j (order_of st t)).
  { destruct (in_dec Nat.eq_dec j (order_of st t)) as [Hi|Hn]; [exact Hi|].
    exfalso. apply Hd. eapply backward_grad_untouched; eauto. }
  split; [now apply order_upstream|]. eapply backward_order_released; eauto.
Qed.

(* ====================================================================================== *)
(* 4. invalid_backprop_iff (C09, detection)                                                *)
(* ====================================================================================== *)

(* input i of a node makes Operation.backward raise: it is non-constant but its consumer set is empty *)
Definition stale_input (P : list znode) (ho : list bool) (i : nat) : Prop :=
  nconst Z (nth i P leafd) = false /\ nth i ho false = false.

Lemma push_chk_flag P ho o : forall is p g G,
  snd (push_chk P ho o p is g G) = true <-> exists i, In i is /\ stale_input P ho i.
Proof.
  unfold stale_input.
  induction is as [|i is IH]; intros p g G; simpl.
  - split; [discriminate|intros (i & [] & _)].
  - destruct (nconst Z (nth i P leafd)) eqn:Hc.
    + rewrite IH. split; intros (x & Hin & H1 & H2).
      * exists x. auto.
      * destruct Hin as [<-|Hin]; [congruence|]. exists x. auto.
    + destruct (nth i ho false) eqn:Hh; simpl.
      * rewrite IH. split; intros (x & Hin & H1 & H2).
        -- exists x. auto.
        -- destruct Hin as [<-|Hin]; [congruence|]. exists x. auto.
      * split; [intros _; exists i; auto|reflexivity].
Qed.

Lemma step_chk_flag P ho k G :
  snd (step_chk P ho k G) = true <->
  exists o i, nth k P leafd = App Z false o /\ In i (ins Z o) /\ stale_input P ho i.
Proof.
  unfold step_chk. destruct (nth k P leafd) as [c|[|] o]; simpl.
  - split; [discriminate|intros (o' & i & E & _); discriminate].
  - split; [discriminate|intros (o' & i & E & _); discriminate].
  - rewrite push_chk_flag. split.
    + intros (i & Hi & Hs). exists o, i. auto.
    + intros (o' & i & E & Hi & Hs). inversion E; subst. exists i. auto.
Qed.

Theorem invalid_backprop_iff P ho : forall order G,
  snd (sweep_chk P ho order G) = true <->
  exists k o i, In k order /\ nth k P leafd = App Z false o /\ In i (ins Z o) /\
                nconst Z (nth i P leafd) = false /\ nth i ho false = false.
Proof.
  induction order as [|k order IH]; intros G; simpl.
  - split; [discriminate|intros (k & o & i & [] & _)].
  - destruct (step_chk P ho k G) as [G' err] eqn:E.
    assert (Es : snd (step_chk P ho k G) = err) by (rewrite E; reflexivity).
    destruct err; simpl.
    + split; [intros _|reflexivity].
      apply step_chk_flag in Es. destruct Es as (o & i & H1 & H2 & H3 & H4).
      exists k, o, i. auto 6.
    + rewrite IH. split; intros (k' & o & i & Hin & H1 & H2 & H3 & H4).
      * exists k', o, i. auto 6.
      * destruct Hin as [<-|Hin]; [|exists k', o, i; auto 6].
        assert (snd (step_chk P ho k G) = true); [|congruence].
        apply step_chk_flag. exists o, i. unfold stale_input. auto.
Qed.
Print Assumptions invalid_backprop_iff.

(* (a) no stale input anywhere in the order: no error *)
Corollary sweep_chk_no_error P ho order G :
  (forall k o i, In k order -> nth k P leafd = App Z false o -> In i (ins Z o) ->
                 nconst Z (nth i P leafd) = false -> nth i ho false = true) ->
  snd (sweep_chk P ho order G) = false.
Proof.
  intros H. destruct (snd (sweep_chk P ho order G)) eqn:E; [|reflexivity].
  apply invalid_backprop_iff in E. destruct E as (k & o & i & H1 & H2 & H3 & H4 & H5).
  rewrite (H k o i H1 H2 H3 H4) in H5. discriminate.
Qed.

(* (b) some processed non-constant node has a stale input: error *)
Corollary sweep_chk_error P ho order G k o i :
  In k order -> nth k P leafd = App Z false o -> In i (ins Z o) ->
  nconst Z (nth i P leafd) = false -> nth i ho false = false ->
  snd (sweep_chk P ho order G) = true.
Proof. intros. apply invalid_backprop_iff. exists k, o, i. auto 6. Qed.

(* what do_backward returns *)
Theorem do_backward_invalid_iff st t seed :
  snd (do_backward st t seed) = InvalidBackprop <->
  t < length (g_vals st) /\ n_const st t = false /\
  exists k o i, In k (order_of st t) /\ nth k (g_eff st) leafd = App Z false o /\ In i (ins Z o) /\
                nconst Z (nth i (g_eff st) leafd) = false /\ nth i (g_hasops st) false = false.
Proof.
  unfold do_backward.
  destruct (Nat.ltb t (length (g_vals st))) eqn:Hlt; simpl.
  2:{ apply Nat.ltb_ge in Hlt. split; [discriminate|intros (H & _); lia]. }
  apply Nat.ltb_lt in Hlt.
  destruct (n_const st t); simpl.
  { split; [discriminate|intros (_ & H & _); discriminate]. }
  rewrite <- invalid_backprop_iff
    with (G := upd Z Z.add (repeat [] (length (g_vals st))) t
                 match seed with Some g => g | None => repeat 1%Z (length (nth t (g_vals st) [])) end).
  destruct (sweep_chk _ _ _ _) as [G err]. destruct err; simpl.
  - split; auto.
  - split; [discriminate|intros (_ & _ & H); discriminate].
Qed.
Print Assumptions do_backward_invalid_iff.

(* ====================================================================================== *)
(* 5. fresh graphs never raise InvalidBackprop                                             *)
(* ====================================================================================== *)

Definition fresh (st : gstate) : Prop :=
  Forall (fun b => b = false) (g_cleared st) /\
  forall k c o i, nth_error (g_nodes st) k = Some (App Z c o) -> In i (ins Z o) ->
                  nth i (g_hasops st) false = true.

Lemma Len_init : Len g_init. Proof. repeat split. Qed.
Lemma fresh_init : fresh g_init.
Proof. split; [constructor|]. intros [|k] c o i H; discriminate. Qed.
Lemma wf_init : wf Z (g_nodes g_init).
Proof. intros [|k] c o H; discriminate. Qed.

Lemma nth_true_app_false (l : list bool) i : nth i l false = true -> nth i (l ++ [false]) false = true.
Proof.
  intros H. rewrite app_nth1; [exact H|]. apply (nth_neq_default_lt l i false). rewrite H. discriminate.
Qed.

Lemma nth_error_snoc_App (l : list znode) k c o n :
  nth_error (l ++ [n]) k = Some (App Z c o) ->
  nth_error l k = Some (App Z c o) \/ (k = length l /\ n = App Z c o).
Proof.
  intros H. destruct (Nat.lt_ge_cases k (length l)) as [Hlt|Hge].
  - left. now rewrite nth_error_app1 in H.
  - right. rewrite nth_error_app2 in H by exact Hge.
    destruct (k - length l) as [|m] eqn:Em; simpl in H.
    + split; [lia|congruence].
    + destruct m; discriminate.
Qed.

(* do_leaf *)
Lemma Len_leaf st c v : Len st -> Len (do_leaf st c v).
Proof. intros (A & B & C & D). unfold Len, do_leaf. simpl. rewrite !app_length. simpl. lia. Qed.

Lemma fresh_leaf st c v : fresh st -> fresh (do_leaf st c v).
Proof.
  intros [Hc Hh]. split; simpl.
  - apply Forall_app. split; [exact Hc|repeat constructor].
  - intros k c' o i Hk Hi. apply nth_true_app_false.
    destruct (nth_error_snoc_App _ _ _ _ _ Hk) as [Hk'|[_ E]]; [|discriminate]. eapply Hh; eauto.
Qed.

Lemma wf_leaf st c v : wf Z (g_nodes st) -> wf Z (g_nodes (do_leaf st c v)).
Proof.
  intros WF k c' o Hk. simpl in Hk.
  destruct (nth_error_snoc_App _ _ _ _ _ Hk) as [Hk'|[_ E]]; [|discriminate]. eapply WF; eauto.
Qed.

(* do_app *)
Lemma ins_linearize (vals : list zvec) (o : zcop) :
  ins Z (to_op Z 0%Z Z.add Z.mul (linearize Z 0%Z 1%Z Z.mul vals o)) = map c_src (c_args Z o).
Proof.
  unfold to_op, linearize. simpl. rewrite map_map.
  generalize 0 at 1. generalize (c_args Z o) as l.
  induction l as [|a l IH]; intros s; simpl; [reflexivity|]. f_equal. apply IH.
Qed.

Lemma do_app_cases st fc vw o :
  (do_app st fc vw o = (st, BadStmt)) \/
  (Forall (fun i => i < length (g_vals st)) (map c_src (c_args Z o)) /\
   exists c,
   do_app st fc vw o =
   ({| g_vals := g_vals st ++ [cop_fwd Z 0%Z 1%Z Z.add Z.mul (g_vals st) o];
       g_nodes := g_nodes st ++ [App Z c (to_op Z 0%Z Z.add Z.mul (linearize Z 0%Z 1%Z Z.mul (g_vals st) o))];
       g_cleared := g_cleared st ++ [false];
       g_hasops := set_all (g_hasops st) (map c_src (c_args Z o)) true ++ [false];
       g_grad := (if vw then g_grad st else set_all (g_grad st) (map c_src (c_args Z o)) None) ++ [None] |}, Ok)).
Proof.
  unfold do_app.
  destruct (forallb (fun i => Nat.ltb i (length (g_vals st))) (map c_src (c_args Z o))) eqn:E; simpl.
  - right. split.
    + rewrite forallb_forall in E. apply Forall_forall. intros i Hi. apply Nat.ltb_lt. now apply E.
    + eexists. reflexivity.
  - now left.
Qed.

Lemma Len_app st fc vw o : Len st -> Len (fst (do_app st fc vw o)).
Proof.
  intros HL. destruct (do_app_cases st fc vw o) as [E|(_ & c & E)]; rewrite E; simpl; [exact HL|].
  destruct HL as (A & B & C & D). unfold Len. simpl. rewrite !app_length. simpl.
  rewrite set_all_length. destruct vw; rewrite ?set_all_length; lia.
Qed.

Lemma fresh_app st fc vw o : Len st -> fresh st -> fresh (fst (do_app st fc vw o)).
Proof.
  intros HL HF. destruct (do_app_cases st fc vw o) as [E|(Hs & c & E)]; rewrite E; simpl; [exact HF|].
  destruct HL as (A & B & C & D). destruct HF as [Hc Hh]. split; simpl.
  - apply Forall_app. split; [exact Hc|repeat constructor].
  - intros k c' o' i Hk Hi. apply nth_true_app_false.
    destruct (nth_error_snoc_App _ _ _ _ _ Hk) as [Hk'|[_ En]].
    + apply set_all_keep. eapply Hh; eauto.
    + inversion En; subst. rewrite ins_linearize in Hi.
      apply set_all_in; [exact Hi|]. rewrite Forall_forall in Hs. specialize (Hs i Hi). lia.
Qed.

Lemma wf_app st fc vw o : Len st -> wf Z (g_nodes st) -> wf Z (g_nodes (fst (do_app st fc vw o))).
Proof.
  intros HL WF. destruct (do_app_cases st fc vw o) as [E|(Hs & c & E)]; rewrite E; simpl; [exact WF|].
  destruct HL as (A & _). intros k c' o' Hk.
  destruct (nth_error_snoc_App _ _ _ _ _ Hk) as [Hk'|[Ek En]]; [eapply WF; eauto|].
  inversion En; subst. rewrite ins_linearize. rewrite A. exact Hs.
Qed.

(* histories that only build the graph *)
Definition build_stmt (s : stmt) : Prop :=
  match s with SLeaf _ _ | SApp _ _ _ => True | _ => False end.

Lemma exec_build_inv st s : build_stmt s -> Len st -> fresh st -> wf Z (g_nodes st) ->
  let st' := fst (exec_stmt st s) in Len st' /\ fresh st' /\ wf Z (g_nodes st').
Proof.
  destruct s as [c v|fc vw o|t seed|t|t]; simpl; intros Hb HL HF WF; try contradiction.
  - split; [now apply (Len_leaf st c v)|]. split; [now apply (fresh_leaf st c v)|now apply (wf_leaf st c v)].
  - split; [now apply Len_app|]. split; [now apply fresh_app|now apply wf_app].
Qed.

Lemma run_hist_cons st s h :
  run_hist st (s :: h) =
  (fst (run_hist (fst (exec_stmt st s)) h), snd (exec_stmt st s) :: snd (run_hist (fst (exec_stmt st s)) h)).
Proof.
  simpl. destruct (exec_stmt st s) as [st1 o1]. simpl. destruct (run_hist st1 h) as [st2 os]. reflexivity.
Qed.

Theorem build_hist_inv : forall h st, Forall build_stmt h -> Len st -> fresh st -> wf Z (g_nodes st) ->
  let st' := fst (run_hist st h) in Len st' /\ fresh st' /\ wf Z (g_nodes st').
Proof.
  induction h as [|s h IH]; intros st Hb HL HF WF; [simpl; auto|].
  inversion Hb as [|? ? Hs Hh]; subst.
  rewrite run_hist_cons. simpl.
  destruct (exec_build_inv st s Hs HL HF WF) as (HL' & HF' & WF').
  now apply IH.
Qed.

Corollary built_fresh h : Forall build_stmt h ->
  let st := fst (run_hist g_init h) in Len st /\ fresh st /\ wf Z (g_nodes st).
Proof. intros Hb. apply build_hist_inv; auto using Len_init, fresh_init, wf_init. Qed.

(* in a fresh state backward never raises InvalidBackprop *)
Lemma eff_node_App n b c o : eff_node n b = App Z c o -> n = App Z c o.
Proof. destruct n as [c'|c' o']; simpl; [discriminate|]. destruct b; [discriminate|auto]. Qed.

Theorem fresh_graph_no_error st t seed : fresh st -> snd (do_backward st t seed) <> InvalidBackprop.
Proof.
  intros [_ Hh] H. apply do_backward_invalid_iff in H.
  destruct H as (_ & _ & k & o & i & _ & En & Hi & _ & Hs).
  unfold g_eff in En. rewrite eff_nodes_nth in En. apply eff_node_App in En.
  apply nth_App_nth_error in En. rewrite (Hh k false o i En Hi) in Hs. discriminate.
Qed.
Print Assumptions fresh_graph_no_error.

Corollary built_graph_no_error h t seed : Forall build_stmt h ->
  snd (do_backward (fst (run_hist g_init h)) t seed) <> InvalidBackprop.
Proof. intros Hb. apply fresh_graph_no_error. now destruct (built_fresh h Hb) as (_ & HF & _). Qed.
Print Assumptions built_graph_no_error.

(* ====================================================================================== *)
(* the standing assumptions (Len, wf) hold along every history                             *)
(* ====================================================================================== *)

Lemma fold_grad_length (G : list zvec) : forall order (gr : list (option zvec)),
  length (fold_left (fun gr k => match nth k G [] with [] => gr | v => set_nth gr k (Some v) end) order gr)
  = length gr.
Proof.
  induction order as [|k order IH]; intros gr; simpl; [reflexivity|].
  rewrite IH. destruct (nth k G []); [reflexivity|apply set_nth_length].
Qed.

Lemma Len_clear st t : Len st -> Len (do_clear st t).
Proof.
  intros (A & B & C & D). destruct (do_clear_fields st t) as (Ev & En & Eg & Ec).
  destruct (clear_from_length' _ _ _ _ _ _ _ Ec) as [L1 L2].
  unfold Len. rewrite Ev, En, Eg, L1, L2. auto.
Qed.

Lemma Len_backward st t seed : Len st -> Len (fst (do_backward st t seed)).
Proof.
  intros HL. unfold do_backward.
  destruct (Nat.ltb t (length (g_vals st))); simpl; [|exact HL].
  destruct (n_const st t); simpl; [now apply Len_clear|].
  destruct (sweep_chk _ _ _ _) as [G err].
  assert (HL1 : Len {| g_vals := g_vals st; g_nodes := g_nodes st; g_cleared := g_cleared st;
                       g_hasops := g_hasops st;
                       g_grad := fold_left (fun gr k => match nth k G [] with [] => gr | v => set_nth gr k (Some v) end)
                                   (order_of st t) (set_all (g_grad st) (order_of st t) None) |}).
  { destruct HL as (A & B & C & D). unfold Len. simpl. rewrite fold_grad_length, set_all_length. auto. }
  destruct err; simpl; [exact HL1|now apply Len_clear].
Qed.

Lemma nodes_backward st t seed : g_nodes (fst (do_backward st t seed)) = g_nodes st.
Proof.
  unfold do_backward.
  destruct (Nat.ltb t (length (g_vals st))); simpl; [|reflexivity].
  destruct (n_const st t); simpl; [apply do_clear_fields|].
  destruct (sweep_chk _ _ _ _) as [G err].
  destruct err; simpl; [reflexivity|].
  match goal with |- context [do_clear ?s t] => destruct (do_clear_fields s t) as (_ & En & _) end.
  rewrite En. reflexivity.
Qed.

Theorem exec_inv st s : Len st -> wf Z (g_nodes st) ->
  Len (fst (exec_stmt st s)) /\ wf Z (g_nodes (fst (exec_stmt st s))).
Proof.
  intros HL WF. destruct s as [c v|fc vw o|t seed|t|t]; simpl.
  - split; [now apply (Len_leaf st c v)|now apply (wf_leaf st c v)].
  - split; [now apply Len_app|now apply wf_app].
  - split; [now apply Len_backward|now rewrite nodes_backward].
  - destruct (Nat.ltb t (length (g_vals st))); simpl; [|auto].
    split; [now apply Len_clear|]. destruct (do_clear_fields st t) as (_ & En & _). now rewrite En.
  - destruct (Nat.ltb t (length (g_vals st))); simpl; [|auto].
    split; [|exact WF]. destruct HL as (A & B & C & D). unfold Len. simpl. rewrite set_nth_length. auto.
Qed.

Theorem run_hist_inv : forall h st, Len st -> wf Z (g_nodes st) ->
  Len (fst (run_hist st h)) /\ wf Z (g_nodes (fst (run_hist st h))).
Proof.
  induction h as [|s h IH]; intros st HL WF; [simpl; auto|].
  rewrite run_hist_cons. simpl. destruct (exec_inv st s HL WF) as [HL' WF']. now apply IH.
Qed.

Corollary reachable_Len_wf h : Len (fst (run_hist g_init h)) /\ wf Z (g_nodes (fst (run_hist g_init h))).
Proof. apply run_hist_inv; [apply Len_init|apply wf_init]. Qed.
Print Assumptions reachable_Len_wf.

(* C07 along any history, with no side conditions left *)
Corollary history_backward_releases h t seed st' :
  let st := fst (run_hist g_init h) in
  do_backward st t seed = (st', Ok) ->
  forall k, upstream (g_nodes st) (g_cleared st) t k ->
    nth k (g_hasops st') false = false /\ is_leaf (nth k (g_eff st') leafd) = true.
Proof.
  intros st H k Hu. destruct (reachable_Len_wf h) as [HL WF].
  eapply backward_releases_eff; eauto.
Qed.
Print Assumptions history_backward_releases.

(* ====================================================================================== *)
(* non-vacuity: a concrete history on which the staleness check fires                      *)
(* ====================================================================================== *)
(* x = leaf; y = id(x); z = id(y); y.backward() releases y and x; z.backward() then finds that its
   input y has an empty consumer set and raises; on the graph before y.backward() it does not. *)
Definition ex_id (src : nat) : zcop :=
  {| c_work := 1; c_args := [{| c_src := src; c_map := [0] |}]; c_kern := KLin Z [[1%Z]] [0%Z]; c_seg := None |}.
Definition ex_build : list stmt := [SLeaf false [2%Z]; SApp None false (ex_id 0); SApp None false (ex_id 1)].

Example ex_stale_detected :
  snd (run_hist g_init (ex_build ++ [SBackward 1 None; SBackward 2 None])) = [Ok; Ok; Ok; Ok; InvalidBackprop].
Proof. vm_compute. reflexivity. Qed.
Example ex_fresh_ok :
  snd (run_hist g_init (ex_build ++ [SBackward 2 None])) = [Ok; Ok; Ok; Ok].
Proof. vm_compute. reflexivity. Qed.
Example ex_released :
  let st := fst (run_hist g_init (ex_build ++ [SBackward 2 None])) in
  g_hasops st = [false; false; false] /\ g_cleared st = [false; true; true].
Proof. vm_compute. auto. Qed.
