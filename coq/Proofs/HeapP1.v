(* HeapP1: association tables (get / put / del), key lists, extensional equality, frame lemmas for the heap setters. *)
From Coq Require Import List Arith Bool PeanoNat Lia.
Import ListNotations.
From MG Require Import Model.Heap.

Set Implicit Arguments.

Definition keys {A} (l : list (id * A)) : list id := map fst l.

Lemma NoDup_snoc {A} (l : list A) x : NoDup l -> ~ In x l -> NoDup (l ++ [x]).
Proof. induction l; simpl; intros ND H.
  - constructor; auto.
  - inversion ND; subst. constructor.
    + rewrite in_app_iff; simpl. intuition.
    + apply IHl; tauto. Qed.

Lemma NoDup_app_inv {A} (l1 l2 : list A) :
  NoDup (l1 ++ l2) -> NoDup l1 /\ NoDup l2 /\ (forall x, In x l1 -> In x l2 -> False).
Proof. induction l1; simpl; intros ND.
  - repeat split; auto. constructor.
  - inversion ND; subst. destruct (IHl1 H2) as (N1 & N2 & D). repeat split; auto.
    + constructor; auto. intros H; apply H1. rewrite in_app_iff; auto.
    + intros x [<-|Hx] Hx2; [apply H1; rewrite in_app_iff; auto|eauto]. Qed.

Lemma NoDup_app_intro {A} (l1 l2 : list A) :
  NoDup l1 -> NoDup l2 -> (forall x, In x l1 -> In x l2 -> False) -> NoDup (l1 ++ l2).
Proof. induction l1; simpl; intros N1 N2 D; auto.
  inversion N1; subst. constructor.
  - rewrite in_app_iff. intros [H|H]; [tauto|eapply D; eauto].
  - apply IHl1; auto. intros x Hx; apply D; auto. Qed.

Section Tables.
Variable A : Type.
Implicit Types (l : list (id * A)) (k : id) (v : A).

Lemma get_put_eq l k v : get (put l k v) k = Some v.
Proof. induction l as [|[k' v'] r IH]; simpl.
  - now rewrite Nat.eqb_refl.
  - destruct (Nat.eqb k k') eqn:E; simpl; rewrite ?Nat.eqb_refl, ?E; auto. Qed.

Lemma get_put_ne l k k' v : k <> k' -> get (put l k v) k' = get l k'.
Proof. intros N. induction l as [|[k0 v0] r IH]; simpl.
  - destruct (Nat.eqb k' k) eqn:E; auto. apply Nat.eqb_eq in E; congruence.
  - destruct (Nat.eqb k k0) eqn:E; simpl.
    + apply Nat.eqb_eq in E; subst k0.
      destruct (Nat.eqb k' k) eqn:E2; auto. apply Nat.eqb_eq in E2; congruence.
    + now rewrite IH. Qed.

Lemma get_put l k k' v : get (put l k v) k' = if Nat.eqb k k' then Some v else get l k'.
Proof. destruct (Nat.eqb k k') eqn:E.
  - apply Nat.eqb_eq in E; subst; apply get_put_eq.
  - apply Nat.eqb_neq in E; now apply get_put_ne. Qed.

Lemma get_In l k v : get l k = Some v -> In (k, v) l.
Proof. induction l as [|[k0 v0] r IH]; simpl; [discriminate|].
  destruct (Nat.eqb k k0) eqn:E; intros H.
  - apply Nat.eqb_eq in E; inversion H; subst; auto.
  - right; auto. Qed.

Lemma get_keys l k v : get l k = Some v -> In k (keys l).
Proof. intros H; apply get_In in H. unfold keys. change k with (fst (k, v)). now apply in_map. Qed.

Lemma get_None_keys l k : get l k = None <-> ~ In k (keys l).
Proof. induction l as [|[k0 v0] r IH]; simpl.
  - tauto.
  - destruct (Nat.eqb k k0) eqn:E.
    + apply Nat.eqb_eq in E; subst. split; [discriminate|]. intros H; exfalso; apply H; auto.
    + apply Nat.eqb_neq in E. rewrite IH. split; intros H; [intros [H1|H1]; [congruence|tauto]|tauto]. Qed.

Lemma keys_get l k : In k (keys l) -> exists v, get l k = Some v.
Proof. intros H. destruct (get l k) eqn:E; eauto. apply get_None_keys in E; tauto. Qed.

Lemma In_get l k v : NoDup (keys l) -> In (k, v) l -> get l k = Some v.
Proof. induction l as [|[k0 v0] r IH]; simpl; [tauto|].
  intros ND [H|H].
  - inversion H; subst. now rewrite Nat.eqb_refl.
  - inversion ND; subst. destruct (Nat.eqb k k0) eqn:E.
    + apply Nat.eqb_eq in E; subst. exfalso; apply H2. change k0 with (fst (k0, v)). now apply in_map.
    + auto. Qed.

Lemma keys_put_in l k v : In k (keys l) -> keys (put l k v) = keys l.
Proof. induction l as [|[k0 v0] r IH]; simpl; [tauto|].
  intros H. destruct (Nat.eqb k k0) eqn:E; simpl.
  - apply Nat.eqb_eq in E; now subst.
  - apply Nat.eqb_neq in E. f_equal. apply IH. destruct H; congruence. Qed.

Lemma keys_put_notin l k v : ~ In k (keys l) -> keys (put l k v) = keys l ++ [k].
Proof. induction l as [|[k0 v0] r IH]; simpl; auto.
  intros H. destruct (Nat.eqb k k0) eqn:E; simpl.
  - apply Nat.eqb_eq in E; subst; tauto.
  - f_equal. apply IH. tauto. Qed.

Lemma put_notin l k v : ~ In k (keys l) -> put l k v = l ++ [(k, v)].
Proof. induction l as [|[k0 v0] r IH]; simpl; auto.
  intros H. destruct (Nat.eqb k k0) eqn:E; simpl.
  - apply Nat.eqb_eq in E; subst; tauto.
  - f_equal. apply IH. tauto. Qed.

Lemma in_keys_put l k v k' : In k' (keys (put l k v)) <-> k' = k \/ In k' (keys l).
Proof. induction l as [|[k0 v0] r IH]; simpl.
  - intuition.
  - destruct (Nat.eqb k k0) eqn:E; simpl.
    + apply Nat.eqb_eq in E; subst. intuition.
    + rewrite IH. intuition. Qed.

Lemma NoDup_keys_put l k v : NoDup (keys l) -> NoDup (keys (put l k v)).
Proof. intros ND. destruct (in_dec Nat.eq_dec k (keys l)) as [H|H].
  - now rewrite keys_put_in.
  - rewrite keys_put_notin by auto. now apply NoDup_snoc. Qed.

Lemma get_del_ne l k k' : k <> k' -> get (del l k) k' = get l k'.
Proof. intros N. induction l as [|[k0 v0] r IH]; simpl; auto.
  destruct (Nat.eqb k k0) eqn:E; simpl.
  - apply Nat.eqb_eq in E; subst k0. destruct (Nat.eqb k' k) eqn:E2; auto. apply Nat.eqb_eq in E2; congruence.
  - now rewrite IH. Qed.

Lemma in_keys_del l k k' : In k' (keys (del l k)) -> In k' (keys l).
Proof. induction l as [|[k0 v0] r IH]; simpl; auto.
  destruct (Nat.eqb k k0) eqn:E; simpl; intuition. Qed.

Lemma NoDup_keys_del l k : NoDup (keys l) -> NoDup (keys (del l k)).
Proof. induction l as [|[k0 v0] r IH]; simpl; auto.
  intros ND; inversion ND; subst. destruct (Nat.eqb k k0) eqn:E; simpl; auto.
  constructor; auto. intros H; apply H1. eapply in_keys_del; eauto. Qed.

Lemma get_del_eq l k : NoDup (keys l) -> get (del l k) k = None.
Proof. induction l as [|[k0 v0] r IH]; simpl; auto.
  intros ND; inversion ND; subst. destruct (Nat.eqb k k0) eqn:E; simpl.
  - apply Nat.eqb_eq in E; subst. now apply get_None_keys.
  - rewrite E; auto. Qed.

Lemma get_del l k k' : NoDup (keys l) -> get (del l k) k' = if Nat.eqb k k' then None else get l k'.
Proof. intros ND. destruct (Nat.eqb k k') eqn:E.
  - apply Nat.eqb_eq in E; subst; now apply get_del_eq.
  - apply Nat.eqb_neq in E; now apply get_del_ne. Qed.

Lemma del_notin l k : ~ In k (keys l) -> del l k = l.
Proof. induction l as [|[k0 v0] r IH]; simpl; auto.
  intros H. destruct (Nat.eqb k k0) eqn:E.
  - apply Nat.eqb_eq in E; subst; tauto.
  - f_equal; apply IH; tauto. Qed.

Lemma del_app_notin l l2 k : ~ In k (keys l) -> del (l ++ l2) k = l ++ del l2 k.
Proof. induction l as [|[k0 v0] r IH]; simpl; auto.
  intros H. destruct (Nat.eqb k k0) eqn:E.
  - apply Nat.eqb_eq in E; subst; tauto.
  - f_equal; apply IH; tauto. Qed.

Lemma keys_del_in l k k' : NoDup (keys l) -> (In k' (keys (del l k)) <-> k' <> k /\ In k' (keys l)).
Proof. induction l as [|[k0 v0] r IH]; simpl.
  - tauto.
  - intros ND; inversion ND; subst. destruct (Nat.eqb k k0) eqn:E; simpl.
    + apply Nat.eqb_eq in E; subst. split.
      * intros H; split; auto. intros ->; tauto.
      * intros [Ha [Hb|Hb]]; congruence.
    + apply Nat.eqb_neq in E. rewrite IH by auto. intuition; subst; tauto. Qed.

(* tables with the same key list (in the same order, no duplicates) and the same contents are equal *)
Lemma table_ext l1 l2 : keys l1 = keys l2 -> NoDup (keys l1) -> (forall k, In k (keys l1) -> get l1 k = get l2 k) -> l1 = l2.
Proof. revert l2. induction l1 as [|[k v] r IH]; intros [|[k2 v2] r2]; simpl; try discriminate; auto.
  intros HK ND HG. inversion HK; subst k2. inversion ND; subst.
  assert (v = v2). { specialize (HG k (or_introl eq_refl)). rewrite Nat.eqb_refl in HG. congruence. }
  subst v2. f_equal. apply IH; auto.
  intros k' Hk'. specialize (HG k' (or_intror Hk')).
  destruct (Nat.eqb k' k) eqn:E; auto. apply Nat.eqb_eq in E; subst; tauto. Qed.

Lemma put_same l k v : get l k = Some v -> put l k v = l.
Proof. induction l as [|[k0 v0] r IH]; simpl; [discriminate|].
  destruct (Nat.eqb k k0) eqn:E; intros H.
  - apply Nat.eqb_eq in E; subst. congruence.
  - f_equal; auto. Qed.

End Tables.

(* ------------------------------------------------------------------ the five tables of a heap *)

Definition same_tables (h h' : heap) : Prop :=
  h_t h' = h_t h /\ h_o h' = h_o h /\ h_set h' = h_set h /\ h_lst h' = h_lst h /\ h_arr h' = h_arr h.

Lemma same_tables_refl h : same_tables h h.
Proof. repeat split. Qed.

Lemma same_tables_trans h1 h2 h3 : same_tables h1 h2 -> same_tables h2 h3 -> same_tables h1 h3.
Proof. unfold same_tables; intuition congruence. Qed.

(* option / bind inversion *)
Lemma bind_Some {A B} (o : option A) (f : A -> option B) b : bind o f = Some b -> exists a, o = Some a /\ f a = Some b.
Proof. destruct o; simpl; [eauto|discriminate]. Qed.

Ltac inv_bind H :=
  let a := fresh "a" in let E := fresh "E" in
  apply bind_Some in H; destruct H as (a & E & H).

(* mem / repl *)
Lemma mem_In x l : mem x l = true <-> In x l.
Proof. unfold mem. rewrite existsb_exists. split.
  - intros (y & Hy & E). apply Nat.eqb_eq in E; now subst.
  - intros H; exists x; split; auto. apply Nat.eqb_refl. Qed.

Lemma mem_false x l : mem x l = false <-> ~ In x l.
Proof. rewrite <- mem_In. destruct (mem x l); intuition congruence. Qed.

Lemma repl_notin a b l : ~ In a l -> repl a b l = l.
Proof. unfold repl. induction l; simpl; auto. intros H.
  destruct (Nat.eqb a0 a) eqn:E.
  - apply Nat.eqb_eq in E; subst; tauto.
  - f_equal; apply IHl; tauto. Qed.

Lemma repl_back a b l : ~ In b l -> repl b a (repl a b l) = l.
Proof. unfold repl. induction l; simpl; auto. intros H. f_equal; [|apply IHl; tauto].
  destruct (Nat.eqb a0 a) eqn:E.
  - apply Nat.eqb_eq in E; subst. now rewrite Nat.eqb_refl.
  - destruct (Nat.eqb a0 b) eqn:E2; auto. apply Nat.eqb_eq in E2; subst; tauto. Qed.

(* record eta *)
Lemma with_base_id r : with_base r (t_base r) = r. Proof. now destruct r. Qed.
Lemma with_grads_id r : with_grads r (t_grad r) (t_vgrad r) = r. Proof. now destruct r. Qed.
