(* Proofs about the history-level engine model of Model/GraphP.v:
   1. the checked sweep agrees with the unchecked one when it reports no error;
   2. the DFS order of Tensor.backward is a valid processing order;
   3. well-formedness invariant of histories;
   4. MAIN: do_backward computes the adjoint of forward-mode tangents (C01);
   5. constants never hold a gradient (C10). *)
From Coq Require Import ZArith List Arith Bool Lia Ring.
Import ListNotations.
From MG Require Import Base.EngCore Base.GatherScatter Base.Dfs Base.EngOrder
                       Model.OpsExact Proofs.OpsExactP Model.GraphP.
Local Open Scope nat_scope.

(* ------------------------------------------------------------------------- *)
(** * 0. small list facts                                                      *)
(* ------------------------------------------------------------------------- *)

Lemma length_set_nth {X} (l : list X) i x : length (set_nth l i x) = length l.
Proof. revert i; induction l as [|y l IH]; intros [|i]; simpl; auto. Qed.

Lemma length_set_all {X} (is : list nat) : forall (l : list X) x, length (set_all l is x) = length l.
Proof.
  unfold set_all. induction is as [|i is IH]; intros l x; simpl; [reflexivity|].
  rewrite IH. apply length_set_nth.
Qed.

Lemma nth_set_nth_eq {X} (l : list X) i x d : i < length l -> nth i (set_nth l i x) d = x.
Proof.
  revert i; induction l as [|y l IH]; intros [|i] H; simpl in *; try lia; [reflexivity|].
  apply IH. lia.
Qed.

Lemma nth_set_nth_neq {X} (l : list X) i x j d : i <> j -> nth j (set_nth l i x) d = nth j l d.
Proof.
  revert i j; induction l as [|y l IH]; intros [|i] [|j] H; simpl; try reflexivity; try lia.
  apply IH. lia.
Qed.

(* setting an entry to the default value: the entry reads as the default whatever the length *)
Lemma nth_set_nth_default {X} (l : list X) i d : nth i (set_nth l i d) d = d.
Proof.
  destruct (Nat.lt_ge_cases i (length l)) as [H|H].
  - apply nth_set_nth_eq. exact H.
  - apply nth_overflow. rewrite length_set_nth. exact H.
Qed.

Lemma nth_set_all_notin {X} (is : list nat) : forall (l : list X) x k d,
  ~ In k is -> nth k (set_all l is x) d = nth k l d.
Proof.
  unfold set_all. induction is as [|i is IH]; intros l x k d Hk; simpl; [reflexivity|].
  rewrite IH by (intros H; apply Hk; now right).
  apply nth_set_nth_neq. intros ->. apply Hk. now left.
Qed.

Lemma nth_set_all_keep_default {X} (is : list nat) : forall (l : list X) k d,
  nth k l d = d -> nth k (set_all l is d) d = d.
Proof.
  unfold set_all. induction is as [|i is IH]; intros l k d Hk; simpl; [exact Hk|].
  apply IH. destruct (Nat.eq_dec i k) as [->|Hne].
  - apply nth_set_nth_default.
  - rewrite nth_set_nth_neq by exact Hne. exact Hk.
Qed.

Lemma nth_set_all_in_default {X} (is : list nat) : forall (l : list X) k d,
  In k is -> nth k (set_all l is d) d = d.
Proof.
  induction is as [|i is IH]; intros l k d Hk; [destruct Hk|].
  destruct Hk as [->|Hk].
  - change (set_all l (k :: is) d) with (set_all (set_nth l k d) is d).
    apply nth_set_all_keep_default. apply nth_set_nth_default.
  - change (set_all l (i :: is) d) with (set_all (set_nth l i d) is d).
    apply IH. exact Hk.
Qed.

(* either untouched or reset *)
Lemma nth_set_all_default_cases {X} (is : list nat) (l : list X) k d :
  nth k (set_all l is d) d = d \/ nth k (set_all l is d) d = nth k l d.
Proof.
  destruct (in_dec Nat.eq_dec k is) as [H|H].
  - left. apply nth_set_all_in_default. exact H.
  - right. apply nth_set_all_notin. exact H.
Qed.

Lemma nth_error_snoc {X} (l : list X) (n : X) k x :
  nth_error (l ++ [n]) k = Some x -> nth_error l k = Some x \/ (k = length l /\ x = n).
Proof.
  intros H. destruct (Nat.lt_ge_cases k (length l)) as [Hk|Hk].
  - left. rewrite nth_error_app1 in H by exact Hk. exact H.
  - right. rewrite nth_error_app2 in H by exact Hk.
    destruct (k - length l) as [|m] eqn:E; simpl in H.
    + inversion H. split; [lia|reflexivity].
    + destruct m; discriminate.
Qed.

(* ------------------------------------------------------------------------- *)
(** * 1. the checked sweep is the plain sweep when no error is raised          *)
(* ------------------------------------------------------------------------- *)

Lemma push_chk_sound (P : list znode) (ho : list bool) (o : op Z) :
  forall (is : list nat) (p : nat) (g : zvec) (G G' : list zvec),
  push_chk P ho o p is g G = (G', false) -> G' = push Z Z.add P o p is g G.
Proof.
  induction is as [|i is IH]; intros p g G G' H; simpl in *.
  - inversion H. reflexivity.
  - destruct (nconst Z (nth i P (Leaf Z true))) eqn:Hc.
    + apply IH. exact H.
    + destruct (negb (nth i ho false)); [discriminate|]. apply IH. exact H.
Qed.

Lemma step_chk_sound (P : list znode) (ho : list bool) (k : nat) (G G' : list zvec) :
  step_chk P ho k G = (G', false) -> G' = step Z Z.add P k G.
Proof.
  unfold step_chk, step. intros H.
  destruct (nth k P (Leaf Z true)) as [c|[|] o].
  - inversion H. reflexivity.
  - inversion H. reflexivity.
  - apply push_chk_sound with (ho := ho). exact H.
Qed.

Theorem sweep_chk_sound (P : list znode) (ho : list bool) :
  forall (order : list nat) (G G' : list zvec),
  sweep_chk P ho order G = (G', false) -> G' = sweepL Z Z.add P order G.
Proof.
  induction order as [|k order IH]; intros G G' H; simpl in *.
  - inversion H. reflexivity.
  - destruct (step_chk P ho k G) as [G1 e] eqn:E.
    destruct e; [discriminate|].
    apply step_chk_sound in E. subst G1. apply IH. exact H.
Qed.
Print Assumptions sweep_chk_sound.

(* ------------------------------------------------------------------------- *)
(** * 2. the DFS order is a valid processing order                             *)
(* ------------------------------------------------------------------------- *)

Section Collect.
Variable P : list (node Z).
Hypothesis Hwf : wf Z P.

Lemma inputs_lt (t i : nat) : In i (inputs Z P t) -> i < t.
Proof.
  unfold inputs. intros H. destruct (nth_error P t) as [n|] eqn:E.
  - rewrite (nth_error_nth P t (Leaf Z true) E) in H. destruct n as [c|c o]; [destruct H|].
    pose proof (Hwf t c o E) as F. rewrite Forall_forall in F. apply F. exact H.
  - apply nth_error_None in E. rewrite nth_overflow in H by exact E. destruct H.
Qed.

Lemma isconst_false_lt (k : nat) : isconst Z P k = false -> k < length P.
Proof.
  unfold isconst. intros H. destruct (Nat.lt_ge_cases k (length P)) as [Hk|Hk]; [exact Hk|].
  rewrite nth_overflow in H by exact Hk. simpl in H. discriminate.
Qed.

Theorem collect_valid (L : nat) : L < length P -> isconst Z P L = false ->
  let order := collect (inputs Z P) (isconst Z P) L in
  valid_rest Z P order /\ In L order /\
  (forall k, In k order -> isconst Z P k = false /\ k <= L).
Proof.
  intros HL Hc order.
  pose proof (collect_spec (inputs Z P) (isconst Z P) inputs_lt L Hc) as Hs.
  cbv zeta in Hs. fold order in Hs. destruct Hs as (ND & Hhd & Hord).
  split; [|split].
  - intros r1 k r2 E. destruct (Hord r1 k r2 E) as [Fk Hin].
    split; [apply isconst_false_lt; exact Fk|]. split.
    + rewrite E in ND. apply NoDup_remove_2 in ND. intros Hk. apply ND. apply in_or_app. now right.
    + intros i Hi Hci. apply Hin; [exact Hi|exact Hci].
  - destruct order as [|x order']; simpl in Hhd; [discriminate|]. inversion Hhd. now left.
  - assert (G0 : good (inputs Z P) (isconst Z P) []).
    { split; [constructor|]. split; [intros pre k post E; destruct pre; discriminate|intros k []]. }
    destruct (dfs_spec (inputs Z P) (isconst Z P) inputs_lt (S L) L [] (Nat.lt_succ_diag_r L) G0)
      as ((_ & _ & Fr) & _ & (new & Enew & Bnew)).
    intros k Hk. split.
    + apply Fr. exact Hk.
    + unfold order, collect in Hk. rewrite Enew, app_nil_r in Hk.
      rewrite Forall_forall in Bnew. apply Bnew. exact Hk.
Qed.
End Collect.
Print Assumptions collect_valid.

(* ------------------------------------------------------------------------- *)
(** * 3. well-formedness invariant                                             *)
(* ------------------------------------------------------------------------- *)

Definition stmt_ok (st : gstate) (s : stmt) : bool :=
  match s with
  | SApp _ _ o => cop_wf_at Z 0%Z 1%Z Z.mul (g_vals st) (length (g_vals st)) o
  | _ => true
  end.

Definition lens_ok (st : gstate) : Prop :=
  length (g_nodes st) = length (g_vals st) /\
  length (g_cleared st) = length (g_vals st) /\
  length (g_hasops st) = length (g_vals st) /\
  length (g_grad st) = length (g_vals st).

Definition Inv (st : gstate) : Prop :=
  lens_ok st /\ wf Z (g_nodes st) /\ ops_ok Z 0%Z Z.add Z.mul (g_nodes st).

(* every statement is ok at the state where it executes *)
Fixpoint hist_ok (st : gstate) (h : list stmt) : bool :=
  match h with
  | [] => true
  | s :: h' => stmt_ok st s && hist_ok (fst (exec_stmt st s)) h'
  end.

Lemma Inv_init : Inv g_init.
Proof.
  split; [repeat split|]. split.
  - intros k c o H. destruct k; discriminate.
  - intros k c o H. destruct k; discriminate.
Qed.

(* Inv only looks at the lengths and at g_nodes *)
Lemma Inv_transfer (st st' : gstate) :
  Inv st -> g_vals st' = g_vals st -> g_nodes st' = g_nodes st ->
  length (g_cleared st') = length (g_cleared st) ->
  length (g_hasops st') = length (g_hasops st) ->
  length (g_grad st') = length (g_grad st) -> Inv st'.
Proof.
  intros ((L1 & L2 & L3 & L4) & W & O) Ev En Ec Eh Eg.
  unfold Inv, lens_ok. rewrite Ev, En, Ec, Eh, Eg. repeat split; assumption.
Qed.

Lemma wf_snoc (P : list znode) (n : znode) :
  wf Z P -> (forall c o, n = App Z c o -> Forall (fun i => i < length P) (ins Z o)) -> wf Z (P ++ [n]).
Proof.
  intros W Hn k c o H. apply nth_error_snoc in H. destruct H as [H|[-> H]].
  - exact (W k c o H).
  - apply (Hn c o). symmetry. exact H.
Qed.

Lemma ops_ok_snoc (P : list znode) (n : znode) :
  ops_ok Z 0%Z Z.add Z.mul P -> (forall c o, n = App Z c o -> op_ok Z 0%Z Z.add Z.mul o) ->
  ops_ok Z 0%Z Z.add Z.mul (P ++ [n]).
Proof.
  intros W Hn k c o H. apply nth_error_snoc in H. destruct H as [H|[-> H]].
  - exact (W k c o H).
  - apply (Hn c o). symmetry. exact H.
Qed.

(* a well-formed concrete operation, linearised at `vals`, is a well-formed exact abstract operation *)
Lemma linearize_ok (vals : list zvec) (k : nat) (o : zcop) :
  cop_wf_at Z 0%Z 1%Z Z.mul vals k o = true ->
  let o' := to_op Z 0%Z Z.add Z.mul (linearize Z 0%Z 1%Z Z.mul vals o) in
  Forall (fun i => i < k) (ins Z o') /\ op_ok Z 0%Z Z.add Z.mul o'.
Proof.
  intros Hop o'. unfold cop_wf_at in Hop. apply andb_prop in Hop. destruct Hop as [Hsrc Hl].
  split; [|apply (lop_ok Z 0%Z 1%Z Z.add Z.mul Z.sub Z.opp InitialRing.Zth); exact Hl].
  unfold o'. simpl. rewrite map_map.
  rewrite Forall_forall. intros i Hi. apply in_map_iff in Hi. destruct Hi as ((p & a) & <- & Hin).
  simpl. apply in_combine_r in Hin. rewrite forallb_forall in Hsrc. apply Nat.ltb_lt. apply Hsrc. exact Hin.
Qed.

Lemma Inv_do_leaf (st : gstate) (c : bool) (v : zvec) : Inv st -> Inv (do_leaf st c v).
Proof.
  intros ((L1 & L2 & L3 & L4) & W & O). unfold do_leaf. split; [|split]; simpl.
  - unfold lens_ok; simpl. rewrite !app_length; simpl. lia.
  - apply wf_snoc; [exact W|]. intros c' o' E. discriminate.
  - apply ops_ok_snoc; [exact O|]. intros c' o' E. discriminate.
Qed.

Lemma Inv_do_app (st : gstate) (fc : option bool) (vw : bool) (o : zcop) :
  Inv st -> stmt_ok st (SApp fc vw o) = true -> Inv (fst (do_app st fc vw o)).
Proof.
  intros HI Hok. pose proof HI as ((L1 & L2 & L3 & L4) & W & O). simpl in Hok.
  unfold do_app.
  match goal with |- context [if negb ?b then _ else _] => destruct (negb b) end; [exact HI|].
  destruct (linearize_ok _ _ _ Hok) as [Hins Hop].
  split; [|split]; simpl.
  - unfold lens_ok; simpl. rewrite !app_length; simpl. rewrite length_set_all.
    destruct vw; [|rewrite length_set_all]; lia.
  - apply wf_snoc; [exact W|]. intros c' o' E. inversion E; subst o'. rewrite L1. exact Hins.
  - apply ops_ok_snoc; [exact O|]. intros c' o' E. inversion E; subst o'. exact Hop.
Qed.

Lemma clear_from_len : forall (fuel : nat) (nodes : list znode) (t : nat) (acc : list bool * list bool),
  length (fst (clear_from fuel nodes t acc)) = length (fst acc) /\
  length (snd (clear_from fuel nodes t acc)) = length (snd acc).
Proof.
  induction fuel as [|f IH]; intros nodes t [cl ho]; simpl; [split; reflexivity|].
  destruct (nth t nodes (Leaf Z true)) as [c|c o]; simpl.
  - rewrite length_set_nth. split; reflexivity.
  - destruct (nth t cl true); simpl.
    + rewrite length_set_nth. split; reflexivity.
    + assert (Hfold : forall (is : list nat) (acc : list bool * list bool),
                length (fst (fold_left (fun a i => clear_from f nodes i a) is acc)) = length (fst acc) /\
                length (snd (fold_left (fun a i => clear_from f nodes i a) is acc)) = length (snd acc)).
      { induction is as [|i is IHis]; intros acc; simpl; [split; reflexivity|].
        destruct (IHis (clear_from f nodes i acc)) as [E1 E2].
        destruct (IH nodes i acc) as [E3 E4]. rewrite E1, E2, E3, E4. split; reflexivity. }
      destruct (Hfold (ins Z o) (set_nth cl t true, set_nth ho t false)) as [E1 E2].
      simpl in E1, E2. rewrite !length_set_nth in *. split; assumption.
Qed.

Lemma do_clear_fields (st : gstate) (t : nat) :
  g_vals (do_clear st t) = g_vals st /\ g_nodes (do_clear st t) = g_nodes st /\
  g_grad (do_clear st t) = g_grad st /\
  length (g_cleared (do_clear st t)) = length (g_cleared st) /\
  length (g_hasops (do_clear st t)) = length (g_hasops st).
Proof.
  unfold do_clear.
  pose proof (clear_from_len (S t) (g_nodes st) t (g_cleared st, g_hasops st)) as [E1 E2].
  destruct (clear_from (S t) (g_nodes st) t (g_cleared st, g_hasops st)) as [cl ho].
  simpl in *. repeat split; assumption.
Qed.

Lemma Inv_do_clear (st : gstate) (t : nat) : Inv st -> Inv (do_clear st t).
Proof.
  intros HI. destruct (do_clear_fields st t) as (E1 & E2 & E3 & E4 & E5).
  apply (Inv_transfer st); try assumption. now rewrite E3.
Qed.

(* the gradient write-back loop of Tensor.backward *)
Definition write_grads (G : list zvec) (order : list nat) (gr : list (option zvec)) : list (option zvec) :=
  fold_left (fun gr k => match nth k G [] with [] => gr | v => set_nth gr k (Some v) end) order gr.

Lemma length_write_grads (G : list zvec) (order : list nat) :
  forall gr, length (write_grads G order gr) = length gr.
Proof.
  unfold write_grads. induction order as [|k order IH]; intros gr; simpl; [reflexivity|].
  rewrite IH. destruct (nth k G []); [reflexivity|apply length_set_nth].
Qed.

(* shape of do_backward on a valid non-constant target *)
Definition bw_seed (st : gstate) (t : nat) (seed : option zvec) : zvec :=
  match seed with Some g => g | None => repeat 1%Z (length (nth t (g_vals st) [])) end.
Definition bw_G0 (st : gstate) (t : nat) (seed : option zvec) : list zvec :=
  upd Z Z.add (repeat [] (length (g_vals st))) t (bw_seed st t seed).
Definition bw_state (st : gstate) (t : nat) (G : list zvec) : gstate :=
  {| g_vals := g_vals st; g_nodes := g_nodes st; g_cleared := g_cleared st; g_hasops := g_hasops st;
     g_grad := write_grads G (order_of st t) (set_all (g_grad st) (order_of st t) None) |}.

Lemma do_backward_cases (st : gstate) (t : nat) (seed : option zvec) :
  (t < length (g_vals st) -> False) /\ do_backward st t seed = (st, BadStmt)
  \/ t < length (g_vals st) /\ n_const st t = true /\ do_backward st t seed = (do_clear st t, Ok)
  \/ t < length (g_vals st) /\ n_const st t = false /\
     exists G err, sweep_chk (g_eff st) (g_hasops st) (order_of st t) (bw_G0 st t seed) = (G, err) /\
       do_backward st t seed =
         if err then (bw_state st t G, InvalidBackprop) else (do_clear (bw_state st t G) t, Ok).
Proof.
  unfold do_backward.
  destruct (Nat.ltb_spec t (length (g_vals st))) as [Ht|Ht]; simpl.
  2:{ left. split; [lia|reflexivity]. }
  right. destruct (n_const st t) eqn:Hc.
  - left. repeat split; auto.
  - right. split; [exact Ht|]. split; [reflexivity|].
    fold (bw_seed st t seed). fold (bw_G0 st t seed).
    destruct (sweep_chk (g_eff st) (g_hasops st) (order_of st t) (bw_G0 st t seed)) as [G err] eqn:E.
    exists G, err. split; [reflexivity|]. reflexivity.
Qed.

Lemma Inv_bw_state (st : gstate) (t : nat) (G : list zvec) : Inv st -> Inv (bw_state st t G).
Proof.
  intros HI. apply (Inv_transfer st); try reflexivity; [exact HI|].
  simpl. rewrite length_write_grads, length_set_all. reflexivity.
Qed.

Lemma Inv_do_backward (st : gstate) (t : nat) (seed : option zvec) :
  Inv st -> Inv (fst (do_backward st t seed)).
Proof.
  intros HI.
  destruct (do_backward_cases st t seed) as [[_ E]|[(_ & _ & E)|(_ & _ & G & err & _ & E)]]; rewrite E.
  - exact HI.
  - apply Inv_do_clear. exact HI.
  - destruct err; simpl.
    + apply Inv_bw_state. exact HI.
    + apply Inv_do_clear. apply Inv_bw_state. exact HI.
Qed.

Theorem Inv_exec_stmt (st : gstate) (s : stmt) :
  Inv st -> stmt_ok st s = true -> Inv (fst (exec_stmt st s)).
Proof.
  intros HI Hok. destruct s as [c v|fc vw o|t seed|t|t]; simpl.
  - apply Inv_do_leaf. exact HI.
  - apply Inv_do_app; assumption.
  - apply Inv_do_backward. exact HI.
  - destruct (t <? length (g_vals st)); simpl; [apply Inv_do_clear|]; exact HI.
  - destruct (t <? length (g_vals st)); simpl; [|exact HI].
    apply (Inv_transfer st); try reflexivity; [exact HI|]. simpl. apply length_set_nth.
Qed.

Lemma run_hist_cons (st : gstate) (s : stmt) (h : list stmt) :
  fst (run_hist st (s :: h)) = fst (run_hist (fst (exec_stmt st s)) h).
Proof.
  simpl. destruct (exec_stmt st s) as [st1 o]. simpl.
  destruct (run_hist st1 h) as [st2 os]. reflexivity.
Qed.

Lemma run_hist_app (h1 h2 : list stmt) : forall st,
  fst (run_hist st (h1 ++ h2)) = fst (run_hist (fst (run_hist st h1)) h2).
Proof.
  induction h1 as [|s h1 IH]; intros st; [reflexivity|].
  rewrite <- app_comm_cons. rewrite !run_hist_cons. apply IH.
Qed.

Lemma hist_ok_app (h1 h2 : list stmt) : forall st,
  hist_ok st (h1 ++ h2) = hist_ok st h1 && hist_ok (fst (run_hist st h1)) h2.
Proof.
  induction h1 as [|s h1 IH]; intros st; [reflexivity|].
  rewrite <- app_comm_cons. rewrite run_hist_cons.
  change (hist_ok st (s :: h1 ++ h2)) with (stmt_ok st s && hist_ok (fst (exec_stmt st s)) (h1 ++ h2)).
  change (hist_ok st (s :: h1)) with (stmt_ok st s && hist_ok (fst (exec_stmt st s)) h1).
  rewrite IH. now rewrite andb_assoc.
Qed.

Theorem Inv_run_hist (h : list stmt) : forall st,
  Inv st -> hist_ok st h = true -> Inv (fst (run_hist st h)).
Proof.
  induction h as [|s h IH]; intros st HI Hok; [exact HI|].
  simpl in Hok. apply andb_prop in Hok. destruct Hok as [Hs Hh].
  rewrite run_hist_cons. apply IH; [apply Inv_exec_stmt; assumption|exact Hh].
Qed.

(* every state reached along a well-formed history satisfies Inv *)
Corollary Inv_reachable (h1 h2 : list stmt) :
  hist_ok g_init (h1 ++ h2) = true -> Inv (fst (run_hist g_init h1)).
Proof.
  intros H. rewrite hist_ok_app in H. apply andb_prop in H. destruct H as [H1 _].
  apply Inv_run_hist; [apply Inv_init|exact H1].
Qed.

(* ---- the effective graph (cleared creators become leaves) ---- *)
Lemma eff_nodes_length (ns : list znode) : forall cl, length (eff_nodes ns cl) = length ns.
Proof.
  induction ns as [|n ns IH]; intros [|c cl]; simpl; try reflexivity. now rewrite IH.
Qed.

Lemma eff_node_App (n : znode) (b c : bool) (o : op Z) : eff_node n b = App Z c o -> n = App Z c o.
Proof. destruct n as [c'|c' o']; destruct b; simpl; intros H; try discriminate; exact H. Qed.

Lemma eff_node_nconst (n : znode) (b : bool) : nconst Z (eff_node n b) = nconst Z n.
Proof. destruct n as [c'|c' o']; destruct b; reflexivity. Qed.

Lemma eff_nodes_nth_error (ns : list znode) : forall cl k c o,
  nth_error (eff_nodes ns cl) k = Some (App Z c o) -> nth_error ns k = Some (App Z c o).
Proof.
  induction ns as [|n ns IH]; intros [|b cl] k c o H; simpl in *; try exact H.
  destruct k as [|k]; simpl in *.
  - inversion H as [E]. rewrite E. apply eff_node_App in E. now rewrite E.
  - apply (IH cl). exact H.
Qed.

Lemma eff_nodes_nconst (ns : list znode) : forall cl k,
  nconst Z (nth k (eff_nodes ns cl) (Leaf Z true)) = nconst Z (nth k ns (Leaf Z true)).
Proof.
  induction ns as [|n ns IH]; intros [|b cl] k; simpl; try reflexivity.
  destruct k as [|k]; [apply eff_node_nconst|apply IH].
Qed.

Lemma g_eff_length (st : gstate) : length (g_eff st) = length (g_nodes st).
Proof. apply eff_nodes_length. Qed.

Lemma g_eff_isconst (st : gstate) (k : nat) : isconst Z (g_eff st) k = n_const st k.
Proof. apply eff_nodes_nconst. Qed.

Lemma g_eff_wf (st : gstate) : wf Z (g_nodes st) -> wf Z (g_eff st).
Proof. intros W k c o H. apply (W k c o). eapply eff_nodes_nth_error. exact H. Qed.

Lemma g_eff_ops_ok (st : gstate) : ops_ok Z 0%Z Z.add Z.mul (g_nodes st) -> ops_ok Z 0%Z Z.add Z.mul (g_eff st).
Proof. intros W k c o H. apply (W k c o). eapply eff_nodes_nth_error. exact H. Qed.

Theorem Inv_g_eff (st : gstate) : Inv st ->
  wf Z (g_eff st) /\ ops_ok Z 0%Z Z.add Z.mul (g_eff st) /\
  length (g_eff st) = length (g_nodes st) /\ length (g_eff st) = length (g_vals st).
Proof.
  intros ((L1 & _) & W & O). split; [apply g_eff_wf; exact W|]. split; [apply g_eff_ops_ok; exact O|].
  rewrite g_eff_length. split; [reflexivity|exact L1].
Qed.
Print Assumptions Inv_exec_stmt.
Print Assumptions Inv_run_hist.
Print Assumptions Inv_g_eff.

(* ------------------------------------------------------------------------- *)
(** * 4. MAIN: Tensor.backward computes the adjoint of the forward tangents    *)
(* ------------------------------------------------------------------------- *)

Section WriteGrads.
Variable G : list zvec.

Lemma wg_notin (order : list nat) : forall gr k,
  ~ In k order -> nth k (write_grads G order gr) None = nth k gr None.
Proof.
  unfold write_grads. induction order as [|a order IH]; intros gr k Hk; simpl; [reflexivity|].
  rewrite IH by (intros H; apply Hk; now right).
  destruct (nth a G []); [reflexivity|].
  apply nth_set_nth_neq. intros ->. apply Hk. now left.
Qed.

Lemma wg_nil (order : list nat) : forall gr k,
  nth k G [] = [] -> nth k (write_grads G order gr) None = nth k gr None.
Proof.
  unfold write_grads. induction order as [|a order IH]; intros gr k Hk; simpl; [reflexivity|].
  rewrite IH by exact Hk.
  destruct (nth a G []) as [|z v] eqn:E; [reflexivity|].
  apply nth_set_nth_neq. intros ->. rewrite Hk in E. discriminate.
Qed.

Lemma wg_keep (order : list nat) : forall gr k,
  nth k gr None = Some (nth k G []) -> nth k (write_grads G order gr) None = Some (nth k G []).
Proof.
  unfold write_grads. induction order as [|a order IH]; intros gr k Hk; simpl; [exact Hk|].
  apply IH. destruct (nth a G []) as [|z v] eqn:E; [exact Hk|].
  destruct (Nat.eq_dec a k) as [->|Hne].
  - assert (Hlt : k < length gr).
    { destruct (Nat.lt_ge_cases k (length gr)) as [H|H]; [exact H|].
      rewrite nth_overflow in Hk by exact H. discriminate. }
    rewrite nth_set_nth_eq by exact Hlt. rewrite E. reflexivity.
  - rewrite nth_set_nth_neq by exact Hne. exact Hk.
Qed.

Lemma wg_in (order : list nat) : forall gr k,
  In k order -> k < length gr -> nth k G [] <> [] ->
  nth k (write_grads G order gr) None = Some (nth k G []).
Proof.
  induction order as [|a order IH]; intros gr k Hin Hlt Hne; [destruct Hin|].
  change (write_grads G (a :: order) gr)
    with (write_grads G order (match nth a G [] with [] => gr | v => set_nth gr a (Some v) end)).
  destruct Hin as [->|Hin].
  - apply wg_keep. destruct (nth k G []) as [|z v] eqn:E; [contradiction|].
    apply nth_set_nth_eq. exact Hlt.
  - apply IH; [exact Hin| |exact Hne].
    destruct (nth a G []); [exact Hlt|]. rewrite length_set_nth. exact Hlt.
Qed.
End WriteGrads.

Lemma n_const_ext (st st' : gstate) (k : nat) : g_nodes st' = g_nodes st -> n_const st' k = n_const st k.
Proof. unfold n_const. intros ->. reflexivity. Qed.

(* the order used by backward is valid, and all its members are non-constant tensors <= t *)
Lemma order_of_valid (st : gstate) (t : nat) :
  Inv st -> t < length (g_vals st) -> n_const st t = false ->
  valid_rest Z (g_eff st) (order_of st t) /\ In t (order_of st t) /\
  (forall k, In k (order_of st t) -> n_const st k = false /\ k <= t).
Proof.
  intros HI Ht Hc. destruct (Inv_g_eff st HI) as (Wf & _ & _ & LP).
  assert (Hci : isconst Z (g_eff st) t = false) by (rewrite g_eff_isconst; exact Hc).
  assert (HtP : t < length (g_eff st)) by lia.
  destruct (collect_valid (g_eff st) Wf t HtP Hci) as (Hv & HinL & Hmem).
  split; [exact Hv|]. split; [exact HinL|].
  intros k Hk. destruct (Hmem k Hk) as [H1 H2]. rewrite g_eff_isconst in H1. split; assumption.
Qed.

Definition grad_vec (st : gstate) (k : nat) : zvec :=
  match nth k (g_grad st) None with Some v => v | None => [] end.

Theorem backward_adjoint : forall st t seed st',
  Inv st -> t < length (g_vals st) -> n_const st t = false ->
  do_backward st t seed = (st', Ok) ->
  let P := g_eff st in
  let order := order_of st t in
  let s := match seed with Some g => g | None => repeat 1%Z (length (nth t (g_vals st) [])) end in
  exists G : list zvec,
    (forall k, In k order -> grad_vec st' k = nth k G []) /\
    (forall k, ~ In k order -> nth k G [] = [] /\ nth k (g_grad st') None = nth k (g_grad st) None) /\
    (forall delta : nat -> zvec,
       leaf_sum Z 0%Z Z.add Z.mul delta 0 P G = dot Z 0%Z Z.add Z.mul s (nth t (tangents Z Z.add delta P) [])).
Proof.
  intros st t seed st' HI Ht Hc Hb P order s. subst P order s.
  change (match seed with Some g => g | None => repeat 1%Z (length (nth t (g_vals st) [])) end)
    with (bw_seed st t seed).
  destruct (Inv_g_eff st HI) as (Wf & Hops & _ & LP).
  pose proof HI as ((_ & _ & _ & Lg) & _ & _).
  destruct (order_of_valid st t HI Ht Hc) as (Hv & HinL & Hmem).
  destruct (do_backward_cases st t seed) as [[Hn _]|[(_ & Hc' & _)|(_ & _ & G & err & Hsw & E)]].
  { exfalso. apply Hn. exact Ht. }
  { rewrite Hc in Hc'. discriminate. }
  rewrite E in Hb. destruct err; [discriminate|]. inversion Hb as [Hst']. clear Hb E.
  apply sweep_chk_sound in Hsw.
  assert (HtP : t < length (g_eff st)) by lia.
  assert (Hadj : forall delta : nat -> zvec,
     leaf_sum Z 0%Z Z.add Z.mul delta 0 (g_eff st) G
       = dot Z 0%Z Z.add Z.mul (bw_seed st t seed) (nth t (tangents Z Z.add delta (g_eff st)) [])
     /\ (forall j, ~ In j (order_of st t) -> nth j G [] = [])).
  { intros delta.
    pose proof (backward_order_adjoint Z 0%Z 1%Z Z.add Z.mul Z.sub Z.opp InitialRing.Zth delta (g_eff st) Wf Hops
                  t (bw_seed st t seed) (order_of st t) HtP Hv HinL) as Hb.
    cbv zeta in Hb. rewrite LP in Hb. fold (bw_G0 st t seed) in Hb. rewrite <- Hsw in Hb. exact Hb. }
  assert (Hgr : g_grad (do_clear (bw_state st t G) t)
                = write_grads G (order_of st t) (set_all (g_grad st) (order_of st t) None)).
  { destruct (do_clear_fields (bw_state st t G) t) as (_ & _ & Eg & _). rewrite Eg. reflexivity. }
  exists G. split; [|split].
  - intros k Hk. unfold grad_vec. rewrite Hgr.
    destruct (nth k G []) as [|z v] eqn:Ek.
    + rewrite wg_nil by exact Ek. rewrite nth_set_all_in_default by exact Hk. reflexivity.
    + rewrite wg_in.
      * exact Ek.
      * exact Hk.
      * rewrite length_set_all. destruct (Hmem k Hk) as [_ Hle]. lia.
      * rewrite Ek. discriminate.
  - intros k Hk. split.
    + destruct (Hadj (fun _ => [])) as [_ Hun]. apply Hun. exact Hk.
    + rewrite Hgr. rewrite wg_notin by exact Hk. apply nth_set_all_notin. exact Hk.
  - intros delta. destruct (Hadj delta) as [Had _]. exact Had.
Qed.
Print Assumptions backward_adjoint.

(* ------------------------------------------------------------------------- *)
(** * 5. C10: a constant tensor never holds a gradient                         *)
(* ------------------------------------------------------------------------- *)

Definition no_grad_const (st : gstate) : Prop :=
  forall k, n_const st k = true -> nth k (g_grad st) None = None.

Lemma nth_snoc_None {X} (l : list (option X)) (k : nat) : nth k (l ++ [None]) None = nth k l None.
Proof.
  destruct (Nat.lt_ge_cases k (length l)) as [H|H].
  - apply app_nth1. exact H.
  - rewrite (nth_overflow l) by exact H. rewrite app_nth2 by exact H.
    destruct (k - length l) as [|[|m]]; reflexivity.
Qed.

Lemma no_grad_const_init : no_grad_const g_init.
Proof. intros k _. simpl. destruct k; reflexivity. Qed.

(* appending a node: old constants keep their status; out-of-range entries read None *)
Lemma no_grad_const_snoc (st : gstate) (n : znode) (gr : list (option zvec)) (k : nat) :
  length (g_nodes st) = length (g_grad st) -> length gr = length (g_grad st) ->
  (n_const st k = true -> nth k gr None = None) ->
  nconst Z (nth k (g_nodes st ++ [n]) (Leaf Z true)) = true -> nth k (gr ++ [None]) None = None.
Proof.
  intros Hl Hgr Hold Hk. rewrite nth_snoc_None.
  destruct (Nat.lt_ge_cases k (length (g_nodes st))) as [H|H].
  - rewrite app_nth1 in Hk by exact H. apply Hold. exact Hk.
  - apply nth_overflow. lia.
Qed.

Theorem no_grad_const_exec (st : gstate) (s : stmt) :
  Inv st -> no_grad_const st -> no_grad_const (fst (exec_stmt st s)).
Proof.
  intros HI Hng. pose proof HI as ((L1 & L2 & L3 & L4) & _ & _).
  destruct s as [c v|fc vw o|t seed|t|t]; simpl.
  - (* SLeaf *)
    intros k Hk. unfold n_const in Hk. simpl in *.
    apply (no_grad_const_snoc st (Leaf Z c) (g_grad st) k); try lia; [apply Hng|exact Hk].
  - (* SApp: only ever writes None *)
    unfold do_app.
    match goal with |- context [if negb ?b then _ else _] => destruct (negb b) end; [exact Hng|].
    intros k Hk. unfold n_const in Hk. simpl in *.
    eapply (no_grad_const_snoc st); [lia| | |exact Hk].
    + destruct vw; [|rewrite length_set_all]; reflexivity.
    + intros Hc. destruct vw; [apply Hng; exact Hc|].
      destruct (nth_set_all_default_cases (map c_src (c_args Z o)) (g_grad st) k None) as [E|E];
        rewrite E; [reflexivity|apply Hng; exact Hc].
  - (* SBackward: gradients are written only at members of the order, all non-constant *)
    destruct (do_backward_cases st t seed) as [[_ E]|[(_ & _ & E)|(Ht & Hc & G & err & _ & E)]]; rewrite E.
    + exact Hng.
    + simpl. destruct (do_clear_fields st t) as (_ & En & Eg & _).
      intros k Hk. rewrite Eg. apply Hng. rewrite (n_const_ext st _ k En) in Hk. exact Hk.
    + destruct (order_of_valid st t HI Ht Hc) as (_ & _ & Hmem).
      assert (Hbw : no_grad_const (bw_state st t G)).
      { intros k Hk. rewrite (n_const_ext st (bw_state st t G) k eq_refl) in Hk. simpl.
        assert (Hnot : ~ In k (order_of st t)).
        { intros Hin. destruct (Hmem k Hin) as [Hf _]. rewrite Hf in Hk. discriminate. }
        rewrite wg_notin by exact Hnot. rewrite nth_set_all_notin by exact Hnot. apply Hng. exact Hk. }
      destruct err; simpl; [exact Hbw|].
      destruct (do_clear_fields (bw_state st t G) t) as (_ & En & Eg & _).
      intros k Hk. rewrite Eg. apply Hbw. rewrite (n_const_ext _ _ k En) in Hk. exact Hk.
  - (* SClear *)
    destruct (t <? length (g_vals st)); simpl; [|exact Hng].
    destruct (do_clear_fields st t) as (_ & En & Eg & _).
    intros k Hk. rewrite Eg. apply Hng. rewrite (n_const_ext st _ k En) in Hk. exact Hk.
  - (* SNullGrad *)
    destruct (t <? length (g_vals st)); simpl; [|exact Hng].
    intros k Hk. simpl. destruct (Nat.eq_dec t k) as [->|Hne].
    + apply nth_set_nth_default.
    + rewrite nth_set_nth_neq by exact Hne. apply Hng. exact Hk.
Qed.

Theorem no_grad_const_run_hist (h : list stmt) : forall st,
  Inv st -> no_grad_const st -> hist_ok st h = true -> no_grad_const (fst (run_hist st h)).
Proof.
  induction h as [|s h IH]; intros st HI Hng Hok; [exact Hng|].
  simpl in Hok. apply andb_prop in Hok. destruct Hok as [Hs Hh].
  rewrite run_hist_cons. apply IH; [apply Inv_exec_stmt; assumption|apply no_grad_const_exec; assumption|exact Hh].
Qed.

(* C10: along a well-formed history every reached state (after any prefix h1) has no constant with a gradient *)
Theorem const_never_has_grad (h h1 h2 : list stmt) :
  hist_ok g_init h = true -> h = h1 ++ h2 ->
  let st := fst (run_hist g_init h1) in
  forall k, n_const st k = true -> nth k (g_grad st) None = None.
Proof.
  intros Hok -> st. rewrite hist_ok_app in Hok. apply andb_prop in Hok. destruct Hok as [H1 _].
  apply no_grad_const_run_hist; [apply Inv_init|apply no_grad_const_init|exact H1].
Qed.
Print Assumptions no_grad_const_exec.
Print Assumptions const_never_has_grad.

(* the main theorem at any state reached along a well-formed history *)
Corollary backward_adjoint_reachable (h1 h2 : list stmt) (t : nat) (seed : option zvec) (st' : gstate) :
  hist_ok g_init (h1 ++ h2) = true ->
  let st := fst (run_hist g_init h1) in
  t < length (g_vals st) -> n_const st t = false -> do_backward st t seed = (st', Ok) ->
  let P := g_eff st in
  let order := order_of st t in
  let s := match seed with Some g => g | None => repeat 1%Z (length (nth t (g_vals st) [])) end in
  exists G : list zvec,
    (forall k, In k order -> grad_vec st' k = nth k G []) /\
    (forall k, ~ In k order -> nth k G [] = [] /\ nth k (g_grad st') None = nth k (g_grad st) None) /\
    (forall delta : nat -> zvec,
       leaf_sum Z 0%Z Z.add Z.mul delta 0 P G = dot Z 0%Z Z.add Z.mul s (nth t (tangents Z Z.add delta P) [])).
Proof.
  intros Hok st Ht Hc Hb. apply backward_adjoint; try assumption.
  apply (Inv_reachable h1 h2). exact Hok.
Qed.
Print Assumptions backward_adjoint_reachable.
