(* HeapP6: specification of [dup] (T2 dup_routes), the iteration order of the graph, restore_old_graph,
   free_placeholders, and T1 dup_restore. *)
From Coq Require Import List Arith Bool PeanoNat Lia.
Import ListNotations.
From MG Require Import Model.Heap.
From MG.Proofs Require Import HeapP1 HeapWfb HeapP2 HeapP3 HeapP4 HeapP5.

Definition dup_fuel (h : heap) : nat := S (length (h_t h)).

(* everything the later proofs use about the result of DuplicatingGraph(b) *)
Record DupSpec (h0 : heap) (b : id) (h1 : heap) (g : list node) (ds_tb : tens) (ds_L : list id) : Prop := mkDS {
  ds_b : getT h0 b = Some ds_tb;
  ds_inv : Inv h0 (h_next h0) (t_base ds_tb) h1 g ds_L;
  ds_fin : forall n, In n g -> finished h0 h1 n;
  ds_pre : map tp g = pre (dup_fuel h0) h0 None b;
  ds_fits : fits (dup_fuel h0) h0 b = true;
  ds_head : exists g2, g = (b, h_next h0, None) :: g2
}.

Theorem dup_spec h0 b h1 g : wf h0 -> dup h0 b = Some (h1, g) -> exists tb L, DupSpec h0 b h1 g tb L.
Proof. intros W D. unfold dup in D.
  apply bind_Some in D. destruct D as (tb & Hb & D).
  apply bind_Some in D. destruct D as ([h1' p] & MP & D).
  pose (bph := h_next h0). pose (rb := t_base tb).
  destruct (step_placeholder h0 bph rb W h0 [] [] b tb None (t_base tb) h1' p (Inv_init h0 bph rb) Hb (fun H => H) MP eq_refl (fun q E => match E with end))
    as (Ep & Hnx1 & Hl & I1 & Hp & Hsame).
  simpl in I1. subst p.
  assert (Hdis : forall x, In x (map fst (tl (pre (dup_fuel h0) h0 None b))) -> ~ In x (map n_t [(b, h_next h0, None)])).
  { intros x Hx [H|[]]. unfold n_t in H; simpl in H. subst x. apply (pre_gt _ _ _ _ _ W) in Hx. lia. }
  destruct (dup_rec_inv h0 bph rb W (dup_fuel h0) b None (h_next h0) tb h1' [(b, h_next h0, None)] [] h1 g
              I1 (or_introl eq_refl) Hb Hp Hdis D)
    as (L' & g2 & Eg & I' & Htp & Hfit & Hsame' & Hfinb & Hfin2 & Hnx).
  simpl in I'.
  exists tb, L'. refine (mkDS h0 b h1 g tb L' Hb I' _ _ Hfit _).
  - intros n Hn. subst g. destruct Hn as [<-|Hn]; auto.
  - subst g. simpl. rewrite Htp. symmetry. apply (pre_cons (dup_fuel h0)). discriminate.
  - exists g2. exact Eg. Qed.

Lemma nodes_hd h g n g2 : g = n :: g2 -> nodes h g = nodes_from (S (length g)) h g (n_p n).
Proof. intros ->. reflexivity. Qed.

Section AfterDup.
Variables (h0 : heap) (b : id) (h1 : heap) (g : list node) (tb : tens) (L : list id).
Hypothesis W : wf h0.
Hypothesis DS : DupSpec h0 b h1 g tb L.

Let bph := h_next h0.
Let rb := t_base tb.
Let I : Inv h0 bph rb h1 g L := ds_inv _ _ _ _ _ _ DS.

(* the record of a placeholder *)
Lemma ph_final n : In n g ->
  exists r0 l, getT h0 (n_t n) = Some r0 /\ t_grad r0 = false /\
    getT h1 (n_p n) = Some (with_children (with_base r0 (bb bph rb n)) l) /\
    h_next h0 <= l /\ In l L /\
    get (h_lst h1) l = Some (map (ph_if_exists g) (fkids h0 (n_t n))).
Proof. intros Hn. destruct (i_ph _ _ _ _ _ _ I n Hn) as (r0 & rp & E1 & E2 & E3 & E4).
  destruct (ds_fin _ _ _ _ _ _ DS n Hn) as (rp' & E5 & E6). rewrite E2 in E5. inversion E5; subst rp'.
  destruct E4 as [->|(l & Hl & -> & E7 & _)].
  - simpl in E6. destruct (wf_tens _ W _ _ E1) as (Hc & _). lia.
  - exists r0, l. repeat split; auto. Qed.

Lemma g_tlt n : In n g -> n_t n < h_next h0.
Proof. apply (i_tlt _ _ _ _ _ _ I). Qed.

Lemma g_pge n : In n g -> h_next h0 <= n_p n < h_next h1.
Proof. apply (i_p _ _ _ _ _ _ I). Qed.

Lemma gfind_orig n : In n g -> gfind g (n_t n) = Some n.
Proof. intros Hn. apply (phx_in h0 bph rb h1 g L n I Hn). Qed.

Lemma gfind_ph n : In n g -> gfind g (n_p n) = Some n.
Proof. intros Hn. destruct (gfind g (n_p n)) as [n'|] eqn:E.
  - apply gfind_In in E. destruct E as [Hn' [E|E]].
    + apply g_tlt in Hn'. apply g_pge in Hn. lia.
    + f_equal. symmetry. eapply NoDup_map_inj; [apply (i_pnd _ _ _ _ _ _ I)| | |]; auto.
  - apply gfind_None in E. exfalso. apply (proj2 E). now apply in_map. Qed.

(* ------------------------------------------------------------------ T2 *)

(* operations: a variable v of o is replaced by its placeholder exactly when v belongs to the family and v's set lists o *)
Lemma dup_routes_ops o r0 : getO h0 o = Some r0 ->
  getO h1 o = Some (mkO (o_kind r0) (map (sigma h0 g o) (o_vars r0)) (o_keep r0)).
Proof. intros E. rewrite (i_oget _ _ _ _ _ _ I), E. reflexivity. Qed.

Lemma dup_routes_ops_none o : getO h0 o = None -> getO h1 o = None.
Proof. intros E. rewrite (i_oget _ _ _ _ _ _ I), E. reflexivity. Qed.

(* an operation that is registered with those of its variables that belong to the family reads the placeholders *)
Lemma dup_routes_registered o r0 : getO h0 o = Some r0 ->
  (forall v, In v (o_vars r0) -> In v (map n_t g) -> In o (ops_of h0 v)) ->
  getO h1 o = Some (mkO (o_kind r0) (map (ph_if_exists g) (o_vars r0)) (o_keep r0)) /\
  (forall v, In v (map (ph_if_exists g) (o_vars r0)) -> ~ In v (map n_t g)).
Proof. intros E R. rewrite (dup_routes_ops o r0 E).
  pose proof (proj1 (wf_oper _ W _ _ E)) as Hv.
  assert (forall v, In v (o_vars r0) -> sigma h0 g o v = ph_if_exists g v) as K.
  { intros v Hin. unfold sigma. destruct (mem o (ops_of h0 v)) eqn:Em; auto.
    unfold ph_if_exists. destruct (gfind g v) as [n|] eqn:Eg; auto.
    exfalso. apply gfind_In in Eg. destruct Eg as [Hn [->| ->]].
    - apply mem_false in Em. apply Em, R; auto. now apply in_map.
    - apply Hv in Hin. apply g_pge in Hn. lia. }
  split.
  - f_equal. f_equal. now apply map_ext_in.
  - intros v Hin Hfam. apply in_map_iff in Hin. destruct Hin as (v0 & <- & Hv0).
    unfold ph_if_exists in Hfam. destruct (gfind g v0) as [n|] eqn:Eg.
    + apply gfind_In in Eg. destruct Eg as [Hn _]. apply in_map_iff in Hfam. destruct Hfam as (n' & E' & Hn').
      apply g_tlt in Hn'. apply g_pge in Hn. lia.
    + apply gfind_None in Eg. tauto. Qed.

Lemma dup_routes_originals t : t < h_next h0 -> getT h1 t = getT h0 t.
Proof. apply (i_tget _ _ _ _ _ _ I). Qed.

(* the record of a placeholder: the original's, except _base and _view_children *)
Lemma dup_routes_placeholders n : In n g ->
  exists r0 rp, getT h0 (n_t n) = Some r0 /\ getT h1 (n_p n) = Some rp /\
    t_creator rp = t_creator r0 /\ t_ops rp = t_ops r0 /\ t_data rp = t_data r0 /\ t_grad rp = t_grad r0 /\ t_vgrad rp = t_vgrad r0 /\
    t_base rp = (match n_parent n with None => t_base r0 | Some _ => Some (h_next h0) end) /\
    h_next h0 <= t_children rp /\
    lst_of h1 (t_children rp) = map (ph_if_exists g) (fkids h0 (n_t n)).
Proof. intros Hn. destruct (ph_final n Hn) as (r0 & l & E1 & E2 & E3 & E4 & E5 & E6).
  exists r0, (with_children (with_base r0 (bb bph rb n)) l). repeat split; auto.
  - simpl. unfold bb. destruct (n_parent n) eqn:Ep; auto.
    (* the root: its placeholder keeps the root's own _base *)
    destruct (ds_head _ _ _ _ _ _ DS) as (g2 & Eg).
    assert (n_t n = b).
    { pose proof (ds_pre _ _ _ _ _ _ DS) as HP.
      assert (In (tp n) (pre (dup_fuel h0) h0 None b)) by (rewrite <- HP; now apply in_map).
      rewrite (pre_cons (dup_fuel h0) h0 None b) in H by discriminate. destruct H as [H|H].
      - unfold tp in H. now inversion H.
      - exfalso. unfold dup_fuel in H. simpl in H. apply in_flat_map in H. destruct H as (c & _ & H).
        clear - H Ep. unfold tp in H. rewrite Ep in H. revert c H.
        generalize (length (h_t h0)) (n_t n) b. induction n0; simpl; intros; [tauto|].
        destruct H as [H|H]; [discriminate|]. apply in_flat_map in H. destruct H as (c' & _ & H). eauto. }
    unfold rb. pose proof (ds_b _ _ _ _ _ _ DS) as Hb. rewrite H in E1. rewrite Hb in E1. now inversion E1.
  - unfold lst_of. simpl. now rewrite E6. Qed.

(* ------------------------------------------------------------------ iteration order: nodes = g *)

Definition nd (x : id) : node := match gfind g x with Some n => n | None => (0, 0, None) end.

Lemma nd_t n : In n g -> nd (n_t n) = n.
Proof. intros Hn. unfold nd. now rewrite gfind_orig. Qed.

Lemma g_from_pre : map nd (map fst (pre (dup_fuel h0) h0 None b)) = g.
Proof. rewrite <- (ds_pre _ _ _ _ _ _ DS). rewrite !map_map. rewrite <- (map_id g) at 2.
  apply map_ext_in. intros n Hn. unfold tp; simpl. now apply nd_t. Qed.

(* any heap in which the placeholders still own the lists made by dup *)
Definition ph_tree (h : heap) : Prop :=
  forall n, In n g -> exists rp, getT h (n_p n) = Some rp /\ lst_of h (t_children rp) = map (ph_if_exists g) (fkids h0 (n_t n)).

Lemma ph_tree_h1 : ph_tree h1.
Proof. intros n Hn. destruct (dup_routes_placeholders n Hn) as (r0 & rp & _ & E & H). exists rp. split; auto. apply H. Qed.

Definition nf_step (f : nat) (h : heap) (acc : option (list node)) (c : id) : option (list node) :=
  match acc with None => None | Some l => match nodes_from f h g c with Some l' => Some (l ++ l') | None => None end end.

Lemma nodes_from_S f h p : nodes_from (S f) h g p =
  (n <- gfind g p ;; tp <- getT h p ;; rest <- fold_left (nf_step f h) (lst_of h (t_children tp)) (Some []) ;; Some (n :: rest)).
Proof. reflexivity. Qed.

Lemma nf_fold f h (F : id -> list node) cs : forall acc,
  (forall c, In c cs -> nodes_from f h g (ph_if_exists g c) = Some (F c)) ->
  fold_left (nf_step f h) (map (ph_if_exists g) cs) (Some acc) = Some (acc ++ flat_map F cs).
Proof. induction cs as [|c cs IH]; intros acc H; simpl.
  - now rewrite app_nil_r.
  - rewrite H by (simpl; auto). rewrite IH by (intros; apply H; simpl; auto). now rewrite app_assoc. Qed.

Lemma nodes_from_pre h : ph_tree h -> forall f par t,
  fits f h0 t = true -> (forall x, In x (map fst (pre f h0 par t)) -> In x (map n_t g)) ->
  nodes_from f h g (ph_if_exists g t) = Some (map nd (map fst (pre f h0 par t))).
Proof. intros PT. induction f as [|f IH]; intros par t Hfit Hall; [discriminate|].
  rewrite nodes_from_S. simpl in Hfit, Hall.
  assert (Ht : In t (map n_t g)) by (apply Hall; auto).
  apply in_map_iff in Ht. destruct Ht as (n & Et & Hn). subst t.
  assert (ph_if_exists g (n_t n) = n_p n) as -> by (unfold ph_if_exists; now rewrite (gfind_orig n Hn)).
  rewrite (gfind_ph n Hn). simpl.
  destruct (PT n Hn) as (rp & Erp & Elst). rewrite Erp. simpl. rewrite Elst.
  rewrite (nf_fold f h (fun c => map nd (map fst (pre f h0 (Some (n_t n)) c)))).
  - simpl. f_equal. rewrite (nd_t n Hn). f_equal. rewrite !map_flat_map. reflexivity.
  - intros c Hc. apply IH.
    + rewrite forallb_forall in Hfit. auto.
    + intros x Hx. apply Hall. right. rewrite map_flat_map. apply in_flat_map. eauto. Qed.

Lemma pre_fits_eq f1 f2 par t : fits f1 h0 t = true -> fits f2 h0 t = true -> pre f1 h0 par t = pre f2 h0 par t.
Proof. intros H1 H2. destruct (Nat.le_ge_cases f1 f2).
  - symmetry. apply (pre_fits_mono f1 h0 par t f2 H1 H).
  - apply (pre_fits_mono f2 h0 par t f1 H2 H). Qed.

Lemma g_nonempty : exists g2, g = (b, h_next h0, None) :: g2.
Proof. apply (ds_head _ _ _ _ _ _ DS). Qed.

Theorem nodes_eq h : ph_tree h -> nodes h g = Some g.
Proof. intros PT. destruct g_nonempty as (g2 & Eg). rewrite (nodes_hd h g _ _ Eg).
  pose proof (ds_fits _ _ _ _ _ _ DS) as Hfit.
  assert (Hlen : length g = length (pre (dup_fuel h0) h0 None b)) by (rewrite <- (ds_pre _ _ _ _ _ _ DS); now rewrite map_length).
  assert (Hfit2 : fits (S (length g)) h0 b = true).
  { eapply fits_mono; [apply (fits_length _ _ None _ Hfit)|]. lia. }
  assert (Hb : In (b, h_next h0, None) g) by (rewrite Eg; simpl; auto).
  change (n_p (b, h_next h0, None)) with (h_next h0).
  assert (ph_if_exists g b = h_next h0) as <-.
  { unfold ph_if_exists. change b with (n_t (b, h_next h0, None)). now rewrite (gfind_orig _ Hb). }
  rewrite (nodes_from_pre h PT (S (length g)) None b Hfit2).
  - f_equal. rewrite (pre_fits_eq _ _ None b Hfit2 Hfit). apply g_from_pre.
  - intros x Hx. rewrite (pre_fits_eq _ _ None b Hfit2 Hfit) in Hx.
    rewrite <- (ds_pre _ _ _ _ _ _ DS) in Hx. rewrite map_map in Hx. exact Hx. Qed.

End AfterDup.
