(* HeapP10: the in-place statement never gets stuck before the kernel runs; T6 for fails = true. *)
From Coq Require Import List Arith Bool PeanoNat Lia.
Import ListNotations.
From MG Require Import Model.Heap.
From MG.Proofs Require Import HeapP1 HeapWfb HeapP2 HeapP3 HeapP4 HeapP5 HeapP6 HeapP7 HeapP8 HeapP9.

(* ------------------------------------------------------------------ entries of the preorder list *)
Lemma pre_entries f h par t x px : In (x, px) (pre f h par t) ->
  (x = t /\ px = par) \/ (exists q, px = Some q /\ In x (fkids h q)).
Proof. revert par t. induction f; simpl; intros par t; [tauto|].
  intros [H|H]; [inversion H; auto|].
  apply in_flat_map in H. destruct H as (c & Hc & H). apply IHf in H. destruct H as [[-> ->]|H]; eauto. Qed.

Lemma pre_tail_some f h par t x px : In (x, px) (tl (pre f h par t)) -> exists q, px = Some q /\ In x (fkids h q).
Proof. destruct f; simpl; [tauto|]. intros H. apply in_flat_map in H. destruct H as (c & Hc & H).
  apply pre_entries in H. destruct H as [[-> ->]|H]; eauto. Qed.

Section GraphFacts.
Variables (h0 : heap) (b : id) (h1 : heap) (g : list node) (tb : tens) (L : list id).
Hypothesis W : wf h0.
Hypothesis DS : DupSpec h0 b h1 g tb L.

Lemma g_parent n : In n g ->
  match n_parent n with None => n = (b, h_next h0, None) | Some q => In (n_t n) (fkids h0 q) end.
Proof. intros Hn. destruct (ds_head _ _ _ _ _ _ DS) as (g2 & Eg).
  pose proof (ds_pre _ _ _ _ _ _ DS) as HP. rewrite Eg in Hn. destruct Hn as [<-|Hn]; [reflexivity|].
  rewrite Eg in HP. apply (f_equal (@tl _)) in HP. simpl in HP.
  assert (In (tp n) (tl (pre (dup_fuel h0) h0 None b))) by (unfold dup_fuel; simpl; rewrite <- HP; now apply in_map).
  unfold tp in H. apply pre_tail_some in H. destruct H as (q & -> & H). exact H. Qed.

Lemma g_parent_in n q : In n g -> n_parent n = Some q -> In q (map n_t g).
Proof. intros Hn Hq. destruct (ds_head _ _ _ _ _ _ DS) as (g2 & Eg).
  pose proof (ds_pre _ _ _ _ _ _ DS) as HP.
  assert (In (tp n) (pre (dup_fuel h0) h0 None b)) by (rewrite <- HP; now apply in_map).
  unfold tp in H. rewrite Hq in H. clear - H HP.
  assert (forall f par t x q, In (x, Some q) (pre f h0 par t) -> par = Some q \/ In q (map fst (pre f h0 par t))) as K.
  { clear. induction f; simpl; intros par t x q0; [tauto|]. intros [H|H]; [inversion H; auto|].
    right. apply in_flat_map in H. destruct H as (c & Hc & H). apply IHf in H. destruct H as [H|H].
    - inversion H; auto.
    - right. rewrite map_flat_map. apply in_flat_map. eauto. }
  apply K in H. destruct H as [H|H]; [discriminate|]. rewrite <- HP in H. rewrite map_map in H. exact H. Qed.

(* the creator of every placeholder below the base is still there *)
Lemma g_path_check n : In n g -> exists rp, getT h1 (n_p n) = Some rp /\ (isSome (t_creator rp) || Nat.eqb (n_t n) b) = true.
Proof. intros Hn. destruct (dup_routes_placeholders h0 b h1 g tb L W DS n Hn) as (r0 & rp & E1 & E2 & E3 & _).
  exists rp. split; auto. pose proof (g_parent n Hn) as HP. destruct (n_parent n) as [q|].
  - unfold fkids in HP. apply filter_In in HP. destruct HP as [Hk Hb].
    destruct (kid_wf _ _ _ W Hk) as (_ & rc & Erc & H). rewrite E1 in Erc. inversion Erc; subst rc.
    unfold hasbase in Hb. rewrite E1 in Hb. destruct H as (_ & o & ro & Eo & _); [destruct (t_base r0); discriminate|].
    rewrite E3, Eo. reflexivity.
  - subst n. unfold n_t; simpl. rewrite Nat.eqb_refl. apply orb_true_r. Qed.

End GraphFacts.

Lemma path_from_in g : forall f n path, In n g -> path_from f g n = Some path -> forall x, In x path -> In x g.
Proof. induction f; intros n path Hn H; [discriminate|]. simpl in H.
  destruct (n_parent n) as [par|].
  - apply bind_Some in H. destruct H as (np & Enp & H). apply bind_Some in H. destruct H as (rest & Er & H).
    inversion H; subst path. intros x [<-|Hx]; auto. destruct (gfind_In _ _ _ Enp) as [Hnp _]. exact (IHf np rest Hnp Er x Hx).
  - destruct g as [|b0 g']; [discriminate|]. inversion H; subst. intros x [<-|[]]. simpl; auto. Qed.

Lemma path_to_base_in g m path : path_to_base g m = Some path -> forall x, In x path -> In x g.
Proof. unfold path_to_base. intros H. apply bind_Some in H. destruct H as (n & En & H).
  destruct (gfind_In _ _ _ En) as [Hn _]. exact (path_from_in g _ n path Hn H). Qed.

(* ------------------------------------------------------------------ arrays *)
Lemma new_array_spec h base buf h' a : new_array h base buf = (h', a) ->
  h_t h' = h_t h /\ h_o h' = h_o h /\ h_set h' = h_set h /\ h_lst h' = h_lst h /\ a = h_next h /\
  h_next h < h_next h' /\ getA h' a <> None /\ (forall q, q <> a -> getA h' q = getA h q).
Proof. unfold new_array, fresh. destruct buf as [bf|]; intros H; inversion H; subst; simpl; repeat split; auto.
  - unfold getA; simpl. rewrite get_put_eq. discriminate.
  - intros q Hq. unfold getA; simpl. now rewrite get_put_ne by auto.
  - unfold getA; simpl. rewrite get_put_eq. discriminate.
  - intros q Hq. unfold getA; simpl. now rewrite get_put_ne by auto. Qed.

Lemma view_array_ex h a : getA h a <> None -> exists h' a', view_array h a = Some (h', a').
Proof. unfold view_array. destruct (getA h a) as [ra|]; [|congruence]. intros _. simpl.
  destruct (new_array h _ _) as [h' a'] eqn:E. eauto. Qed.

Lemma view_array_spec h a h' a' : view_array h a = Some (h', a') ->
  h_t h' = h_t h /\ h_o h' = h_o h /\ h_set h' = h_set h /\ h_lst h' = h_lst h /\ a' = h_next h /\
  h_next h < h_next h' /\ getA h' a' <> None /\ (forall q, q <> a' -> getA h' q = getA h q).
Proof. unfold view_array. intros H. apply bind_Some in H. destruct H as (ra & _ & H).
  assert (H1 : new_array h (Some match a_base ra with Some b => b | None => a end) (Some (a_buf ra)) = (h', a')) by congruence.
  exact (new_array_spec _ _ _ _ _ H1). Qed.

(* ------------------------------------------------------------------ the preamble exists *)
Lemma preamble_ex h m tm0 : wf h -> getT h m = Some tm0 ->
  exists h1 tm1 h2 tm2 h3 pb,
    null_grad h m true = Some h1 /\ getT h1 m = Some tm1 /\ pre_h2 h1 m tm1 = Some h2 /\ getT h2 m = Some tm2 /\
    pre_hb h2 tm2 = Some (h3, pb).
Proof. intros W Hm.
  assert (Hbase : forall r' b, weaker tm0 r' -> t_base r' = Some b -> exists rb, getT h b = Some rb).
  { intros r' b (_ & _ & _ & [Hb|Hb] & _) E; [|congruence].
    destruct (wf_tens _ W _ _ Hm) as (_ & _ & C & _). apply (C b). congruence. }
  assert (Hget : forall r' b, (exists rb, getT h b = Some rb) -> exists rb, getT (setT h m r') b = Some rb).
  { intros r' b (rb & E). rewrite getT_setT. destruct (Nat.eqb m b); eauto. }
  unfold null_grad. rewrite Hm. simpl.
  remember (with_grads (with_base tm0 (if isSome (t_base tm0) && negb (isSome (t_creator tm0)) then None else t_base tm0)) false false) as r1 eqn:Er1.
  assert (Wk1 : weaker tm0 r1).
  { unfold weaker. subst r1; simpl. repeat split; auto. destruct (isSome (t_base tm0) && negb (isSome (t_creator tm0))); auto. }
  exists (setT h m r1), r1.
  assert (exists r2, pre_h2 (setT h m r1) m r1 = Some (setT h m r2) /\ weaker tm0 r2) as (r2 & E2 & Wk2).
  { unfold pre_h2. destruct (t_base r1) as [b|] eqn:Eb.
    - destruct (Hget r1 b (Hbase r1 b Wk1 Eb)) as (rb & Erb). rewrite Erb. simpl.
      destruct (lst_of (setT h m r1) (t_children rb)).
      + exists (with_base r1 None). split.
        * f_equal. unfold setT; simpl. f_equal. clear. induction (h_t h) as [|[k v] l IH]; simpl.
          -- now rewrite Nat.eqb_refl.
          -- destruct (Nat.eqb m k) eqn:E; simpl; rewrite ?Nat.eqb_refl, ?E; auto. now rewrite IH.
        * destruct Wk1 as (A1 & A2 & A3 & A4 & A5). unfold weaker; simpl. repeat split; auto.
      + exists r1. auto.
    - exists r1. auto. }
  exists (setT h m r2), r2. rewrite !getT_setT_eq.
  unfold pre_hb. destruct (t_base r2) as [b|] eqn:Eb.
  - destruct (Hget r2 b (Hbase r2 b Wk2 Eb)) as (rb & Erb). rewrite Erb. simpl.
    unfold null_grad. rewrite Erb. simpl. eauto 10.
  - eauto 10. Qed.

(* ------------------------------------------------------------------ the failure path exists *)
Lemma inplace_fail_ex h m tm0 h3 r2 pb root h4 g : wf h -> getT h m = Some tm0 -> Preamble h m tm0 h3 r2 pb ->
  dup h3 root = Some (h4, g) ->
  exists out, inplace_fail h4 g m (t_grad tm0, t_vgrad tm0, t_base tm0) pb = Some out.
Proof. intros W Hm P D. unfold inplace_fail.
  destruct (dup_restore_given h3 root h4 g (pr_wf _ _ _ _ _ _ P) D) as (hr & R & (S1 & S2 & S3 & S4 & S5) & _).
  rewrite R. simpl.
  assert (HgetT : forall q, getT (free_placeholders hr g) q = getT h3 q) by (intros q; unfold getT; now rewrite S1).
  unfold restore_prior. rewrite HgetT, (pr_m _ _ _ _ _ _ P). simpl.
  pose proof (pr_b _ _ _ _ _ _ P) as PB. destruct pb as [[gb vb]|].
  - destruct PB as (b & tb' & B1 & B2 & B3 & B4 & -> & -> & B5 & B6). rewrite B2.
    rewrite getT_setT. destruct (Nat.eqb m b) eqn:E; [apply Nat.eqb_eq in E; lia|].
    rewrite HgetT, B5. simpl. eauto.
  - destruct (t_base tm0); simpl; eauto. Qed.

Lemma Preamble_root_nograd h m tm0 h3 r2 pb : Preamble h m tm0 h3 r2 pb ->
  exists rr, getT h3 (match t_base r2 with Some b => b | None => m end) = Some rr /\ t_grad rr = false.
Proof. intros P. pose proof (pr_b _ _ _ _ _ _ P) as PB. destruct pb as [[gb vb]|].
  - destruct PB as (b & tb' & B1 & B2 & B3 & B4 & _ & _ & B5 & B6). rewrite B1. eexists; split; [exact B5|reflexivity].
  - destruct PB as (B1 & _). rewrite B1. exists r2. split; [apply (pr_m _ _ _ _ _ _ P)|].
    apply (pr_r2 _ _ _ _ _ _ P). Qed.

Arguments new_array : simpl never.
Arguments view_array : simpl never.

(* T6, failing kernel: the statement is never stuck *)
Theorem inplace_fail_not_stuck h m k inputs masked tm0 : wf h -> getT h m = Some tm0 ->
  exists out, inplace h m k inputs masked true = Some out.
Proof. intros W Hm. rewrite inplace_unfold.
  destruct (preamble_ex h m tm0 W Hm) as (h1 & tm1 & h2 & tm2 & h3 & pb & E1 & E2 & E3 & E4 & E5).
  pose proof (preamble_spec h m tm0 h1 tm1 h2 tm2 h3 pb W Hm E1 E2 E3 E4 E5) as P.
  rewrite Hm. cbn [bind]. rewrite E1. cbn [bind]. rewrite E2. cbn [bind]. rewrite E3. cbn [bind]. rewrite E4. cbn [bind]. rewrite E5. cbn [bind].
  destruct (Preamble_root_nograd _ _ _ _ _ _ P) as (rr & Err & Hgr).
  set (root := match t_base tm2 with Some b => b | None => m end) in *.
  destruct (dup_exists h3 root rr (pr_wf _ _ _ _ _ _ P) Err Hgr) as (h4 & g & D). rewrite D.
  destruct (path_to_base g m) as [path|] eqn:EP; [|eapply inplace_fail_ex; eauto].
  destruct (new_array h4 None None) as [h5 am] eqn:NA.
  apply new_array_spec in NA. destruct NA as (N1 & N2 & N3 & N4 & N5 & N6 & N7 & N8).
  assert (exists h6 at_, (if Nat.eqb m root then Some (h5, am) else view_array h5 am) = Some (h6, at_) /\ h_t h6 = h_t h4)
    as (h6 & at_ & E6 & Ht6).
  { destruct (Nat.eqb m root); [eauto|]. destruct (view_array_ex h5 am N7) as (h6 & a' & E). exists h6, a'. split; auto.
    apply view_array_spec in E. destruct E as (V1 & _). congruence. }
  rewrite E6. cbn [bind].
  destruct (dup_spec h3 root h4 g (pr_wf _ _ _ _ _ _ P) D) as (tb & L & DS).
  assert (path_check h6 root path = true) as ->.
  { unfold path_check. apply forallb_forall. intros n Hn. apply (path_to_base_in g m path EP) in Hn.
    destruct (g_path_check h3 root h4 g tb L (pr_wf _ _ _ _ _ _ P) DS n Hn) as (rp & Erp & Hc).
    unfold getT. rewrite Ht6. fold (getT h4 (n_p n)). rewrite Erp. exact Hc. }
  cbn [negb]. eapply inplace_fail_ex; eauto. Qed.
