(* HeapP5: dup_rec preserves the duplication invariant; specification of [dup]. *)
From Coq Require Import List Arith Bool PeanoNat Lia.
Import ListNotations.
From MG Require Import Model.Heap.
From MG.Proofs Require Import HeapP1 HeapWfb HeapP2 HeapP3 HeapP4.

(* the loop body of _duplicate_graph *)
Definition FF (f : nat) (bph t : id) (acc : option (heap * list node)) (c : id) : option (heap * list node) :=
  match acc with
  | None => None
  | Some (h1, g1) =>
    match make_placeholder h1 c (Some bph) with
    | None => None
    | Some (h2, p) => dup_rec f bph c (h2, g1 ++ [(c, p, Some t)])
    end
  end.

Definition phs_of (g : list node) (cs : list id) : option (list id) :=
  fold_right (fun c acc => match acc, gfind g c with Some l, Some n => Some (n_p n :: l) | _, _ => None end) (Some []) cs.

Definition finish (h : heap) (pt : id) (tp : tens) (phs : list id) : heap :=
  setT (setL (mkH (h_t h) (h_o h) (h_set h) (h_lst h) (h_arr h) (S (h_next h))) (h_next h) phs) pt (with_children tp (h_next h)).

Definition hb_filter (h : heap) (l : list id) : list id :=
  filter (fun c => match getT h c with Some rc => isSome (t_base rc) | None => false end) l.

Lemma dup_rec_S f bph t h g :
  dup_rec (S f) bph t (h, g) =
  (rt <- getT h t ;;
   let cs := hb_filter h (lst_of h (t_children rt)) in
   match cs with
   | [] => nt <- gfind g t ;; tp <- getT h (n_p nt) ;; Some (finish h (n_p nt) tp [], g)
   | _ => st' <- fold_left (FF f bph t) cs (Some (h, g)) ;;
           let (h', g') := st' in
           nt <- gfind g' t ;; phs <- phs_of g' cs ;; tp <- getT h' (n_p nt) ;;
           Some (finish h' (n_p nt) tp phs, g')
   end).
Proof. reflexivity. Qed.

Lemma FF_None f bph t cs : fold_left (FF f bph t) cs None = None.
Proof. induction cs; simpl; auto. Qed.

Lemma phs_of_spec g cs phs : phs_of g cs = Some phs -> phs = map (ph_if_exists g) cs.
Proof. revert phs. induction cs as [|c cs IH]; simpl; intros phs H.
  - now inversion H.
  - destruct (phs_of g cs) as [l|]; [|discriminate]. unfold ph_if_exists.
    destruct (gfind g c) as [n|]; [|discriminate]. inversion H. f_equal. now apply IH. Qed.

Lemma phs_of_some g cs : (forall c, In c cs -> gfind g c <> None) -> phs_of g cs = Some (map (ph_if_exists g) cs).
Proof. induction cs as [|c cs IH]; simpl; intros H; auto.
  rewrite IH by auto. unfold ph_if_exists. destruct (gfind g c) eqn:E; auto. exfalso. apply (H c); auto. Qed.

Lemma pre_self f h par t : f <> 0 -> In t (map fst (pre f h par t)).
Proof. destruct f; [congruence|]. simpl; auto. Qed.

Lemma pre_cons f h par t : f <> 0 -> pre f h par t = (t, par) :: tl (pre f h par t).
Proof. destruct f; [congruence|]. reflexivity. Qed.

Lemma in_map_tl {A B} (f : A -> B) l x : In x (map f (tl l)) -> In x (map f l).
Proof. destruct l; simpl; auto. Qed.

Section DupRec.
Variables (h0 : heap) (bph : id) (rb : option id).
Hypothesis W : wf h0.

Local Notation Inv := (Inv h0 bph rb).
Local Notation bb := (bb bph rb).

(* -------- step B: a placeholder receives its list of children *)
Lemma step_finish h g L t pt par r0 :
  Inv h g L -> In (t, pt, par) g -> getT h0 t = Some r0 ->
  getT h pt = Some (with_base r0 (bb (t, pt, par))) ->
  (forall x, In x (fkids h0 t) -> In x (map n_t g)) ->
  let h' := finish h pt (with_base r0 (bb (t, pt, par))) (map (ph_if_exists g) (fkids h0 t)) in
  Inv h' g (L ++ [h_next h]) /\ finished h0 h' (t, pt, par) /\ (forall q, q <> pt -> getT h' q = getT h q) /\
  h_next h' = S (h_next h).
Proof. intros I Hin Ht Hpt Hall h'.
  assert (HgetT : forall q, getT h' q = if Nat.eqb pt q then Some (with_children (with_base r0 (bb (t, pt, par))) (h_next h)) else getT h q).
  { intros q. unfold h', finish, getT, setT; simpl. apply get_put. }
  assert (Hptk : In pt (keys (h_t h))) by (eapply get_keys; exact Hpt).
  assert (Hlk : ~ In (h_next h) (keys (h_lst h))).
  { rewrite (i_lkeys _ _ _ _ _ _ I), in_app_iff. intros [H|H].
    - apply (wf_lt_lst _ W) in H. pose proof (i_next _ _ _ _ _ _ I). lia.
    - apply (i_L _ _ _ _ _ _ I) in H. lia. }
  assert (Hlget : forall l, get (h_lst h') l = if Nat.eqb (h_next h) l then Some (map (ph_if_exists g) (fkids h0 t)) else get (h_lst h) l).
  { intros l. unfold h', finish; simpl. apply get_put. }
  assert (Hptlt : h_next h0 <= pt < h_next h) by (apply (i_p _ _ _ _ _ _ I _ Hin)).
  split; [|split; [|split]].
  2:{ exists (with_children (with_base r0 (bb (t, pt, par))) (h_next h)). unfold n_p; simpl. split.
      - rewrite HgetT, Nat.eqb_refl. reflexivity. - simpl. apply (i_next _ _ _ _ _ _ I). }
  2:{ intros q Hq. rewrite HgetT. destruct (Nat.eqb pt q) eqn:E; auto. apply Nat.eqb_eq in E; congruence. }
  2:{ reflexivity. }
  constructor.
  - apply (i_set _ _ _ _ _ _ I).
  - apply (i_arr _ _ _ _ _ _ I).
  - unfold h', finish; simpl. pose proof (i_next _ _ _ _ _ _ I). lia.
  - unfold h', finish; simpl. rewrite keys_put_in by auto. apply (i_tkeys _ _ _ _ _ _ I).
  - intros q Hq. rewrite HgetT. destruct (Nat.eqb pt q) eqn:E.
    + apply Nat.eqb_eq in E. lia.
    + apply (i_tget _ _ _ _ _ _ I); auto.
  - intros n Hn. apply (i_p _ _ _ _ _ _ I) in Hn. unfold h', finish; simpl. lia.
  - apply (i_pnd _ _ _ _ _ _ I).
  - apply (i_tnd _ _ _ _ _ _ I).
  - apply (i_tlt _ _ _ _ _ _ I).
  - unfold h', finish; simpl. rewrite keys_put_notin by auto. rewrite (i_lkeys _ _ _ _ _ _ I). now rewrite app_assoc.
  - intros l Hl. rewrite Hlget. destruct (Nat.eqb (h_next h) l) eqn:E.
    + apply Nat.eqb_eq in E. pose proof (i_next _ _ _ _ _ _ I). lia.
    + apply (i_lget _ _ _ _ _ _ I); auto.
  - intros l Hl. apply in_app_or in Hl. destruct Hl as [Hl|[<-|[]]].
    + destruct (i_L _ _ _ _ _ _ I l Hl) as (B & n & rp & Hn & Hrp & Hl2). split.
      * unfold h', finish; simpl. lia.
      * exists n, rp. split; auto. split; auto. rewrite HgetT.
        destruct (Nat.eqb pt (n_p n)) eqn:E; auto. apply Nat.eqb_eq in E.
        exfalso. rewrite <- E, Hpt in Hrp. inversion Hrp; subst rp. simpl in Hl2.
        destruct (wf_tens _ W _ _ Ht) as (Hc & _). lia.
    + split.
      * unfold h', finish; simpl. pose proof (i_next _ _ _ _ _ _ I). lia.
      * exists (t, pt, par), (with_children (with_base r0 (bb (t, pt, par))) (h_next h)). split; auto. split; auto.
        unfold n_p; simpl. rewrite HgetT, Nat.eqb_refl. reflexivity.
  - apply NoDup_snoc; [apply (i_Lnd _ _ _ _ _ _ I)|]. intros H. apply (i_L _ _ _ _ _ _ I) in H. lia.
  - apply (i_okeys _ _ _ _ _ _ I).
  - apply (i_oget _ _ _ _ _ _ I).
  - intros n Hn. destruct (i_ph _ _ _ _ _ _ I n Hn) as (r1 & rp & E1 & E2 & E3 & E4).
    destruct (Nat.eq_dec (n_p n) pt) as [Ep|Np].
    + assert (n = (t, pt, par)) as -> by (eapply NoDup_map_inj; [apply (i_pnd _ _ _ _ _ _ I)| | |]; auto).
      unfold n_t, n_p in *; simpl in *. rewrite Ht in E1. inversion E1; subst r1.
      exists r0, (with_children (with_base r0 (bb (t, pt, par))) (h_next h)). split; auto. split.
      { rewrite HgetT, Nat.eqb_refl. reflexivity. }
      split; auto. right. exists (h_next h). split; [apply in_or_app; simpl; auto|]. split; auto. split; auto.
      rewrite Hlget, Nat.eqb_refl. reflexivity.
    + exists r1, rp. split; auto. split.
      { rewrite HgetT. destruct (Nat.eqb pt (n_p n)) eqn:E; auto. apply Nat.eqb_eq in E; congruence. }
      split; auto. destruct E4 as [E4|(l & Hl & E4 & E5 & E6)]; [left; auto|right].
      exists l. split; [apply in_or_app; auto|]. split; auto. split; auto.
      rewrite Hlget. destruct (Nat.eqb (h_next h) l) eqn:E; auto. apply Nat.eqb_eq in E.
      apply (i_L _ _ _ _ _ _ I) in Hl. lia.
  - apply (i_pord _ _ _ _ _ _ I).
  - apply (i_psort _ _ _ _ _ _ I).
  - intros n n' rp rp' Hn Hn' E E' Hge Heq.
    assert (Hfin_lt : forall m rm, In m g -> getT h (n_p m) = Some rm -> t_children rm < h_next h).
    { intros m rm Hm Em. destruct (i_ph _ _ _ _ _ _ I m Hm) as (r1 & rp1 & E1 & E2 & E3 & E4). rewrite Em in E2. inversion E2; subst rp1.
      destruct E4 as [->|(l & Hl & -> & _)].
      - simpl. pose proof (proj1 (wf_tens _ W _ _ E1)). pose proof (i_next _ _ _ _ _ _ I). lia.
      - simpl. apply (i_L _ _ _ _ _ _ I) in Hl. lia. }
    rewrite HgetT in E, E'.
    destruct (Nat.eqb pt (n_p n)) eqn:Q; destruct (Nat.eqb pt (n_p n')) eqn:Q'.
    + apply Nat.eqb_eq in Q, Q'. eapply NoDup_map_inj; [apply (i_pnd _ _ _ _ _ _ I)| | |]; auto. congruence.
    + inversion E; subst rp. simpl in Heq. apply (Hfin_lt n' rp' Hn') in E'. lia.
    + inversion E'; subst rp'. simpl in Heq. apply (Hfin_lt n rp Hn) in E. lia.
    + eapply (i_ldist _ _ _ _ _ _ I); eauto. Qed.

Lemma finished_same h h' n : finished h0 h n -> getT h' (n_p n) = getT h (n_p n) -> finished h0 h' n.
Proof. intros (rp & E & H) Eq. exists rp. split; auto. congruence. Qed.

Definition dup_rec_stmt (F : nat) : Prop :=
  forall t par pt r0 h g L h' g',
  Inv h g L -> In (t, pt, par) g -> getT h0 t = Some r0 ->
  getT h pt = Some (with_base r0 (bb (t, pt, par))) ->
  (forall x, In x (map fst (tl (pre F h0 par t))) -> ~ In x (map n_t g)) ->
  dup_rec F bph t (h, g) = Some (h', g') ->
  exists L' g2, g' = g ++ g2 /\ Inv h' g' (L ++ L') /\ map tp g2 = tl (pre F h0 par t) /\ fits F h0 t = true /\
    (forall n, In n g -> n_t n <> t -> getT h' (n_p n) = getT h (n_p n)) /\
    finished h0 h' (t, pt, par) /\ (forall n, In n g2 -> finished h0 h' n) /\ h_next h <= h_next h'.

Lemma fold_inv f t pt par r0 : dup_rec_stmt f ->
  getT h0 t = Some r0 ->
  forall cs2 h g L h' g',
  (forall c, In c cs2 -> In c (fkids h0 t)) ->
  NoDup (map fst (flat_map (pre f h0 (Some t)) cs2)) ->
  Inv h g L -> In (t, pt, par) g ->
  (forall x, In x (map fst (flat_map (pre f h0 (Some t)) cs2)) -> ~ In x (map n_t g)) ->
  fold_left (FF f bph t) cs2 (Some (h, g)) = Some (h', g') ->
  exists L' g2, g' = g ++ g2 /\ Inv h' g' (L ++ L') /\ map tp g2 = flat_map (pre f h0 (Some t)) cs2 /\
    forallb (fits f h0) cs2 = true /\
    (forall n, In n g -> getT h' (n_p n) = getT h (n_p n)) /\ (forall n, In n g2 -> finished h0 h' n) /\
    (forall c, In c cs2 -> In c (map n_t g')) /\ h_next h <= h_next h'.
Proof. intros IHf Ht. induction cs2 as [|c cs2 IHcs]; intros h g L h' g' Hsub ND I Hin Hdis Hfold.
  - simpl in Hfold. inversion Hfold; subst. exists [], []. rewrite !app_nil_r. simpl.
    split; auto. split; auto. split; auto. split; auto. split; auto. split; [tauto|]. split; [tauto|]. lia.
  - simpl in Hfold.
    destruct (make_placeholder h c (Some bph)) as [[h2 p]|] eqn:MP; [|rewrite FF_None in Hfold; discriminate].
    destruct (dup_rec f bph c (h2, g ++ [(c, p, Some t)])) as [[h3 g3]|] eqn:DR; [|rewrite FF_None in Hfold; discriminate].
    assert (Hf0 : f <> 0) by (intros ->; discriminate).
    assert (Hck : In c (kids h0 t)) by (apply fkids_kids, Hsub; simpl; auto).
    destruct (kid_alloc _ _ _ W Hck) as (rc & Hrc).
    assert (Htc : t < c) by (eapply kid_gt; eauto).
    simpl in ND. rewrite map_app in ND. apply NoDup_app_inv in ND. destruct ND as (ND1 & ND2 & ND3).
    assert (Hcn : ~ In c (map n_t g)).
    { apply Hdis. simpl. rewrite map_app, in_app_iff. left. now apply pre_self. }
    assert (Hparin : forall q, Some t = Some q -> In q (map n_t g)).
    { intros q Eq. inversion Eq; subst q. change t with (n_t (t, pt, par)). now apply in_map. }
    destruct (step_placeholder h0 bph rb W h g L c rc (Some t) (Some bph) h2 p I Hrc Hcn MP eq_refl Hparin)
      as (Ep & Hn2 & Hl2 & I2 & Hp2 & Hsame2).
    assert (Hdis2 : forall x, In x (map fst (tl (pre f h0 (Some t) c))) -> ~ In x (map n_t (g ++ [(c, p, Some t)]))).
    { intros x Hx. rewrite map_app, in_app_iff. intros [H|[H|[]]].
      - revert H. apply Hdis. simpl. rewrite map_app, in_app_iff. left. now apply in_map_tl.
      - unfold n_t in H; simpl in H. subst x. apply (pre_gt _ _ _ _ _ W) in Hx. lia. }
    assert (Hin2 : In (c, p, Some t) (g ++ [(c, p, Some t)])) by (apply in_or_app; simpl; auto).
    destruct (IHf c (Some t) p rc h2 (g ++ [(c, p, Some t)]) L h3 g3 I2 Hin2 Hrc Hp2 Hdis2 DR)
      as (L1 & g21 & Eg3 & I3 & Htp1 & Hfit1 & Hsame3 & Hfin_c & Hfin21 & Hnx3).
    assert (Hin3 : In (t, pt, par) g3) by (subst g3; apply in_or_app; left; apply in_or_app; auto).
    assert (Hng3 : map n_t g3 = map n_t g ++ map fst (pre f h0 (Some t) c)).
    { subst g3. rewrite !map_app. simpl. rewrite <- app_assoc. f_equal. simpl.
      rewrite (pre_cons f h0 (Some t) c Hf0). simpl. f_equal.
      rewrite <- Htp1. rewrite map_map. reflexivity. }
    assert (Hdis3 : forall x, In x (map fst (flat_map (pre f h0 (Some t)) cs2)) -> ~ In x (map n_t g3)).
    { intros x Hx. rewrite Hng3, in_app_iff. intros [H|H].
      - revert H. apply Hdis. simpl. rewrite map_app, in_app_iff. right. exact Hx.
      - eapply ND3; eauto. }
    destruct (IHcs h3 g3 (L ++ L1) h' g' (fun c' H => Hsub c' (or_intror H)) ND2 I3 Hin3 Hdis3 Hfold)
      as (L2 & g22 & Eg' & I' & Htp2 & Hfit2 & Hsame' & Hfin22 & Hall & Hnx').
    exists (L1 ++ L2), ([(c, p, Some t)] ++ g21 ++ g22).
    split; [subst g' g3; now rewrite !app_assoc|].
    split; [now rewrite app_assoc|].
    split.
    { rewrite !map_app, Htp1, Htp2. simpl. rewrite (pre_cons f h0 (Some t) c Hf0) at 2. reflexivity. }
    split; [simpl; now rewrite Hfit1, Hfit2|].
    split.
    { intros n Hn. rewrite Hsame' by (subst g3; apply in_or_app; left; apply in_or_app; auto).
      rewrite Hsame3.
      - apply Hsame2. apply (i_p _ _ _ _ _ _ I) in Hn. lia.
      - apply in_or_app; auto.
      - intros E. apply Hcn. rewrite <- E. now apply in_map. }
    split.
    { intros n Hn. apply in_app_or in Hn. destruct Hn as [[<-|[]]|Hn].
      - eapply finished_same; eauto. apply Hsame'. subst g3. apply in_or_app; left; apply in_or_app; simpl; auto.
      - apply in_app_or in Hn. destruct Hn as [Hn|Hn]; auto.
        eapply finished_same; eauto. apply Hsame'. subst g3. apply in_or_app; auto. }
    split.
    { intros c' [<-|Hc'].
      - subst g' g3. rewrite !map_app. simpl. rewrite !in_app_iff. left. left. right. simpl. auto.
      - auto. }
    lia. Qed.

Lemma dup_rec_inv F : dup_rec_stmt F.
Proof. induction F as [|f IHf]; intros t par pt r0 h g L h' g' I Hin Ht Hpt Hdis DR; [discriminate|].
  rewrite dup_rec_S in DR.
  assert (Htlt : t < h_next h0) by (eapply getT_lt; eauto).
  rewrite (i_tget _ _ _ _ _ _ I), Ht in DR by auto. simpl in DR.
  unfold hb_filter in DR. rewrite (Inv_cs h0 bph rb W h g L t r0 I Ht) in DR.
  assert (Hgf : forall g1 L1 h1, Inv h1 g1 L1 -> In (t, pt, par) g1 -> gfind g1 t = Some (t, pt, par)).
  { intros g1 L1 h1 I1 Hin1. apply (phx_in h0 bph rb h1 g1 L1 (t, pt, par) I1 Hin1). }
  destruct (fkids h0 t) as [|c0 cs0] eqn:Ecs.
  - rewrite (Hgf g L h I Hin) in DR. simpl in DR. unfold n_p at 1 in DR; simpl in DR. rewrite Hpt in DR. simpl in DR.
    inversion DR; subst h' g'. clear DR.
    destruct (step_finish h g L t pt par r0 I Hin Ht Hpt) as (I' & Hfin & Hsame & Hnx).
    { rewrite Ecs. simpl; tauto. }
    simpl in *. rewrite Ecs in *. simpl in *.
    exists [h_next h], []. rewrite app_nil_r. split; auto. split; auto. split; auto. split; auto.
    split.
    { intros n Hn Hne. apply Hsame. intros E. apply Hne.
      assert (n = (t, pt, par)) as -> by (eapply NoDup_map_inj; [apply (i_pnd _ _ _ _ _ _ I)| | |]; auto). reflexivity. }
    split; auto. split; [intros n []|]. unfold finish; simpl. lia.
  - rewrite <- Ecs in *.
    assert (exists c1 cs1, fkids h0 t = c1 :: cs1) as (c1 & cs1 & Ecs1) by (rewrite Ecs; eauto).
    rewrite Ecs1 in DR at 1. rewrite <- Ecs1 in DR.
    apply bind_Some in DR. destruct DR as ([h1 g1] & Hfold & DR).
    assert (NDp : NoDup (map fst (flat_map (pre f h0 (Some t)) (fkids h0 t)))).
    { pose proof (pre_NoDup (S f) h0 par t W) as H. simpl in H. now inversion H. }
    destruct (fold_inv f t pt par r0 IHf Ht (fkids h0 t) h g L h1 g1 (fun c H => H) NDp I Hin Hdis Hfold)
      as (L1 & g2 & Eg1 & I1 & Htp & Hfit & Hsame1 & Hfin2 & Hall & Hnx1).
    assert (Hin1 : In (t, pt, par) g1) by (subst g1; apply in_or_app; auto).
    rewrite (Hgf g1 _ h1 I1 Hin1) in DR. simpl in DR.
    rewrite phs_of_some in DR.
    2:{ intros c Hc. apply Hall in Hc. apply in_map_iff in Hc. destruct Hc as (n & <- & Hn).
        rewrite (phx_in h0 bph rb h1 g1 _ n I1 Hn). discriminate. }
    simpl in DR. unfold n_p at 1 2 in DR; simpl in DR.
    assert (Hpt1 : getT h1 pt = Some (with_base r0 (bb (t, pt, par)))).
    { rewrite <- Hpt. apply (Hsame1 (t, pt, par) Hin). }
    rewrite Hpt1 in DR. simpl in DR. inversion DR; subst h' g'. clear DR.
    destruct (step_finish h1 g1 (L ++ L1) t pt par r0 I1 Hin1 Ht Hpt1 Hall) as (I' & Hfin & Hsame & Hnx).
    exists (L1 ++ [h_next h1]), g2. split; auto. split; [now rewrite app_assoc|]. split; auto.
    split; [simpl; exact Hfit|].
    assert (Hne : forall n, In n g1 -> n <> (t, pt, par) -> n_p n <> pt).
    { intros n Hn Hne E. apply Hne. eapply NoDup_map_inj; [apply (i_pnd _ _ _ _ _ _ I1)| | |]; auto. }
    split.
    { intros n Hn Hnt. rewrite Hsame.
      - apply Hsame1; auto.
      - apply Hne; [subst g1; apply in_or_app; auto|]. intros ->. apply Hnt. reflexivity. }
    split; auto. split.
    { intros n Hn. eapply finished_same; [apply Hfin2; auto|]. apply Hsame. apply Hne.
      - subst g1; apply in_or_app; auto.
      - intros ->. pose proof (i_pnd _ _ _ _ _ _ I1) as NDg. rewrite Eg1, map_app in NDg.
        apply NoDup_app_inv in NDg. destruct NDg as (_ & _ & D). apply (D pt).
        + change pt with (n_p (t, pt, par)). now apply in_map.
        + change pt with (n_p (t, pt, par)). now apply in_map. }
    lia. Qed.

End DupRec.
