(* Task J: the backward formula of MyGrad's CumProd for a lane without a zero at position i (Model/VecOps.v, cumprod_bwd, transcribed
   by hand) is the exact VJP of the forward cumulative product, for lanes of any length and every position.
   Plan: (1) dot g m is a sum over the index list seq 0 n; (2) a sum over an index list is differentiated term by term;
   (3) term k is t |-> g_k * vprod (upd (firstn (S k) l) i t): constant for k < i, linear in t with slope
   g_k * vprod (firstn (S k) l) / x_i for k >= i; (4) the sum of the slopes over seq 0 n is the sum over seq i (n - i). *)
From Coq Require Import Reals List Lra Lia.
From Coquelicot Require Import Coquelicot.
From MG Require Import Model.VecOps.
Import ListNotations.
Open Scope R_scope.

(* ------------------------------------------------------------------------------------------------------------------------------ *)
(* Structural facts about upd / nth / firstn                                                                                      *)
(* ------------------------------------------------------------------------------------------------------------------------------ *)
Lemma length_upd : forall l i t, length (upd l i t) = length l.
Proof. induction l as [|x l IH]; intros [|i] t; simpl; auto. Qed.

Lemma upd_nth_id : forall l i, upd l i (nth i l 0) = l.
Proof. induction l as [|x l IH]; intros [|i]; simpl; auto. now rewrite IH. Qed.

Lemma upd_out : forall l i t, (length l <= i)%nat -> upd l i t = l.
Proof. induction l as [|x l IH]; intros [|i] t H; simpl in *; auto; try lia. now rewrite IH by lia. Qed.

Lemma firstn_upd : forall m l i t, firstn m (upd l i t) = upd (firstn m l) i t.
Proof.
  induction m as [|m IH]; intros [|x l] [|i] t; simpl; auto.
  now rewrite IH.
Qed.

Lemma nth_firstn_lt : forall m (l : list R) i, (i < m)%nat -> nth i (firstn m l) 0 = nth i l 0.
Proof.
  induction m as [|m IH]; intros [|x l] [|i] H; simpl; auto; try lia.
  apply IH; lia.
Qed.

(* ------------------------------------------------------------------------------------------------------------------------------ *)
(* vsum / vprod                                                                                                                   *)
(* ------------------------------------------------------------------------------------------------------------------------------ *)
Lemma vsum_app : forall a b, vsum (a ++ b) = vsum a + vsum b.
Proof. induction a as [|x a IH]; intros b; simpl; [ring|]. rewrite IH. ring. Qed.

Lemma vprod_upd : forall l i t, (i < length l)%nat -> vprod (upd l i t) = t * vprod (upd l i 1).
Proof.
  induction l as [|x l IH]; intros [|i] t H; simpl in *; try lia.
  - ring.
  - rewrite (IH i t) by lia. ring.
Qed.

Lemma vprod_split : forall l i, (i < length l)%nat -> vprod l = nth i l 0 * vprod (upd l i 1).
Proof. intros l i H. rewrite <- vprod_upd by assumption. now rewrite upd_nth_id. Qed.

(* ------------------------------------------------------------------------------------------------------------------------------ *)
(* sums over index lists                                                                                                          *)
(* ------------------------------------------------------------------------------------------------------------------------------ *)
Lemma vsum_map_ext_in : forall (f h : nat -> R) ks, (forall k, In k ks -> f k = h k) -> vsum (map f ks) = vsum (map h ks).
Proof. intros f h ks H. now rewrite (map_ext_in f h ks H). Qed.

Lemma vsum_map_zero : forall (f : nat -> R) ks, (forall k, In k ks -> f k = 0) -> vsum (map f ks) = 0.
Proof.
  intros f. induction ks as [|k ks IH]; intros H; simpl; [reflexivity|].
  rewrite H by (now left). rewrite IH by (intros; apply H; now right). ring.
Qed.

Lemma vsum_map_scal : forall (f : nat -> R) c ks, vsum (map (fun k => f k * c) ks) = vsum (map f ks) * c.
Proof. intros f c. induction ks as [|k ks IH]; simpl; [ring|]. rewrite IH. ring. Qed.

Lemma is_derive_vsum_map : forall (f : nat -> R -> R) (d : nat -> R) x ks,
  (forall k, In k ks -> is_derive (f k) x (d k)) ->
  is_derive (fun t => vsum (map (fun k => f k t) ks)) x (vsum (map d ks)).
Proof.
  intros f d x. induction ks as [|k ks IH]; intros H; simpl.
  - apply (is_derive_const (V := R_NormedModule) 0 x).
  - apply (is_derive_plus (V := R_NormedModule) (f k) (fun t => vsum (map (fun k => f k t) ks))).
    + apply H. now left.
    + apply IH. intros k' Hk'. apply H. now right.
Qed.

Lemma dot_seq : forall g m, length g = length m ->
  dot g m = vsum (map (fun k => nth k g 0 * nth k m 0) (seq 0 (length m))).
Proof.
  unfold dot. induction g as [|a g IH]; intros [|b m] H; simpl in *; try discriminate; [reflexivity|].
  f_equal. rewrite IH by lia. rewrite <- seq_shift, map_map. reflexivity.
Qed.

Lemma length_vcumprod : forall l, length (vcumprod l) = length l.
Proof. intros l. unfold vcumprod. now rewrite map_length, seq_length. Qed.

Lemma nth_vcumprod : forall l k, (k < length l)%nat -> nth k (vcumprod l) 0 = vprod (firstn (S k) l).
Proof.
  intros l k H. unfold vcumprod.
  rewrite (nth_indep _ 0 ((fun k => vprod (firstn (S k) l)) 0%nat)) by (now rewrite map_length, seq_length).
  rewrite (map_nth (fun k => vprod (firstn (S k) l))). now rewrite seq_nth.
Qed.

(* ------------------------------------------------------------------------------------------------------------------------------ *)
(* one term of the sum                                                                                                            *)
(* ------------------------------------------------------------------------------------------------------------------------------ *)
(* slope of term k *)
Definition cp_slope (g l : list R) (i k : nat) : R :=
  if (i <=? k)%nat then nth k g 0 * vprod (firstn (S k) l) / nth i l 0 else 0.

Lemma cumprod_term : forall g l i k, (i < length l)%nat -> (k < length l)%nat -> nth i l 0 <> 0 ->
  is_derive (fun t => nth k g 0 * vprod (firstn (S k) (upd l i t))) (nth i l 0) (cp_slope g l i k).
Proof.
  intros g l i k Hi Hk Hx. unfold cp_slope.
  destruct (Nat.leb_spec i k) as [Hik|Hik].
  - (* k >= i: linear in t *)
    assert (Hlen : (i < length (firstn (S k) l))%nat) by (rewrite firstn_length_le; lia).
    apply (is_derive_ext (fun t => nth k g 0 * (t * vprod (upd (firstn (S k) l) i 1)))).
    + intros t. rewrite firstn_upd. rewrite (vprod_upd _ i t Hlen). reflexivity.
    + rewrite (vprod_split (firstn (S k) l) i Hlen). rewrite nth_firstn_lt by lia.
      revert Hx. generalize (nth k g 0) (nth i l 0) (vprod (upd (firstn (S k) l) i 1)). intros gk x B Hx.
      auto_derive; [exact I | field; exact Hx].
  - (* k < i: constant *)
    apply (is_derive_ext (fun _ => nth k g 0 * vprod (firstn (S k) l))).
    + intros t. rewrite firstn_upd, upd_out; [reflexivity|]. rewrite firstn_length_le; lia.
    + apply (is_derive_const (V := R_NormedModule)).
Qed.

(* ------------------------------------------------------------------------------------------------------------------------------ *)
(* the theorem                                                                                                                    *)
(* ------------------------------------------------------------------------------------------------------------------------------ *)
Lemma cumprod_vjp : forall g l i, (i < length l)%nat -> length g = length l -> nth i l 0 <> 0 ->
    is_derive (fun t => dot g (vcumprod (upd l i t))) (nth i l 0) (cumprod_bwd g l i).
Proof.
  intros g l i Hi Hg Hx.
  set (n := length l).
  (* the function as a sum over seq 0 n *)
  apply (is_derive_ext (fun t => vsum (map (fun k => (fun k t => nth k g 0 * vprod (firstn (S k) (upd l i t))) k t) (seq 0 n)))).
  { intros t. rewrite dot_seq by (now rewrite length_vcumprod, length_upd).
    rewrite length_vcumprod, length_upd. fold n.
    apply vsum_map_ext_in. intros k Hk. apply in_seq in Hk.
    rewrite nth_vcumprod by (rewrite length_upd; fold n; lia). reflexivity. }
  (* the derivative as a sum over seq 0 n *)
  replace (cumprod_bwd g l i) with (vsum (map (cp_slope g l i) (seq 0 n))).
  { apply is_derive_vsum_map. intros k Hk. apply in_seq in Hk. apply cumprod_term; auto. fold n. lia. }
  unfold cumprod_bwd. fold n.
  replace n with (i + (n - i))%nat at 1 by (unfold n; lia).
  rewrite seq_app, map_app, vsum_app. simpl (0 + i)%nat.
  rewrite vsum_map_zero.
  2:{ intros k Hk. apply in_seq in Hk. unfold cp_slope. destruct (Nat.leb_spec i k); [lia | reflexivity]. }
  rewrite Rplus_0_l. unfold Rdiv at 1. rewrite <- vsum_map_scal.
  apply vsum_map_ext_in. intros k Hk. apply in_seq in Hk. unfold cp_slope.
  destruct (Nat.leb_spec i k); [|lia].
  rewrite nth_vcumprod by (fold n; lia). unfold Rdiv. ring.
Qed.

Print Assumptions cumprod_vjp.
