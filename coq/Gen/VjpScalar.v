(* GENERATED on every run by harness/vjp_translate.py from /repo/src/mygrad (ast of each class' forward and backward_var) -- do not edit.
   <Op>_fwd: the forward formula; <Op>_bwd_<i> g ...: what backward_var(g, i) returns, element-wise. *)
From Coq Require Import Reals. From MG Require Import Model.RealOps. Open Scope R_scope.

(* Add  (math/arithmetic/ops.py) *)
Definition Add_fwd (a b : R) : R := (Rplus a b).
Definition Add_bwd_0 (g a b : R) : R := g.
Definition Add_bwd_1 (g a b : R) : R := g.

(* Subtract  (math/arithmetic/ops.py) *)
Definition Subtract_fwd (a b : R) : R := (Rminus a b).
Definition Subtract_bwd_0 (g a b : R) : R := g.
Definition Subtract_bwd_1 (g a b : R) : R := (- g).

(* Multiply  (math/arithmetic/ops.py) *)
Definition Multiply_fwd (a b : R) : R := (Rmult a b).
Definition Multiply_bwd_0 (g a b : R) : R := (g * b).
Definition Multiply_bwd_1 (g a b : R) : R := (g * a).

(* Divide  (math/arithmetic/ops.py) *)
Definition Divide_fwd (a b : R) : R := (Rdiv a b).
Definition Divide_bwd_0 (g a b : R) : R := (g / b).
Definition Divide_bwd_1 (g a b : R) : R := (((- g) * a) / (b ^ 2)).

(* Power  (math/arithmetic/ops.py) *)
Definition Power_fwd (a b : R) : R := (np_power a b).
Definition Power_bwd_0 (g a b : R) : R := ((g * b) * (np_power a (if Req_EM_T b 0 then 1 else (b - 1)))).
Definition Power_bwd_1 (g a b : R) : R := ((g * (np_power a b)) * (ln (if Req_EM_T a 0 then 1 else a))).

(* Reciprocal  (math/arithmetic/ops.py) *)
Definition Reciprocal_fwd (a : R) : R := (Rinv a).
Definition Reciprocal_bwd_0 (g a : R) : R := ((- g) * (Rinv (a ^ 2))).

(* Square  (math/arithmetic/ops.py) *)
Definition Square_fwd (a : R) : R := (Rsqr a).
Definition Square_bwd_0 (g a : R) : R := ((2 * g) * a).

(* Positive  (math/arithmetic/ops.py) *)
Definition Positive_fwd (a : R) : R := (np_positive a).
Definition Positive_bwd_0 (g a : R) : R := g.

(* Negative  (math/arithmetic/ops.py) *)
Definition Negative_fwd (a : R) : R := (Ropp a).
Definition Negative_bwd_0 (g a : R) : R := (Ropp g).

(* Exp  (math/exp_log/ops.py) *)
Definition Exp_fwd (a : R) : R := (exp a).
Definition Exp_bwd_0 (g a : R) : R := (g * (exp a)).

(* Exp2  (math/exp_log/ops.py) *)
Definition Exp2_fwd (a : R) : R := (np_exp2 a).
Definition Exp2_bwd_0 (g a : R) : R := ((g * (np_exp2 a)) * (ln 2)).

(* Expm1  (math/exp_log/ops.py) *)
Definition Expm1_fwd (a : R) : R := (np_expm1 a).
Definition Expm1_bwd_0 (g a : R) : R := (g * (exp a)).

(* Logaddexp  (math/exp_log/ops.py) *)
Definition Logaddexp_fwd (a b : R) : R := (np_logaddexp a b).
Definition Logaddexp_bwd_0 (g a b : R) : R := (g / (1 + (exp (b - a)))).
Definition Logaddexp_bwd_1 (g a b : R) : R := (g / (1 + (exp (a - b)))).

(* Logaddexp2  (math/exp_log/ops.py) *)
Definition Logaddexp2_fwd (a b : R) : R := (np_logaddexp2 a b).
Definition Logaddexp2_bwd_0 (g a b : R) : R := (g / (1 + (np_power 2 (b - a)))).
Definition Logaddexp2_bwd_1 (g a b : R) : R := (g / (1 + (np_power 2 (a - b)))).

(* Log  (math/exp_log/ops.py) *)
Definition Log_fwd (a : R) : R := (ln a).
Definition Log_bwd_0 (g a : R) : R := (g / a).

(* Log2  (math/exp_log/ops.py) *)
Definition Log2_fwd (a : R) : R := (np_log2 a).
Definition Log2_bwd_0 (g a : R) : R := (g / (a * (ln 2))).

(* Log10  (math/exp_log/ops.py) *)
Definition Log10_fwd (a : R) : R := (np_log10 a).
Definition Log10_bwd_0 (g a : R) : R := (g / (a * (ln 10))).

(* Log1p  (math/exp_log/ops.py) *)
Definition Log1p_fwd (a : R) : R := (np_log1p a).
Definition Log1p_bwd_0 (g a : R) : R := (g / (1 + a)).

(* Sin  (math/trigonometric/ops.py) *)
Definition Sin_fwd (a : R) : R := (sin a).
Definition Sin_bwd_0 (g a : R) : R := (g * (cos a)).

(* Sinc  (math/trigonometric/ops.py)  [np.isclose(x, c, ...) is modelled as x = c] *)
Definition Sinc_fwd (a : R) : R := (np_sinc a).
Definition Sinc_bwd_0 (g a : R) : R := ((PI * g) * (if Req_EM_T a 0 then 0 else (if Req_EM_T a 0 then 0 else ((((a * PI) * (cos (a * PI))) - (sin (a * PI))) / ((a * PI) ^ 2))))).

(* Cos  (math/trigonometric/ops.py) *)
Definition Cos_fwd (a : R) : R := (cos a).
Definition Cos_bwd_0 (g a : R) : R := (g * (- (sin a))).

(* Tan  (math/trigonometric/ops.py) *)
Definition Tan_fwd (a : R) : R := (tan a).
Definition Tan_bwd_0 (g a : R) : R := (g / ((cos a) ^ 2)).

(* Csc  (math/trigonometric/ops.py) *)
Definition Csc_fwd (a : R) : R := (1 / (sin a)).
Definition Csc_bwd_0 (g a : R) : R := ((g * (- (cos a))) / ((sin a) ^ 2)).

(* Sec  (math/trigonometric/ops.py) *)
Definition Sec_fwd (a : R) : R := (1 / (cos a)).
Definition Sec_bwd_0 (g a : R) : R := ((g * (sin a)) / ((cos a) ^ 2)).

(* Cot  (math/trigonometric/ops.py) *)
Definition Cot_fwd (a : R) : R := (1 / (tan a)).
Definition Cot_bwd_0 (g a : R) : R := ((- g) / ((sin a) ^ 2)).

(* Arcsin  (math/trigonometric/ops.py) *)
Definition Arcsin_fwd (a : R) : R := (asin a).
Definition Arcsin_bwd_0 (g a : R) : R := (if Req_EM_T (Rabs a) 1 then 0 else (g / (sqrt (1 - (a ^ 2))))).

(* Arccos  (math/trigonometric/ops.py) *)
Definition Arccos_fwd (a : R) : R := (acos a).
Definition Arccos_bwd_0 (g a : R) : R := (if Req_EM_T (Rabs a) 1 then 0 else ((- g) / (sqrt (1 - (a ^ 2))))).

(* Arctan  (math/trigonometric/ops.py) *)
Definition Arctan_fwd (a : R) : R := (atan a).
Definition Arctan_bwd_0 (g a : R) : R := (g / (1 + (a ^ 2))).

(* Arccsc  (math/trigonometric/ops.py) *)
Definition Arccsc_fwd (a : R) : R := (asin (1 / a)).
Definition Arccsc_bwd_0 (g a : R) : R := (if Req_EM_T (Rabs a) 1 then 0 else ((- g) / ((Rabs a) * (sqrt ((a ^ 2) - 1))))).

(* Arcsec  (math/trigonometric/ops.py) *)
Definition Arcsec_fwd (a : R) : R := (acos (1 / a)).
Definition Arcsec_bwd_0 (g a : R) : R := (if Req_EM_T (Rabs a) 1 then 0 else (g / ((Rabs a) * (sqrt ((a ^ 2) - 1))))).

(* Arccot  (math/trigonometric/ops.py) *)
Definition Arccot_fwd (a : R) : R := (if Req_EM_T a 0 then (PI / 2) else (if Req_EM_T a 0 then 0 else (atan (1 / a)))).
Definition Arccot_bwd_0 (g a : R) : R := ((- g) / (1 + (a ^ 2))).

(* Arctan2  (math/trigonometric/ops.py) *)
Definition Arctan2_fwd (a b : R) : R := (np_arctan2 a b).
Definition Arctan2_bwd_0 (g a b : R) : R := ((g * b) / ((a ^ 2) + (b ^ 2))).
Definition Arctan2_bwd_1 (g a b : R) : R := ((((- 1) * g) * a) / ((a ^ 2) + (b ^ 2))).

(* Sinh  (math/hyperbolic_trig/ops.py) *)
Definition Sinh_fwd (a : R) : R := (sinh a).
Definition Sinh_bwd_0 (g a : R) : R := (g * (cosh a)).

(* Cosh  (math/hyperbolic_trig/ops.py) *)
Definition Cosh_fwd (a : R) : R := (cosh a).
Definition Cosh_bwd_0 (g a : R) : R := (g * (sinh a)).

(* Tanh  (math/hyperbolic_trig/ops.py) *)
Definition Tanh_fwd (a : R) : R := (tanh a).
Definition Tanh_bwd_0 (g a : R) : R := (g * (1 - ((tanh a) ^ 2))).

(* Csch  (math/hyperbolic_trig/ops.py) *)
Definition Csch_fwd (a : R) : R := (1 / (sinh a)).
Definition Csch_bwd_0 (g a : R) : R := ((g * (- (cosh a))) / ((sinh a) ^ 2)).

(* Sech  (math/hyperbolic_trig/ops.py) *)
Definition Sech_fwd (a : R) : R := (1 / (cosh a)).
Definition Sech_bwd_0 (g a : R) : R := ((g * (- (sinh a))) / ((cosh a) ^ 2)).

(* Coth  (math/hyperbolic_trig/ops.py) *)
Definition Coth_fwd (a : R) : R := (1 / (tanh a)).
Definition Coth_bwd_0 (g a : R) : R := ((g * (- 1)) / ((sinh a) ^ 2)).

(* Arcsinh  (math/hyperbolic_trig/ops.py) *)
Definition Arcsinh_fwd (a : R) : R := (arcsinh a).
Definition Arcsinh_bwd_0 (g a : R) : R := (g / (sqrt (1 + (a ^ 2)))).

(* Arccosh  (math/hyperbolic_trig/ops.py) *)
Definition Arccosh_fwd (a : R) : R := (np_arccosh a).
Definition Arccosh_bwd_0 (g a : R) : R := (g / (sqrt ((a ^ 2) - 1))).

(* Arctanh  (math/hyperbolic_trig/ops.py) *)
Definition Arctanh_fwd (a : R) : R := (np_arctanh a).
Definition Arctanh_bwd_0 (g a : R) : R := (g / (1 - (a ^ 2))).

(* Arccsch  (math/hyperbolic_trig/ops.py) *)
Definition Arccsch_fwd (a : R) : R := (arcsinh (1 / a)).
Definition Arccsch_bwd_0 (g a : R) : R := ((- g) / ((Rabs a) * (sqrt (1 + (a ^ 2))))).

(* Arccoth  (math/hyperbolic_trig/ops.py) *)
Definition Arccoth_fwd (a : R) : R := (np_arctanh (1 / a)).
Definition Arccoth_bwd_0 (g a : R) : R := (g / (1 - (a ^ 2))).

(* Abs  (math/misc/ops.py)  [option nan_to_num evaluated at its default True] *)
Definition Abs_fwd (a : R) : R := (Rabs a).
Definition Abs_bwd_0 (g a : R) : R := (g * (if Rlt_dec a 0 then (- 1) else (if Req_EM_T a 0 then 0 else (if Rlt_dec 0 a then 1 else 0)))).

(* Sqrt  (math/misc/ops.py) *)
Definition Sqrt_fwd (a : R) : R := (sqrt a).
Definition Sqrt_bwd_0 (g a : R) : R := (g / (2 * (sqrt a))).

(* Cbrt  (math/misc/ops.py) *)
Definition Cbrt_fwd (a : R) : R := (np_cbrt a).
Definition Cbrt_bwd_0 (g a : R) : R := (g / (3 * (np_cbrt (a ^ 2)))).

(* ELU  (nnet/activations/elu.py) *)
Definition ELU_fwd (alpha x : R) : R := (if Rlt_dec x 0 then (alpha * ((exp x) - 1)) else x).
Definition ELU_bwd_0 (g alpha x : R) : R := (g * (if Rlt_dec x 0 then ((alpha * ((exp x) - 1)) + alpha) else 1)).

(* SELU  (nnet/activations/selu.py) *)
Definition SELU_fwd (x : R) : R := (1.0507009873554805 * (if Rlt_dec x 0 then (1.6732632423543772 * ((exp x) - 1)) else x)).
Definition SELU_bwd_0 (g x : R) : R := ((g * 1.0507009873554805) * (if Rlt_dec x 0 then ((1.6732632423543772 * ((exp x) - 1)) + 1.6732632423543772) else 1)).

(* Sigmoid  (nnet/activations/sigmoid.py) *)
Definition Sigmoid_fwd (a : R) : R := (Rinv ((exp ((- 1) * a)) + 1)).
Definition Sigmoid_bwd_0 (g a : R) : R := ((g * (Rinv ((exp ((- 1) * a)) + 1))) * (1 - (Rinv ((exp ((- 1) * a)) + 1)))).

(* ReLu  (nnet/activations/relu.py) *)
Definition ReLu_fwd (a : R) : R := (a * (if Rlt_dec 0 a then 1 else 0)).
Definition ReLu_bwd_0 (g a : R) : R := (g * (if Rlt_dec 0 a then 1 else 0)).

