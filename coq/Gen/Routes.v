(* GENERATED on every run by harness/routes_translate.py from /repo/src/mygrad (ast of tensor_base.py and math/**/funcs.py) and from the
   imported dispatch tables -- do not edit. *)
From Coq Require Import List String. Import ListNotations. Open Scope string_scope.

Definition dunder_routes : list (string * list (string * list nat * bool)) := [
  ("__add__", [("Add", [0; 1], false)]);
  ("__iadd__", [("Add", [0; 1], true)]);
  ("__imul__", [("Multiply", [0; 1], true)]);
  ("__ipow__", [("Power", [0; 1], true); ("Positive", [0], true); ("Square", [0], true)]);
  ("__isub__", [("Subtract", [0; 1], true)]);
  ("__itruediv__", [("Divide", [0; 1], true)]);
  ("__matmul__", [("MatMul", [0; 1], false)]);
  ("__mul__", [("Multiply", [0; 1], false)]);
  ("__neg__", [("Negative", [0], false)]);
  ("__pos__", [("Positive", [0], false)]);
  ("__pow__", [("Power", [0; 1], false); ("Positive", [0], false); ("Square", [0], false)]);
  ("__radd__", [("Add", [1; 0], false)]);
  ("__rmatmul__", [("MatMul", [1; 0], false)]);
  ("__rmul__", [("Multiply", [1; 0], false)]);
  ("__rpow__", [("Power", [1; 0], false)]);
  ("__rsub__", [("Subtract", [1; 0], false)]);
  ("__rtruediv__", [("Divide", [1; 0], false)]);
  ("__sub__", [("Subtract", [0; 1], false)]);
  ("__truediv__", [("Divide", [0; 1], false)])
].
Definition ufunc_routes : list (string * string) := [
  ("absolute", "Abs");
  ("add", "Add");
  ("arccos", "Arccos");
  ("arccosh", "Arccosh");
  ("arcsin", "Arcsin");
  ("arcsinh", "Arcsinh");
  ("arctan", "Arctan");
  ("arctan2", "Arctan2");
  ("arctanh", "Arctanh");
  ("cbrt", "Cbrt");
  ("cos", "Cos");
  ("cosh", "Cosh");
  ("exp", "Exp");
  ("exp2", "Exp2");
  ("expm1", "Expm1");
  ("log", "Log");
  ("log10", "Log10");
  ("log1p", "Log1p");
  ("log2", "Log2");
  ("logaddexp", "Logaddexp");
  ("logaddexp2", "Logaddexp2");
  ("matmul", "MatMul");
  ("maximum", "Maximum");
  ("minimum", "Minimum");
  ("multiply", "Multiply");
  ("negative", "Negative");
  ("positive", "Positive");
  ("power", "Power");
  ("reciprocal", "Reciprocal");
  ("sin", "Sin");
  ("sinh", "Sinh");
  ("sqrt", "Sqrt");
  ("square", "Square");
  ("subtract", "Subtract");
  ("tan", "Tan");
  ("tanh", "Tanh");
  ("true_divide", "Divide")
].
Definition method_routes : list (string * string) := [
  ("T", "Tensor_Transpose_Property");
  ("cumprod", "CumProd");
  ("cumsum", "CumSum");
  ("flatten", "Flatten");
  ("max", "Max");
  ("mean", "Mean");
  ("min", "Min");
  ("moveaxis", "MoveAxis");
  ("prod", "Prod");
  ("ravel", "Ravel");
  ("reshape", "Reshape");
  ("squeeze", "Squeeze");
  ("std", "StdDev");
  ("sum", "Sum");
  ("swapaxes", "SwapAxes");
  ("transpose", "Transpose");
  ("var", "Variance")
].
Definition function_routes : list (string * string) := [
  ("add_sequence", "AddSequence");
  ("arccot", "Arccot");
  ("arccoth", "Arccoth");
  ("arccsc", "Arccsc");
  ("arccsch", "Arccsch");
  ("arcsec", "Arcsec");
  ("batchnorm", "BatchNorm");
  ("broadcast_to", "BroadcastTo");
  ("concatenate", "Concatenate");
  ("conv_nd", "ConvND");
  ("cot", "Cot");
  ("coth", "Coth");
  ("csc", "Csc");
  ("csch", "Csch");
  ("cumprod", "CumProd");
  ("cumsum", "CumSum");
  ("einsum", "EinSum");
  ("elu", "ELU");
  ("expand_dims", "ExpandDims");
  ("focal_loss", "FocalLoss");
  ("gru", "GRUnit");
  ("logsoftmax", "LogSoftmax");
  ("margin_ranking_loss", "MarginRanking");
  ("max", "Max");
  ("max_pool", "MaxPoolND");
  ("mean", "Mean");
  ("min", "Min");
  ("moveaxis", "MoveAxis");
  ("multiclass_hinge", "MulticlassHinge");
  ("multiply_sequence", "MultiplySequence");
  ("norm", "Norm");
  ("prod", "Prod");
  ("ravel", "Ravel");
  ("relu", "ReLu");
  ("repeat", "Repeat");
  ("reshape", "Reshape");
  ("roll", "Roll");
  ("sec", "Sec");
  ("sech", "Sech");
  ("selu", "SELU");
  ("sigmoid", "Sigmoid");
  ("sinc", "Sinc");
  ("softmax", "Softmax");
  ("softmax_crossentropy", "SoftmaxCrossEntropy");
  ("squeeze", "Squeeze");
  ("stack", "Stack");
  ("std", "StdDev");
  ("sum", "Sum");
  ("swapaxes", "SwapAxes");
  ("transpose", "Transpose");
  ("var", "Variance");
  ("where", "Where")
].
(* structure of Tensor.__array_ufunc__ / _as_constant_array, read from the source *)
Definition au_honours_method_registered : bool := true.
Definition au_honours_method_fallback : bool := true.
Definition au_fallback_casters : list (string * string) := [("_REGISTERED_BOOL_ONLY_UFUNC", "_as_array_operand"); ("_REGISTERED_CONST_ONLY_UFUNC", "_as_constant_array")].
Definition au_else_notimplemented : bool := true.
Definition au_constonly_becomes_valueerror : bool := true.
Definition const_caster_raises_on_nonconstant : bool := true.
(* operators with several routes: the types of `other` for which a shortcut route may be taken *)
Definition shortcut_operand_types : list (string * list string) := [("__ipow__", ["Number"; "np.ndarray"]); ("__pow__", ["Number"; "np.ndarray"])].
Definition np_func_override : list (string * string) := [   (* numpy function -> mygrad function it is overridden by *)
  ("amax", "max");
  ("amin", "min");
  ("any", "any");
  ("argmax", "argmax");
  ("argmin", "argmin");
  ("atleast_1d", "atleast_1d");
  ("atleast_2d", "atleast_2d");
  ("atleast_3d", "atleast_3d");
  ("broadcast_to", "broadcast_to");
  ("clip", "clip");
  ("concatenate", "concatenate");
  ("cumprod", "cumprod");
  ("cumsum", "cumsum");
  ("einsum", "einsum");
  ("empty_like", "empty_like");
  ("expand_dims", "expand_dims");
  ("full_like", "full_like");
  ("max", "max");
  ("mean", "mean");
  ("min", "min");
  ("moveaxis", "moveaxis");
  ("norm", "norm");
  ("ones_like", "ones_like");
  ("prod", "prod");
  ("ravel", "ravel");
  ("repeat", "repeat");
  ("reshape", "reshape");
  ("roll", "roll");
  ("squeeze", "squeeze");
  ("stack", "stack");
  ("std", "std");
  ("sum", "sum");
  ("swapaxes", "swapaxes");
  ("transpose", "transpose");
  ("var", "var");
  ("where", "where");
  ("zeros_like", "zeros_like")
].
Definition np_ufunc_override : list (string * (string * string)) := [   (* numpy ufunc -> (mygrad function name, its Operation class) *)
  ("absolute", ("absolute", "Abs"));
  ("add", ("add", "Add"));
  ("arccos", ("arccos", "Arccos"));
  ("arccosh", ("arccosh", "Arccosh"));
  ("arcsin", ("arcsin", "Arcsin"));
  ("arcsinh", ("arcsinh", "Arcsinh"));
  ("arctan", ("arctan", "Arctan"));
  ("arctan2", ("arctan2", "Arctan2"));
  ("arctanh", ("arctanh", "Arctanh"));
  ("cbrt", ("cbrt", "Cbrt"));
  ("cos", ("cos", "Cos"));
  ("cosh", ("cosh", "Cosh"));
  ("divide", ("true_divide", "Divide"));
  ("exp", ("exp", "Exp"));
  ("exp2", ("exp2", "Exp2"));
  ("expm1", ("expm1", "Expm1"));
  ("log", ("log", "Log"));
  ("log10", ("log10", "Log10"));
  ("log1p", ("log1p", "Log1p"));
  ("log2", ("log2", "Log2"));
  ("logaddexp", ("logaddexp", "Logaddexp"));
  ("logaddexp2", ("logaddexp2", "Logaddexp2"));
  ("matmul", ("matmul", "MatMul"));
  ("maximum", ("maximum", "Maximum"));
  ("minimum", ("minimum", "Minimum"));
  ("multiply", ("multiply", "Multiply"));
  ("negative", ("negative", "Negative"));
  ("positive", ("positive", "Positive"));
  ("power", ("power", "Power"));
  ("reciprocal", ("reciprocal", "Reciprocal"));
  ("sin", ("sin", "Sin"));
  ("sinh", ("sinh", "Sinh"));
  ("sqrt", ("sqrt", "Sqrt"));
  ("square", ("square", "Square"));
  ("subtract", ("subtract", "Subtract"));
  ("tan", ("tan", "Tan"));
  ("tanh", ("tanh", "Tanh"))
].
Definition mg_public_ufunc : list (string * string) := [   (* mygrad.<name> -> Operation class of that ufunc object *)
  ("abs", "Abs");
  ("absolute", "Abs");
  ("add", "Add");
  ("arccos", "Arccos");
  ("arccosh", "Arccosh");
  ("arcsin", "Arcsin");
  ("arcsinh", "Arcsinh");
  ("arctan", "Arctan");
  ("arctan2", "Arctan2");
  ("arctanh", "Arctanh");
  ("cbrt", "Cbrt");
  ("cos", "Cos");
  ("cosh", "Cosh");
  ("divide", "Divide");
  ("exp", "Exp");
  ("exp2", "Exp2");
  ("expm1", "Expm1");
  ("log", "Log");
  ("log10", "Log10");
  ("log1p", "Log1p");
  ("log2", "Log2");
  ("logaddexp", "Logaddexp");
  ("logaddexp2", "Logaddexp2");
  ("matmul", "MatMul");
  ("maximum", "Maximum");
  ("minimum", "Minimum");
  ("multiply", "Multiply");
  ("negative", "Negative");
  ("positive", "Positive");
  ("power", "Power");
  ("reciprocal", "Reciprocal");
  ("sin", "Sin");
  ("sinh", "Sinh");
  ("sqrt", "Sqrt");
  ("square", "Square");
  ("subtract", "Subtract");
  ("tan", "Tan");
  ("tanh", "Tanh");
  ("true_divide", "Divide")
].
Definition bool_only_set : list string := ["equal"; "greater"; "greater_equal"; "isfinite"; "isinf"; "isnan"; "isnat"; "less"; "less_equal"; "logical_and"; "logical_not"; "logical_or"; "logical_xor"; "not_equal"; "signbit"].
Definition const_only_set : list string := ["ceil"; "divmod"; "floor"; "floor_divide"; "fmod"; "remainder"; "rint"; "sign"; "trunc"].
Definition no_diff_set : list string := ["allclose"; "bincount"; "can_cast"; "copyto"; "isclose"; "may_share_memory"; "min_scalar_type"; "result_type"; "shape"; "shares_memory"].
