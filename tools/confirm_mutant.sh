#!/bin/bash
# usage: confirm_mutant.sh <seed-id> <patch.diff> <demo.py> [base-commit]
# Confirms in a scratch worktree (outside /repo and /verif) that the change (1) makes the demo fail,
# (2) keeps the existing suite passing, and that the demo passes without it.  Writes a log and
# prints a one-line verdict.  The worktree is removed afterwards.
set -u
ID=$1; PATCH=$(readlink -f "$2"); DEMO=$(readlink -f "$3"); BASE=${4:-9cd3091}
WT=/tmp/confirm_wt_$ID
LOG=/tmp/confirm_$ID.log
git -C /repo worktree remove --force $WT >/dev/null 2>&1
git -C /repo worktree add -q --detach $WT $BASE || exit 2
cd $WT
export PYTHONPATH=$WT/src PYTHONHASHSEED=0 PYTHONDONTWRITEBYTECODE=1
{
echo "== demo on unchanged code"; timeout 600 /venv/bin/python $DEMO; D0=$?; echo "rc=$D0"
echo "== apply"; git apply $PATCH; A=$?; echo "rc=$A"
echo "== demo with change"; timeout 600 /venv/bin/python $DEMO; D1=$?; echo "rc=$D1"
echo "== full suite with change"
timeout 3000 /venv/bin/python -m pytest -q -p no:cacheprovider --timeout=900 -n ${NJOBS:-6} tests --deselect tests/test_version.py::test_version 2>&1 | tail -8 > $LOG.suite; S=${PIPESTATUS[0]}; cat $LOG.suite; echo "rc=$S"
# an ERROR line (fixture / teardown failure, e.g. "test toggled MEM_GUARD value") is a suite failure and is never treated as a flake
NERR=$(grep -c '^ERROR ' $LOG.suite)
if [ "$S" != 0 ] && [ "$NERR" = 0 ]; then
  # hypothesis / statistical flakes: re-run up to 3 failing tests in isolation (twice); all passing => the suite counts as passing
  FAILED=$(grep '^FAILED ' $LOG.suite | awk '{print $2}' | head -4)
  NF=$(echo "$FAILED" | grep -c .)
  if [ "$NF" -ge 1 ] && [ "$NF" -le 3 ]; then
    echo "== re-running $NF failed test(s) in isolation: $FAILED"
    OK=1
    for t in $FAILED; do
      timeout 900 /venv/bin/python -m pytest -q -p no:cacheprovider "$t" 2>&1 | tail -2 || true
      timeout 900 /venv/bin/python -m pytest -q -p no:cacheprovider "$t" > /dev/null 2>&1 || OK=0
    done
    if [ "$OK" = 1 ]; then S=0; echo "isolated re-runs pass: treated as flaky"; fi
  fi
fi
} > $LOG 2>&1
cd /; git -C /repo worktree remove --force $WT >/dev/null 2>&1
if [ "$D0" = 0 ] && [ "$A" = 0 ] && [ "$D1" != 0 ] && [ "$S" = 0 ]; then echo "CONFIRMED $ID (demo ok->fail, suite passes) log=$LOG"; else echo "NOT-CONFIRMED $ID D0=$D0 apply=$A D1=$D1 suite=$S log=$LOG"; fi
