#!/usr/bin/env python3
"""save_seeded.py <seed-id> <property> <patch> <demo> <summary> <needs> <detected: yes|no|partial> [notes]"""
import json, os, shutil, sys
sid, prop, patch, demo, summary, needs, detected = sys.argv[1:8]
notes = sys.argv[8] if len(sys.argv) > 8 else ""
d = os.path.join("/verif/seeded", sid)
os.makedirs(d, exist_ok=True)
shutil.copy(patch, os.path.join(d, "patch.diff"))
shutil.copy(demo, os.path.join(d, "demo.py"))
log = "/tmp/confirm_%s.log" % sid
conf = open(log).read()[-1500:] if os.path.exists(log) else ""
json.dump({
    "id": sid, "property": prop, "summary": summary, "needs_to_manifest": needs,
    "origin": "independent sub-agent given only the property text and a scratch worktree of /repo (base: the /repo HEAD of the round in which it was produced)",
    "confirmed_by_me": "tools/confirm_mutant.sh in a scratch worktree: demo passes on unchanged code, fails with the patch; full test suite passes with the patch (flaky hypothesis tests re-run in isolation)",
    "confirm_log_tail": conf,
    "check_run": "git -C /repo apply seeded/%s/patch.diff && ./check %s ; git -C /repo checkout -- ." % (sid, prop),
    "detected_by_check": detected, "notes": notes,
}, open(os.path.join(d, "meta.json"), "w"), indent=1)
print("saved", d)
