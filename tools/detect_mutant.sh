#!/bin/bash
# usage: detect_mutant.sh <seed-id> <patch> <prop> [<prop> ...]
# Applies the patch to a private scratch worktree of /repo (HEAD), runs the named checks against it (VERIF_REPO) and prints, per check,
# DETECTED / MISSED with the kinds of the reported violations.  The worktree is removed afterwards.  /repo itself is never patched.
ID=$1; PATCH=$(readlink -f "$2"); shift; shift
WT=/tmp/mr_$ID
git -C /repo worktree remove --force $WT >/dev/null 2>&1
git -C /repo worktree add -q --detach $WT HEAD || exit 2
if ! git -C $WT apply "$PATCH"; then echo "$ID APPLY-FAILED"; git -C /repo worktree remove --force $WT; exit 2; fi
for P in "$@"; do
  OUT=$(VERIF_REPO=$WT /verif/check $P 2>&1)
  N=$(echo "$OUT" | grep -c '^VIOLATION')
  if [ "$N" -gt 0 ]; then
    echo "$ID $P DETECTED ($N)"
    echo "$OUT" | grep '^VIOLATION' | head -3 | sed 's/.*replay=//; s/ .*//' | while read f; do /venv/bin/python -c "import json,sys; print('      ', json.load(open(sys.argv[1]))['kind'][:200])" $f; rm -f $f; done
  else
    echo "$ID $P MISSED rc-tail: $(echo "$OUT" | tail -n 1 | cut -c1-150)"
  fi
done
git -C /repo worktree remove --force $WT >/dev/null 2>&1
