#!/bin/bash
# usage: try_mutant.sh <patch> <prop> [<prop> ...]   -- applies the patch to the scratch worktree /tmp/mutrepo (never to /repo), runs the checks
# against it (VERIF_REPO), prints their last lines and the kinds of the violations, restores the worktree.
PATCH=$(readlink -f "$1"); shift
git -C /tmp/mutrepo checkout -q -- . && git -C /tmp/mutrepo apply "$PATCH" || { echo "APPLY FAILED"; exit 2; }
for P in "$@"; do
  rm -rf /verif/replays/$P
  echo "--- $P"; VERIF_REPO=/tmp/mutrepo /verif/check $P 2>&1 | grep -v "^KNOWN-FINDING" | tail -3 | cut -c1-160
  /venv/bin/python - "$P" <<'PY'
import json,glob,sys
for f in glob.glob('/verif/replays/%s/*.json' % sys.argv[1])[:3]:
    print('     ', json.load(open(f))['kind'][:230])
PY
  rm -rf /verif/replays/$P
done
git -C /tmp/mutrepo checkout -q -- .
