#!/usr/bin/env python3
"""Regenerates /verif/MANIFEST.json from the table below (so it stays schema-valid) and validates it."""
import json
import os
import sys

HERE = os.path.dirname(os.path.dirname(os.path.abspath(__file__)))

ALL = ["C%02d" % i for i in range(1, 19)]

CHECKS = {
    "C01": dict(
        text="Machine-checked proof (Coq, generic in the ring: Z for execution, any commutative ring incl. R for meaning) that the reverse sweep of Operation.backward, run in the "
             "order produced by the DFS of collect_all_tensors_and_clear_grads, computes the adjoint of forward-mode tangents for EVERY program (DAG of any shape/depth, constants as cuts, "
             "repeated operands, any arity, broadcasting as gather/scatter): sum_x <x.grad, dx> = <seed, dL> for all directions, and tensors L does not depend on receive nothing; every op "
             "of the exact registry (segment_sum o kernel o gathers) is proved to have an exact VJP. Tie: random DAG programs over ~30 real MyGrad ops are run on /repo and every tensor's "
             "forward value, _grad (exact integers), constant flag and creator/consumer bookkeeping are compared inside Coq with the executable model Model/GraphP.v.",
        design_ref="DESIGN.md 3 (C01)",
        note="Trusted: Coq kernel; the translation of each real op into index maps (harness/exactops.py, self-checked against NumPy and re-validated by comparing forward values); "
             "NumPy kernels; exactness of float64 on small integers. Derivative = algebraic (formal) derivative of polynomial / piecewise-linear programs at the evaluation point; "
             "transcendental ops are outside this check (C02). Order-independence over commutative rewrites is exercised by the generator (operand order randomised), proved only as "
             "'any valid order gives the adjoint'. No axioms.",
        technique="Coq proof by potential-function invariant over the sweep + DFS order spec; exact-integer correspondence evaluated by vm_compute",
    ),
    "C02": dict(
        text="Machine-checked proofs (Coq + Coquelicot): for EVERY element-wise Operation class of MyGrad (50 classes: arithmetic, exp/log, trigonometric and inverse, hyperbolic and inverse, abs/sqrt/cbrt, "
             "sinc, ELU/SELU/sigmoid/ReLU) and every operand, at EVERY point of the differentiable domain, is_derive (g * forward) = the formula backward_var returns -- over Gen/VjpScalar.v, which a "
             "fail-closed ast translator regenerates from /repo on every run by symbolically executing each class' forward and backward_var; the documented conventions (|x|' = 0 at 0, arcsin/arccos/arccsc/"
             "arcsec 0 at +-1, sinc 0 at 0) are theorems too. Lane reductions (sum, mean, var, std, prod incl. zeros, softmax, logsoftmax, cross-entropy) for lanes of any length (Model/VecOps.v, hand-written + tied lane by lane). Index / bilinear / selection operations incl. conv_nd and max_pool: the exact-registry theorem (every registry op has an exact VJP over any commutative ring). Ties on "
             "every run: translated formulas vs the classes run through Tensor._op on point grids (incl. 0, +-1, singular points); RealOps meanings vs NumPy; 2175 exact-integer single-op programs with systematic "
             "options (all axis forms, keepdims, broadcasting, 0-d, indices, einsum/matmul shapes, max/min selection) compared in Coq; plus a numerical catalogue of ~1140 op x option entries incl. nnet layers/losses.",
        design_ref="DESIGN.md 3 (C02)",
        note="Partial: proofs are over the reals (rounding not modelled) and cover element-wise formulas + the exact registry; cumprod, norm, clip, batchnorm, gru "
             "and the remaining losses are covered only by the numerical catalogue (4th-order finite differences of MyGrad's own forward, tol 2e-6) = validation, not proof. NumPy kernels are assumed to compute the real functions "
             "of Model/RealOps.v (checked numerically each run). Axioms: the standard library's real-number axioms (ClassicalDedekindReals.sig_not_dec, sig_forall_dec, functional_extensionality_dep) via Reals/Coquelicot.",
        technique="Coq/Coquelicot derivative proofs over formulas translated from source on every run + exact-integer correspondence in Coq + numerical catalogue",
    ),
    "C03": dict(
        text="Machine-checked (Coq, vm_compute over tables regenerated from the installed NumPy on every run): on the complete lattice {registered binary ufunc} x {12 real dtypes} x {Python bool/int/float} x {both operand "
             "orders}, the rule Tensor._op uses for a Python-scalar operand (cast to np.result_type of the operands, then NumPy's own resolution) yields exactly NumPy's NEP-50 result dtype; the pre-repair rule is refuted. "
             "Tie: the dtype each scalar was actually cast to is read from the recorded operation and compared with the modelled rule in Coq; ~5000 (thorough: ~20000) calls covering every registered ufunc, sequential, "
             "shape/joining function, operator and method over operand kinds x dtypes x layouts x options (axis forms, keepdims, ddof, dtype, out= ndarray/Tensor, where=) x tracking on/off are compared bitwise with NumPy.",
        design_ref="DESIGN.md 3 (C03)",
        note="Only the part of dtype resolution that MyGrad decides is modelled (NumPy's loop selection is a generated table, i.e. trusted input); value/shape parity rests on the differential test (a test, not a theorem). "
             "Known finding: int_tensor ** 2.0 keeps the integer dtype. Trusted: Coq kernel, harness/translate.py (table generation), harness. No axioms.",
        technique="Coq finite-lattice theorem by vm_compute over regenerated NumPy tables + exhaustive differential testing against NumPy",
    ),
    "C04": dict(
        text="Machine-checked proofs (Coq) of the buffer semantics that 'the same statements on NumPy arrays' means for any family of views described by index maps: a write leaves unmapped positions untouched and stores the "
             "LAST value at mapped ones; what any other member reads afterwards; members without a common position never see each other's writes; and the one-operation functional meaning used for gradients equals this "
             "semantics. Tie: 500 (thorough 4000) histories of views of views (basic indexing, reshape, transposes, squeeze/expand_dims, ravel), reads, in-place updates on ANY member (setitem basic/int-array with repeats/"
             "bool with broadcast values, augmented assignment, out= with and without where=), dropped members, Fortran-ordered owners: after EVERY statement values, pairwise shares_memory, .base, object identity and "
             "constant flags are compared with the NumPy mirror (the same statements executed on arrays) and with the functional model evaluated in Coq. Pointer level: Model/Heap.v transcribes Tensor._op / _in_place_op / "
             "DuplicatingGraph / the shape setter as a heap of tensor, operation, weak-collection and array objects; theorems (Proofs/HeapP*.v): the heap invariant holds in every heap reachable by leaf / operation / view / in-place "
             "statements, the in-place machinery never gets stuck on it, shape assignment keeps the recorded graph readable; tie: after EVERY statement of 400 (2500) histories the whole object graph reachable from the held tensors "
             "(creators, variables, _base, _view_children, _ops, arrays with .base and buffer) is compared in Coq with the model's heap.",
        design_ref="DESIGN.md 3 (C04)",
        note="Partial: that the pointer-level result DENOTES the buffer semantics (refinement Heap -> Families) is established by the two correspondences together, not proved. The id-order encoding of acyclicity in the heap invariant "
             "is not preserved by the shape setter (counterexamples in Proofs/HeapShapeP.v), so histories with shape assignments rest on the correspondence. Index maps of view ops are computed by NumPy itself. Known finding: "
             "identity-returning view ops (np.squeeze with nothing to squeeze). No axioms.",
        technique="Coq proofs on buffer/index-map semantics + statement-by-statement differential against NumPy + functional-model correspondence by vm_compute",
    ),
    "C05": dict(
        text="Machine-checked (Coq): an in-place update means ONE operation of the exact registry (keep-mask (.) old contents + scatter of the written values, later writes winning); it is proved to compute the assignment's "
             "buffer semantics and to have an exact VJP, so C01's adjoint theorem applies to the equivalent purely functional program: reads before a mutation differentiate through old values, later ones through new values, "
             "overwritten elements pass nothing to old contents, masked-out elements pass their gradient on, a mutated tensor's gradient is w.r.t. its current value. Tie: family histories + terminal built from reads before and after "
             "mutations + backward(); forward values of all tensors and gradients of all memory owners compared exactly with the model on the functional program (40% of cases with memory guarding off); a sweep over the whole operation "
             "catalogue in which an operand is updated in place AFTER the forward pass (backward must give the gradients of the program without the update). Pointer level (Model/Heap.v): after a successful in-place operation every "
             "recorded operation keeps its class and reads either the same tensor or a NEW tensor carrying the old creator, array and consumer set; the target moves to a fresh buffer (theorems C05_heap_*).",
        design_ref="DESIGN.md 3 (C05)",
        note="Partial: that MyGrad's placeholder graph IS that functional program is established by exact correspondence, not proved. 'No gradient' and 'all-zero gradient' are identified for fully overwritten tensors. "
             "Gradients of view members are C06. No axioms.",
        technique="Coq proof (exact VJP of the update operation + adjoint theorem) + exact-integer correspondence on functionalised in-place programs",
    ),
    "C06": dict(
        text="Machine-checked (Coq) on the buffer model: 'the corresponding view of the base's gradient' is the gradient read through the view's index map; it tracks every later write to the base's gradient "
             "in any arrival order, disjoint members are independent, and a view op's VJP is the scatter-add along the same map (so the base accumulates exactly the contributions of its views). Implementation oracle on /repo: "
             "bases (C- and Fortran-ordered, leaves and intermediates), chains of views incl. views of views, consumers of base and views in random textual order (some through transposes), seeds that are strided non-owning "
             "views of caller arrays: v.grad is available whenever b.grad is, equals b.grad through v's map, shares memory with it; gradients of tensors that do not share memory never do; no gradient aliases data. "
             "Exact gradient values are also compared with Model/GraphP.v.",
        design_ref="DESIGN.md 3 (C06)",
        note="Partial: NumPy's layout rule (when replaying a view on the gradient is itself a view) is not modelled in Coq; sharing and availability are decided by the implementation oracle over the schedule quantifier. "
             "Two defects found and repaired (first-contribution layout, non-owning seed). No axioms.",
        technique="Coq proofs on index-map semantics + implementation oracle over consumer orders + exact-value correspondence",
    ),
    "C07": dict(
        text="Machine-checked proofs (Coq) over the history-level model Model/GraphP.v, for EVERY history of operations / backward / clear_graph / null_grad: after L.backward() L and every tensor "
             "upstream of it (through creators not cleared before) has no creator and no recorded consumers; every tensor whose gradient changed is among them; gradients outside the traversal are "
             "untouched; a view op keeps gradients, a non-view op drops exactly those of its inputs; each pass computes the adjoint on its own (nothing accumulates across passes). Tie: histories run on /repo and on the "
             "model (exact gradients and flags after every backward), reference-counting liveness with gc disabled vs the model's strong-reference closure (creator edges + Tensor._base), a placeholder census and a release sweep over "
             "the operation catalogue, the pointer-level object-graph correspondence (Model/Heap.v) with backward() statements (which tensors hold a gradient after every statement), and a bit-identical 3x repetition oracle on float programs.",
        design_ref="DESIGN.md 3 (C07)",
        note="Partial: 'freed by reference counting alone' is decided by the liveness correspondence (CPython refcounting assumed), not by a theorem about a heap model; placeholders of in-place updates are not in "
             "these histories; bit-identical repetition is an implementation-side test. Trusted: Coq kernel, harness/exactops.py translation, prog_impl.py runner. No axioms.",
        technique="Coq proofs (induction over clear_graph's recursion and over histories) + exact-integer history correspondence + weakref liveness correspondence",
    ),
    "C08": dict(
        text="Lock automaton Model/LockMgr.v: a transcription of lock_management.py (three tables, lock/release, bases-first ordering, waiting views, NumPy's writeable-flag rules, ids as observed) with machine-checked "
             "invariants over all well-formed event sequences (see Props/C08.v). Tie: (1) 1500 (12000 thorough) random event sequences drive the REAL functions with real ndarrays; flags, counters, tracked status, waiting sets and table "
             "sizes are compared with the model after every event inside Coq (id re-use and array death included); (2) property oracle on real tensor histories: every array listed by a live, guarded op with no cleared upstream tensor is "
             "read-only; at quiescence flags are restored, natively read-only arrays stay read-only, tables are empty.",
        design_ref="DESIGN.md 3 (C08)",
        note="The invariants are proved for sequences without id re-use and under the lifecycle rule (an array listed by a live op does not die); the correspondence also exercises sequences outside these hypotheses. The link "
             "'Tensor._op emits exactly these lock events' is checked by the history oracle, not proved. Trusted: Coq kernel, harness. No axioms.",
        technique="Coq invariant proofs over the lock automaton + event-sequence correspondence by vm_compute + history-level property oracle",
    ),
    "C09": dict(
        text="Machine-checked proofs (Coq) over Model/GraphP.v: exact characterisation of when backward raises InvalidBackprop (some processed tensor has a non-constant input with an empty consumer set); when it "
             "returns normally the stored gradients are the adjoint of the graph as the code sees it. The property oracle 'raise, or exactly the gradients of the computation as recorded' is evaluated with the proved model on "
             "every backward call of every generated history; failures are attributed to the known finding only if the decidable predicate stale_refill (a cleared tensor in L's traversal was re-used) holds.",
        design_ref="DESIGN.md 3 (C09)",
        note="The full statement is refuted on the unchanged tree (known findings stale_refill, einsum_backward_single_use); what is proved is detection + exactness w.r.t. the effective graph; the partial theorem "
             "'no stale refill -> raise or exact as recorded' is being added (Proofs/StaleP.v). In-place updates are not in these histories. No axioms.",
        technique="Coq proof (iff characterisation of the staleness check, adjoint theorem) + exact-integer history correspondence + model-evaluated property oracle",
    ),
    "C10": dict(
        text="Machine-checked proofs (Coq): the constant-flag decision rules (integer/bool always constant, constant=False raises, float default, op result rule with override, non-real dtypes rejected when tracking) on the "
             "transcribed decision functions; along EVERY history no constant tensor ever holds a gradient; a constant is a cut for forward tangents (never transmits). Tie: the complete decision lattice (constructors, "
             "operations with all input-flag combinations, reshape/sum/copy/astype, tracking on/off) compared with the model in Coq; exact-integer programs with random flags vs Model/GraphP.v; implementation oracles "
             "(no constant exposes .grad; replacing constant tensors by arrays changes nothing).",
        design_ref="DESIGN.md 3 (C10)",
        note="In-place targets keeping their flag is checked under C04/C05. Known findings: constant copy keeps grad (pinned by a test), clip without bounds ignores constant=. Trusted: Coq kernel, harness. No axioms.",
        technique="Coq proofs (finite case analysis + invariant over histories) + exhaustive lattice correspondence by vm_compute + differential oracle",
    ),
    "C12": dict(
        text="Machine-checked (Coq) on the history model: no statement (operation, backward, clear_graph, null_grad) rewrites the value of an existing tensor; backward -- successful or aborted -- leaves every value untouched. "
             "Implementation oracle on /repo: every caller-owned array (raw array operands, integer/boolean index arrays, seed gradients incl. the arrays they are views of) is bit-identical after every statement; backward changes "
             "no tensor's data; after backward two gradients share memory only if their tensors do and no gradient shares memory with any data; over family histories with in-place updates, DAG programs, explicit owning / non-owning "
             "seeds, and the nnet layers/losses (seed and inputs untouched).",
        design_ref="DESIGN.md 3 (C12)",
        note="Partial by nature: aliasing and mutation of caller memory are memory-level facts, decided by checksums and np.shares_memory on the implementation; the Coq model is value-level. One defect found and repaired (GRU backward "
             "mutated the seed). No axioms.",
        technique="Coq proofs (value immutability on the history model) + checksum / shares_memory oracle on the implementation",
    ),
    "C13": dict(
        text="Machine-checked (Coq): in the history model a statement that raises returns the state unchanged, hence a history reaches exactly the state of the same history without its failing statements "
             "(C13_same_final_state_without_failing_statements, by induction over histories); the lock automaton restores every flag once the failed operation's locks are released. Fault enumeration on /repo: "
             "19 kinds of failing statements (non-view ops, view ops, in-place updates incl. shape assignment, backward with a bad seed, refused matrix norms, composite functions) inserted at random positions of family histories, some after a mid-history backward: (a) the statement raises, "
             "(b) every live tensor is bit-for-bit as before (value, shape, flag, base, sharing, writeable flag, gradient, creator/consumer state), (c) final values and gradients equal those of the program without the "
             "failing statements (run separately), (d) the functional model agrees, (e) pointer level: Model/Heap.v transcribes _in_place_op with its failure paths; theorems: a failing in-place statement (kernel failure, stale-view KeyError) "
             "returns tensor, operation, weak-collection and array tables EXACTLY as they were, in every heap reachable by leaf / operation / view / in-place statements; tie: the object graph after every statement of 400 (2500) histories "
             "with 50% failing in-place statements, backward(), clear_graph() and shape assignments equals the model's heap.",
        design_ref="DESIGN.md 3 (C13)",
        note="The model's failure points are 'validation fails before anything is touched'; that the real rollback (restore_old_graph after placeholders replaced the public tensors) achieves this is what the fault "
             "enumeration checks. Faults inside NumPy kernels are not injected. No axioms.",
        technique="Coq proof (failed step = identity, induction over histories) + fault enumeration with before/after and with/without differential",
    ),
    "C14": dict(
        text="Machine-checked proofs (Coq): on the history model, for every state satisfying the invariant (hence every reachable state), L.backward() and L.sum().backward() have the same outcome and leave the same gradient "
             "in every earlier tensor, likewise L.backward(g) and (L*g).sum().backward(); a seed is accepted exactly when its shape broadcasts INTO L's shape; reduce_broadcast restores exactly the variable's shape "
             "(so the generic path stores gradients of the tensor's shape, 0-d included). Tie: both shape lattices complete for rank<=3/extents<=3 against the model in Coq (incl. 'no gradient written on rejection'), "
             "exact-integer programs in four seedings on /repo and against Model/GraphP.v, and the type/shape/dtype invariant of every stored gradient on all programs and on 12 nnet layers/losses in f16/f32/f64.",
        design_ref="DESIGN.md 3 (C14)",
        note="dtype and ndarray-ness of gradients are checked on the implementation only (the engine model is dtype-free). Known finding: GRU stores a (T,N,D) gradient on a (T+1,N,D) tensor (pinned by a test). No axioms.",
        technique="Coq proofs (sweep simulation for the seeding identities, list induction for shape rules) + exhaustive shape-lattice correspondence + differential oracle",
    ),
    "C15": dict(
        text="Machine-checked proof (Coq) that in the model of ContextTracker and the three manager objects every with-block / decorated call, "
             "for ANY body (arbitrary nesting, re-entrant use, exceptions at any depth, turn_* calls), exits without error and restores the governed "
             "flag and every manager's bookkeeping; plus the op gate (nothing recorded, nothing locked when tracking is off). The model is tied to "
             "/repo by running every scope program of <=5 nodes (<=6 thorough) and random deep ones on the real managers and comparing ghost traces inside Coq; "
             "the property oracle (restoration at each block exit; real ops probed at observation points) runs on the implementation alone.",
        design_ref="DESIGN.md 3 (C15)",
        note="Trusted: Coq kernel; hand-written model Model/Scopes.v (tied by trace correspondence, not by translation); harness/c15.py, harness/impl/c15_impl.py. "
             "No axioms (Print Assumptions: closed under the global context). Single-threaded use of the process-wide switches assumed.",
        technique="Coq proof by induction on scope programs + exhaustive/random trace correspondence evaluated by vm_compute",
    ),
    "C16": dict(
        text="Machine-checked proof (Coq) about the transcribed arithmetic of sliding_window_view for ANY rank, shape, window, step and dilation: for an accepted "
             "configuration every output index (g..,n..,w..) addresses exactly the row-major position of arr[n.., g*step+w*dilation], which is a valid index and lies inside "
             "arr's buffer; acceptance is exactly the documented rule; conv_nd/max_pool acceptance is characterised (conv: tiles AND window*dilation fits -- the full 'iff tiles' "
             "statement is refuted with a witness, reported as a known finding). Tie: exhaustive 1-d lattices and random n-d configurations (odd layouts, malformed arguments) run on the "
             "implementation and compared with the model in Coq; values of window/conv/pool are compared with naive nested loops on exact integers.",
        design_ref="DESIGN.md 3 (C16)",
        note="Partial: the theorems cover acceptance, shapes, strides, the element map and memory bounds of the window view and the acceptance/output-extent rules of conv/pool. "
             "That conv_nd/max_pool VALUES equal the naive formula is tested (exactly, on integers; both are also in the exact registry used by C02), not proved; batchnorm, gru (any s0), softmax/logsoftmax (all axes) and the losses (all options) are compared with their documented formulas evaluated naively in Python floats (1e-10) over option sweeps -- a test, not a theorem. "
             "Trusted: Coq kernel, hand-written Model/Window.v (tied by correspondence), as_strided/ascontiguousarray semantics, harness. No axioms.",
        technique="Coq proof (lia/nia + list induction) + exhaustive/random configuration correspondence evaluated by vm_compute",
    ),
    "C17": dict(
        text="Machine-checked proofs (Coq) of every sentence of the property on the decision model Model/Construct.v of tensor()/Tensor()/astensor()/copy()/astype(): default copies, copy=False and astensor reuse memory "
             "whenever no dtype change is needed and never otherwise, astensor(t) is t when dtype and flag match and a new tensor on the same memory when only the flag differs, copy()/astype() results are detached. Tie: the COMPLETE "
             "lattice (5 functions x source kind x source dtype x dtype argument x constant x copy x ndmin x graph state, ~800 cells) is run on /repo and compared with the model inside Coq; oracles for values, dtype, "
             "isolation of copies and graph/gradient intact on pass-through; mg.asarray and all 14 creation routines are compared with their NumPy namesakes; non-real dtypes rejected while tracking.",
        design_ref="DESIGN.md 3 (C17)",
        note="The creation routines and asarray are covered by differential testing against NumPy (a test), the construction lattice by the theorems + exhaustive correspondence. No axioms.",
        technique="Coq proofs by case analysis on the decision model + exhaustive lattice correspondence by vm_compute + differential testing",
    ),
    "C11": dict(
        text="Machine-checked (Coq, finite tables decided by evaluation and lifted with forallb_forall) over Gen/Routes.v, which a fail-closed ast translator regenerates from /repo on every run "
             "(operator dunders, Tensor methods, @ufunc_creator functions, _op call sites, plus the imported dispatch tables): x+y / reflected / augmented / mygrad.add / numpy.add reach ONE Operation class "
             "with the written operand order and mode (only other route: the declared **1 / **2 shortcuts); methods route like their function namesakes; the rounding/modulo ufuncs raise on non-constant "
             "operands and never return an array for them; comparison ufuncs and no-diff functions return arrays; dispatch tables are disjoint. Tie / differential on /repo: EVERY registered ufunc (37) and "
             "NumPy-function override (37) is called through every spelling (function, NumPy function on tensors, method, property, operator, explicit and reflected dunder, augmented, out=, where=, dtype=, "
             "in-place on leaf/intermediate) on the same operands (tensor const/non-const/float32/int, ndarray, list, Python/NumPy scalars, broadcasting, 0-d, F/strided): value bits, dtype, shape, constant "
             "flag, out-target and every operand's gradient must be identical.",
        design_ref="DESIGN.md 3 (C11)",
        note="The theorems are about routing (which class / operand order / dispatch branch); that equal routes give equal results on the implementation is established by the exhaustive spelling differential, "
             "not by proof (level: partial). Operand templates per NumPy function are hand-written; ufunc methods (reduce/accumulate/at) are not compared. No axioms.",
        technique="Coq proofs over route tables translated from source on every run + exhaustive spelling differential on the implementation",
    ),
    "C18": dict(
        text="Machine-checked (Coq) over Model/IO.v (load = tensor(data) followed by backward(grad) on the fresh leaf, on the history model): data always round-trips; a float tensor's gradient round-trips; no gradient in, none out; "
             "integer/boolean tensors (constants) never get one. Tie: the complete product 7 dtypes x {0-d, empty, 1-d, 3-d} x {leaf, view with a view-gradient, intermediate with a live graph, constant copy carrying a gradient} x "
             "gradient presence x constant flag x {str path, Path, BytesIO, file handle} is run on /repo: loaded data/dtype/shape/gradient equal the saved ones and saving alters nothing (data, gradient, creator, consumers, flags).",
        design_ref="DESIGN.md 3 (C18)",
        note="numpy.savez/numpy.load are an oracle (assumed to round-trip real arrays; exercised by the check). dtype is checked on the implementation only. Graph tracking is assumed on at load time. No axioms.",
        technique="Coq proofs on the IO model + exhaustive configuration testing on the implementation",
    ),
}

NOT_YET = "not claimed: no check built for this property"


def main():
    checks = []
    for pid in ALL:
        if pid not in CHECKS:
            continue
        c = CHECKS[pid]
        checks.append({
            "property_id": pid,
            "quick_cmd": "./check %s --tier quick" % pid,
            "thorough_cmd": "./check %s --tier thorough" % pid,
            "evidence_file": "/verif/evidence/%s.json" % pid,
            "replay_cmd_template": "./check %s --replay {path}" % pid,
            "engine": "coq-model+correspondence",
            "level_claimed": {"category": "proof", "text": c["text"], "design_ref": c["design_ref"]},
            "level_note": c["note"],
            "technique": c["technique"],
        })
    man = {
        "version": 1,
        "setup_cmd": "./check --setup",
        "hooks": {
            "guard": "RSOKL_MYGRAD_VERIF",
            "enable": "no source hooks: the harness reads private state by attribute access inside its own /venv/bin/python subprocess "
                      "(PYTHONPATH=/repo/src, RSOKL_MYGRAD_VERIF=1 is exported there but nothing in /repo reads it)",
            "baseline_off_cmd": "cd /repo && /venv/bin/python -m pytest -ra -q -p no:cacheprovider --timeout=900 --continue-on-collection-errors -n 16 tests",
            "source_commits": SOURCE_COMMITS,
            "add_only": True,
        },
        "engines": [{
            "name": "coq-model+correspondence",
            "path": "/verif/check",
            "serves_properties": [c["property_id"] for c in checks],
            "kind_free_text": "Coq 8.16 development under /verif/coq (Model/ definitions, Proofs/ lemmas, Props/Cxx.v theorems with Print Assumptions); "
                              "Python harness generates cases, runs them on /repo's working tree and evaluates the Gallina model on the same cases with vm_compute",
        }],
        "checks": checks,
        "notes": "KNOWN_FINDINGS.json lists genuine defects (known / fixed). Replays are written under /verif/replays/<id>/.",
        "not_applicable": [{"property_id": p, "reason": NOT_YET} for p in ALL if p not in CHECKS],
    }
    path = os.path.join(HERE, "MANIFEST.json")
    json.dump(man, open(path, "w"), indent=1)
    try:
        import jsonschema

        jsonschema.validate(man, json.load(open("/root/.vp/MANIFEST.schema.json")))
        print("MANIFEST.json valid;", len(checks), "checks")
    except ImportError:
        print("MANIFEST.json written (jsonschema not available to validate)")


# fix: commits in /repo (filled in as they are made)
SOURCE_COMMITS = ["1caf915", "cac9d7b", "4b729bd", "9cd2617", "683fb85", "e7ddae4", "48f0694", "9e68f28", "6f83c95", "8bae1ec", "c21f59a", "aefebdb", "f8501c3", "6c3921a", "3ad4ac4", "12dda7b", "648be3c", "eaa676f", "fd1be8a", "e155805", "2f5c11e", "3ee76de", "f51941c", "7de6c51", "11ee1a3", "9f3055f", "fd6cb1e", "aa7ba33", "d24daa2", "6ae39b2", "827b35e", "e7495fa", "bd629d4", "0da6ad6", "baed95a"]

if __name__ == "__main__":
    main()
