From Coq Require Import List Arith Bool PeanoNat.
Import ListNotations.
From MG Require Import Model.Heap.
Require Import HeapP1 HeapWfb HeapP8 TestDefs.

Definition wfxb (X : list id) (h : heap) : bool :=
  nodupb (keys (h_t h)) && nodupb (keys (h_o h)) && nodupb (keys (h_set h)) && nodupb (keys (h_lst h)) && nodupb (keys (h_arr h)) &&
  ltall (h_next h) (keys (h_t h)) && ltall (h_next h) (keys (h_o h)) && ltall (h_next h) (keys (h_set h)) &&
  ltall (h_next h) (keys (h_lst h)) && ltall (h_next h) (keys (h_arr h)) &&
  forallb (fun p => tens_ok h (fst p) (snd p)) (h_t h) &&
  forallb (fun p => oper_ok h (snd p)) (h_o h) &&
  nodupb (flat_map (fun p => lst_of h (t_children (snd p))) (h_t h)) &&
  nodupb (map (fun p => t_children (snd p)) (h_t h)) &&
  nodupb (map (fun p => t_ops (snd p)) (filter (fun p => negb (mem (fst p) X)) (h_t h))).

(* husks in Y are listed only by tensors in X *)
Definition unlistedb (Y X : list id) (h : heap) : bool :=
  forallb (fun p => mem (fst p) X || forallb (fun c => negb (mem c Y)) (lst_of h (t_children (snd p)))) (h_t h).

Definition rm (x : id) (l : list id) := filter (fun y => negb (Nat.eqb y x)) l.

(* the success path with checkpoints: returns the list of failed checkpoint numbers *)
Definition chk (b : bool) (i : nat) : list nat := if b then [] else [i].

Fixpoint rebuild_dbg (ns : list node) (X : list id) (hh : heap) (i : nat) : list nat :=
  match ns with
  | [] => chk (wfb hh) 99
  | n :: r =>
    match rebuild_step (Some hh) n with
    | None => [1000 + i]
    | Some hh' =>
      let X' := match n_parent n with None => X | Some _ => rm (n_t n) X end in
      chk (wfxb X' hh' && unlistedb X' X' hh') (100 + i) ++ rebuild_dbg r X' hh' (S i)
    end
  end.

Definition success_dbg (h6 : heap) (g : list node) (m : id) (k : nat) (inputs : list id) (masked : bool)
           (am at_ root : id) (path : list node) : list nat :=
  let X := map n_t g in
  let Y := rm root X in
  chk (wfxb X h6 && unlistedb Y X h6) 1 ++
  let ins := map (ph_if_exists g) inputs in
  match apply_op h6 k ins [] at_ with None => [1001] | Some (h7, pmv) =>
  chk (wfxb X h7 && unlistedb Y X h7) 2 ++
  match gfind g m with None => [1002] | Some nm =>
  match (if masked then apply_op h7 K_APPLYMASK [pmv; n_p nm] [] at_ else Some (h7, pmv)) with None => [1003] | Some (h8, pmv2) =>
  chk (wfxb X h8 && unlistedb Y X h8) 3 ++
  match getT h8 m with None => [1004] | Some tmc =>
  match (match t_base tmc with
         | None => Some (h8, pmv2)
         | Some _ => match g with [] => None | nb :: _ => apply_op h8 K_UNVIEW [n_p nb; pmv2] (map n_p (tl (rev path))) am end
         end) with None => [1005] | Some (h9, mutant) =>
  chk (wfxb X h9 && unlistedb Y X h9) 4 ++
  match mirror h9 root mutant with None => [1006] | Some h10 =>
  let h11 := delT h10 mutant in
  chk (wfxb Y h11 && unlistedb Y Y h11) 5 ++
  match nodes h11 g with None => [1007] | Some ns => rebuild_dbg ns Y h11 0 end
  end end end end end end.

Definition inplace_dbg (h : heap) (m : id) (k : nat) (inputs : list id) (masked : bool) : list nat :=
  match getT h m with None => [2001] | Some tm0 =>
  match null_grad h m true with None => [2002] | Some h1 =>
  match getT h1 m with None => [2003] | Some tm1 =>
  match pre_h2 h1 m tm1 with None => [2004] | Some h2 =>
  match getT h2 m with None => [2005] | Some tm2 =>
  match pre_hb h2 tm2 with None => [2006] | Some (h3, pb) =>
  let root := match t_base tm2 with Some b => b | None => m end in
  match dup h3 root with None => [2007] | Some (h4, g) =>
  match path_to_base g m with None => [] | Some path =>
    let (h5, am) := new_array h4 None None in
    match (if Nat.eqb m root then Some (h5, am) else view_array h5 am) with None => [2008] | Some (h6, at_) =>
    success_dbg h6 g m k inputs masked am at_ root path end end end end end end end end end.

Fixpoint runchk2 (h : heap) (ss : list gstmt) (i : nat) : list (nat * list nat) :=
  match ss with
  | [] => []
  | g :: r =>
    let s := resolve h g in
    let d := match s with SInplace m k ins ma false => inplace_dbg h m k ins ma | _ => [] end in
    (match d with [] => [] | _ => [(i, d)] end) ++
    match step h s with
    | None => [(i, [3000])]
    | Some o => runchk2 (heap_of o) r (S i)
    end
  end.

Definition check_all2 (hs : list (list gstmt)) :=
  filter (fun x => match snd x with [] => false | _ => true end) (combine (seq 0 (length hs)) (map (fun ss => runchk2 empty_heap ss 0) hs)).
