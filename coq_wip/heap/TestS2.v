From Coq Require Import List Arith Bool PeanoNat.
Import ListNotations.
From MG Require Import Model.Heap Model.HeapShape.
Require Import HeapP1 HeapWfb TestDefs TestS.

Definition child_ok2 (h : heap) (t c : id) : bool :=
  match getT h c with
  | Some rc => negb (isSome (t_base rc)) || negb (t_grad rc) && match t_creator rc with Some o => isSome (getO h o) | None => false end
  | None => false end.
Definition tens_ok2 (h : heap) (t : id) (r : tens) : bool :=
  Nat.ltb (t_children r) (h_next h) && Nat.ltb (t_ops r) (h_next h) &&
  match t_base r with Some b => isSome (getT h b) | None => true end &&
  forallb (child_ok2 h t) (lst_of h (t_children r)).
Definition wfb2 (h : heap) : bool :=
  nodupb (keys (h_t h)) && nodupb (keys (h_o h)) && nodupb (keys (h_set h)) && nodupb (keys (h_lst h)) && nodupb (keys (h_arr h)) &&
  ltall (h_next h) (keys (h_t h)) && ltall (h_next h) (keys (h_o h)) && ltall (h_next h) (keys (h_set h)) &&
  ltall (h_next h) (keys (h_lst h)) && ltall (h_next h) (keys (h_arr h)) &&
  forallb (fun p => tens_ok2 h (fst p) (snd p)) (h_t h) &&
  forallb (fun p => oper_ok h (snd p)) (h_o h) &&
  nodupb (flat_map (fun p => lst_of h (t_children (snd p))) (h_t h)) &&
  nodupb (map (fun p => t_children (snd p)) (h_t h)) &&
  nodupb (map (fun p => t_ops (snd p)) (h_t h)).

Fixpoint runchk4 (h : heap) (ss : list gs2) (i : nat) : nat * nat * option (stmt + id) :=
  match ss with
  | [] => (0, i, None)
  | G1 g :: r =>
    let s := resolve h g in
    match step h s with
    | None => (1, i, Some (inl s))
    | Some o => let h' := heap_of o in if negb (wfb2 h') then (2, i, Some (inl s)) else runchk4 h' r (S i)
    end
  | GShape m :: r =>
    let t := pick h m in
    match set_shape h t false with
    | None => (5, i, Some (inr t))
    | Some o => let h' := heap_of o in if negb (wfb2 h') then (6, i, Some (inr t)) else runchk4 h' r (S i)
    end
  end.
Definition check_all4 (hs : list (list gs2)) :=
  filter (fun x => negb (Nat.eqb (fst (fst (snd x))) 0)) (combine (seq 0 (length hs)) (map (fun ss => runchk4 empty_heap ss 0) hs)).
