(* HeapP21: T6 (the in-place statement is never stuck) and T5 (wf is preserved by every clear-free statement). *)
From Coq Require Import List Arith Bool PeanoNat Lia.
Import ListNotations.
From MG Require Import Model.Heap.
Require Import HeapP1 HeapWfb HeapP2 HeapP3 HeapP4 HeapP5 HeapP6 HeapP7 HeapP8 HeapP9 HeapP10 HeapP11 HeapP12 HeapP13 HeapP14
               HeapP15 HeapP16 HeapP17 HeapP18 HeapP19 HeapP20.

Lemma wf_same_tables h h' : wf h -> same_tables h h' -> h_next h <= h_next h' -> wf h'.
Proof. intros W (S1 & S2 & S3 & S4 & S5) L. apply wfx_nil. apply wfx_nil in W.
  destruct h' as [a b c d e n]. simpl in *. subst. apply (wfx_bump [] h n W L). Qed.

Lemma success_from_dup h m tm0 h3 r2 pb h4 g path h5 am h6 at_ k inputs masked :
  wf h -> getT h m = Some tm0 -> Preamble h m tm0 h3 r2 pb ->
  dup h3 (match t_base r2 with Some b => b | None => m end) = Some (h4, g) ->
  path_to_base g m = Some path -> new_array h4 None None = (h5, am) ->
  (if Nat.eqb m (match t_base r2 with Some b => b | None => m end) then Some (h5, am) else view_array h5 am) = Some (h6, at_) ->
  (forall i, In i inputs -> getT h i <> None) ->
  exists h12, inplace_success h6 g m k inputs masked am at_ (match t_base r2 with Some b => b | None => m end) path = Some (Done h12) /\ wf h12.
Proof. intros W Hm P D EP NA E6 Hin.
  set (root := match t_base r2 with Some b => b | None => m end) in *.
  pose proof (pr_wf _ _ _ _ _ _ P) as W3.
  destruct (dup_spec h3 root h4 g W3 D) as (tb & L & DS).
  pose proof (FZ_h4 h3 root h4 g tb L W3 DS) as F4.
  pose proof (FZ_new_array root h4 g h4 None None h5 am F4 NA) as F5.
  pose proof (new_array_spec _ _ _ _ _ NA) as (N1 & N2 & N3 & N4 & N5 & N6 & N7 & N8).
  assert (F6 : FZ root h4 g h6 /\ getA h6 at_ <> None /\ getA h6 am <> None).
  { destruct (Nat.eqb m root).
    - inversion E6; subst. Show. Abort.
