(* HeapP4: reroute, gfind / ph_if_exists, the duplication invariant and its two elementary steps
   (make a placeholder for one more tensor; give a placeholder its list of children). *)
From Coq Require Import List Arith Bool PeanoNat Lia.
Import ListNotations.
From MG Require Import Model.Heap.
Require Import HeapP1 HeapWfb HeapP2 HeapP3.

(* ------------------------------------------------------------------ reroute *)

Lemma repl_idem a b l : repl a b (repl a b l) = repl a b l.
Proof. unfold repl. rewrite map_map. apply map_ext. intros v.
  destruct (Nat.eqb v a) eqn:E; auto.
  - destruct (Nat.eqb b a); auto.
  - now rewrite E. Qed.

Definition rr_fun (src tgt : id) (S : list id) (o : id) (r : oper) : oper :=
  if mem o S then mkO (o_kind r) (repl src tgt (o_vars r)) (o_keep r) else r.

Definition rr_step (src tgt : id) (h : heap) (o : id) : heap :=
  match getO h o with
  | Some r => setO h o (mkO (o_kind r) (repl src tgt (o_vars r)) (o_keep r))
  | None => h end.

Lemma rr_step_spec src tgt h o1 :
  let h1 := rr_step src tgt h o1 in
  h_t h1 = h_t h /\ h_set h1 = h_set h /\ h_lst h1 = h_lst h /\ h_arr h1 = h_arr h /\ h_next h1 = h_next h /\
  keys (h_o h1) = keys (h_o h) /\
  forall o, getO h1 o = option_map (rr_fun src tgt [o1] o) (getO h o).
Proof. unfold rr_step. destruct (getO h o1) as [r1|] eqn:E1; simpl.
  - repeat split; auto.
    + unfold getO in E1. apply keys_put_in. eapply get_keys; eauto.
    + intros o. unfold getO in *; simpl. rewrite get_put. unfold rr_fun; simpl.
      destruct (Nat.eqb o1 o) eqn:E.
      * apply Nat.eqb_eq in E; subst o. rewrite E1. simpl. rewrite Nat.eqb_refl. reflexivity.
      * rewrite Nat.eqb_sym, E. simpl. now destruct (get (h_o h) o).
  - repeat split; auto. intros o. unfold rr_fun; simpl.
    destruct (Nat.eqb o o1) eqn:E; simpl.
    + apply Nat.eqb_eq in E; subst o. now rewrite E1.
    + now destruct (getO h o). Qed.

Lemma rr_fun_cons src tgt o1 S o r : rr_fun src tgt S o (rr_fun src tgt [o1] o r) = rr_fun src tgt (o1 :: S) o r.
Proof. unfold rr_fun; simpl. destruct (Nat.eqb o o1) eqn:E; simpl.
  - destruct (mem o S); simpl; auto. now rewrite repl_idem.
  - reflexivity. Qed.

Lemma rr_fold src tgt S : forall h,
  let h' := fold_left (rr_step src tgt) S h in
  h_t h' = h_t h /\ h_set h' = h_set h /\ h_lst h' = h_lst h /\ h_arr h' = h_arr h /\ h_next h' = h_next h /\
  keys (h_o h') = keys (h_o h) /\
  forall o, getO h' o = option_map (rr_fun src tgt S o) (getO h o).
Proof. induction S as [|o1 S IH]; intros h; simpl.
  - repeat split; auto. intros o. unfold rr_fun; simpl. now destruct (getO h o).
  - specialize (IH (rr_step src tgt h o1)). simpl in IH.
    destruct IH as (I1 & I2 & I3 & I4 & I5 & I6 & I7).
    destruct (rr_step_spec src tgt h o1) as (J1 & J2 & J3 & J4 & J5 & J6 & J7).
    repeat split; try congruence.
    intros o. rewrite I7, J7. destruct (getO h o); simpl; auto. now rewrite rr_fun_cons. Qed.

Lemma reroute_spec h src tgt h' : reroute h src tgt = Some h' ->
  exists ts, getT h src = Some ts /\
  h_t h' = h_t h /\ h_set h' = h_set h /\ h_lst h' = h_lst h /\ h_arr h' = h_arr h /\ h_next h' = h_next h /\
  keys (h_o h') = keys (h_o h) /\
  forall o, getO h' o = option_map (rr_fun src tgt (set_of h (t_ops ts)) o) (getO h o).
Proof. unfold reroute. intros H. apply bind_Some in H. destruct H as (ts & E & H). inversion H; subst h'. clear H.
  change (fun (h1 : heap) (o : id) => match getO h1 o with Some r => setO h1 o (mkO (o_kind r) (repl src tgt (o_vars r)) (o_keep r)) | None => h1 end) with (rr_step src tgt).
  exists ts; split; auto. apply (rr_fold src tgt (set_of h (t_ops ts)) h). Qed.

Lemma reroute_some h src tgt ts : getT h src = Some ts -> exists h', reroute h src tgt = Some h'.
Proof. unfold reroute. intros ->. simpl. eauto. Qed.

(* ------------------------------------------------------------------ gfind *)

Lemma find_app {A} (f : A -> bool) l1 l2 :
  find f (l1 ++ l2) = match find f l1 with Some x => Some x | None => find f l2 end.
Proof. induction l1; simpl; auto. destruct (f a); auto. Qed.

Lemma gfind_app g1 g2 x : gfind (g1 ++ g2) x = match gfind g1 x with Some n => Some n | None => gfind g2 x end.
Proof. apply find_app. Qed.

Lemma gfind_In g x n : gfind g x = Some n -> In n g /\ (x = n_t n \/ x = n_p n).
Proof. unfold gfind. intros H. apply find_some in H. destruct H as [H1 H2]. split; auto.
  apply orb_true_iff in H2. destruct H2 as [H2|H2]; apply Nat.eqb_eq in H2; auto. Qed.

Lemma gfind_None g x : gfind g x = None -> ~ In x (map n_t g) /\ ~ In x (map n_p g).
Proof. unfold gfind. intros H. split; intros Hin; apply in_map_iff in Hin; destruct Hin as (n & E & Hn);
  apply (find_none _ _ H) in Hn; apply orb_false_iff in Hn; destruct Hn as [H1 H2];
  subst x; rewrite Nat.eqb_refl in *; discriminate. Qed.

Lemma NoDup_map_inj {A B} (f : A -> B) l a b : NoDup (map f l) -> In a l -> In b l -> f a = f b -> a = b.
Proof. induction l; simpl; [tauto|]. intros ND; inversion ND; subst. intros [<-|Ha] [<-|Hb] E; auto.
  - exfalso; apply H1. rewrite E. now apply in_map.
  - exfalso; apply H1. rewrite <- E. now apply in_map. Qed.

(* looking up an original: the tensor ids are pairwise distinct and no original is a placeholder *)
Lemma gfind_t g n : NoDup (map n_t g) -> (forall n', In n' g -> n_p n' <> n_t n) -> In n g -> gfind g (n_t n) = Some n.
Proof. intros ND HP Hin. destruct (gfind g (n_t n)) as [n'|] eqn:E.
  - apply gfind_In in E. destruct E as [H1 [H2|H2]].
    + f_equal. symmetry. eapply NoDup_map_inj; eauto.
    + exfalso. eapply HP; eauto.
  - apply gfind_None in E. exfalso. apply (proj1 E). now apply in_map. Qed.

(* ------------------------------------------------------------------ the duplication invariant *)

Definition tp (n : node) : id * option id := (n_t n, n_parent n).

Definition ops_of (h : heap) (v : id) : list id :=
  match getT h v with Some r => set_of h (t_ops r) | None => [] end.

(* what the variables of operation o have become: an original whose set lists o is replaced by its placeholder *)
Definition sigma (h0 : heap) (g : list node) (o : id) (v : id) : id :=
  if mem o (ops_of h0 v) then ph_if_exists g v else v.

(* the _base of the placeholder of a node *)
Definition bb (bph : id) (rb : option id) (n : node) : option id :=
  match n_parent n with None => rb | Some _ => Some bph end.

Definition ph_rec (h0 : heap) (bph : id) (rb : option id) (h : heap) (g : list node) (L : list id) (n : node) : Prop :=
  exists r0 rp, getT h0 (n_t n) = Some r0 /\ getT h (n_p n) = Some rp /\ t_grad r0 = false /\
    (rp = with_base r0 (bb bph rb n) \/
     exists l, In l L /\ rp = with_children (with_base r0 (bb bph rb n)) l /\
               get (h_lst h) l = Some (map (ph_if_exists g) (fkids h0 (n_t n))) /\
               forall x, In x (fkids h0 (n_t n)) -> In x (map n_t g)).

Record Inv (h0 : heap) (bph : id) (rb : option id) (h : heap) (g : list node) (L : list id) : Prop := mkInv {
  i_set : h_set h = h_set h0;
  i_arr : h_arr h = h_arr h0;
  i_next : h_next h0 <= h_next h;
  i_tkeys : keys (h_t h) = keys (h_t h0) ++ map n_p g;
  i_tget : forall t, t < h_next h0 -> getT h t = getT h0 t;
  i_p : forall n, In n g -> h_next h0 <= n_p n < h_next h;
  i_pnd : NoDup (map n_p g);
  i_tnd : NoDup (map n_t g);
  i_tlt : forall n, In n g -> n_t n < h_next h0;
  i_lkeys : keys (h_lst h) = keys (h_lst h0) ++ L;
  i_lget : forall l, l < h_next h0 -> get (h_lst h) l = get (h_lst h0) l;
  i_L : forall l, In l L -> h_next h0 <= l < h_next h /\
                  exists n rp, In n g /\ getT h (n_p n) = Some rp /\ t_children rp = l;
  i_Lnd : NoDup L;
  i_okeys : keys (h_o h) = keys (h_o h0);
  i_oget : forall o, getO h o = option_map (fun r0 => mkO (o_kind r0) (map (sigma h0 g o) (o_vars r0)) (o_keep r0)) (getO h0 o);
  i_ph : forall n, In n g -> ph_rec h0 bph rb h g L n;
  (* the placeholder of a parent is older than the placeholders of its children *)
  i_pord : forall n q, In n g -> n_parent n = Some q -> exists nq, In nq g /\ n_t nq = q /\ n_p nq < n_p n;
  (* the graph lists the nodes in the order of creation of their placeholders *)
  i_psort : forall g1 n g2, g = g1 ++ n :: g2 -> forall n', In n' g2 -> n_p n < n_p n';
  (* different placeholders own different fresh lists *)
  i_ldist : forall n n' rp rp', In n g -> In n' g -> getT h (n_p n) = Some rp -> getT h (n_p n') = Some rp' ->
            h_next h0 <= t_children rp -> t_children rp = t_children rp' -> n = n'
}.

Definition finished (h0 h : heap) (n : node) : Prop :=
  exists rp, getT h (n_p n) = Some rp /\ h_next h0 <= t_children rp.

Lemma Inv_init h0 bph rb : Inv h0 bph rb h0 [] [].
Proof. constructor; simpl; auto; try tauto; try constructor; try (intros; tauto).
  - now rewrite app_nil_r.
  - now rewrite app_nil_r.
  - Show. Abort.
