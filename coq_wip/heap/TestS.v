From Coq Require Import List Arith Bool PeanoNat.
Import ListNotations.
From MG Require Import Model.Heap Model.HeapShape.
Require Import HeapP1 HeapWfb TestDefs.

Inductive gs2 := G1 (g : gstmt) | GShape (m : nat).

(* codes: 1 stuck, 2 wfb false, 5 shape stuck, 6 wfb false after shape *)
Fixpoint runchk3 (h : heap) (ss : list gs2) (i : nat) : nat * nat * option (stmt + id) :=
  match ss with
  | [] => (0, i, None)
  | G1 g :: r =>
    let s := resolve h g in
    match step h s with
    | None => (1, i, Some (inl s))
    | Some o => let h' := heap_of o in if negb (wfb h') then (2, i, Some (inl s)) else runchk3 h' r (S i)
    end
  | GShape m :: r =>
    let t := pick h m in
    match set_shape h t false with
    | None => (5, i, Some (inr t))
    | Some o => let h' := heap_of o in if negb (wfb h') then (6, i, Some (inr t)) else runchk3 h' r (S i)
    end
  end.
Definition check_all3 (hs : list (list gs2)) :=
  filter (fun x => negb (Nat.eqb (fst (fst (snd x))) 0)) (combine (seq 0 (length hs)) (map (fun ss => runchk3 empty_heap ss 0) hs)).
