(* HeapEx: non-vacuity examples and counterexamples, all by computation. *)
From Coq Require Import List Arith Bool PeanoNat.
Import ListNotations.
From MG Require Import Model.Heap.
Require Import HeapP1 HeapWfb HeapP2.

Definition run0 (ss : list stmt) : heap := match run empty_heap ss with Some h => h | None => empty_heap end.

(* leaf 2; view 7 = view(2); view 12 = view(7) (a view of a view); consumers 18 = f(7), 24 = f(12, 2) *)
Definition ex_h : heap := run0 [SLeaf; SView 5 2; SView 6 7; SOp 9 [7]; SOp 9 [12; 2]].

Example ex_h_tensors : keys (h_t ex_h) = [2; 7; 12; 18; 24]. Proof. vm_compute. reflexivity. Qed.
Example ex_h_wfb : wfb ex_h = true. Proof. vm_compute. reflexivity. Qed.
Example ex_h_wf : wf ex_h. Proof. apply wfb_wf. vm_compute. reflexivity. Qed.

(* masked in-place update through the inner view 12, kernel fails: no trace (conclusion of T3, checked by computation) *)
Example ex_fail : exists h', inplace ex_h 12 7 [2] true true = Some (Raised h') /\ same_tables ex_h h'.
Proof. eexists. split; [vm_compute; reflexivity|]. vm_compute. repeat split; reflexivity. Qed.

(* T2 as literally stated ("for every operation o of h") is false for an operation that a tensor's set no longer lists:
   x = f(t); y = g(t); y.clear_graph() empties t._ops, but the creator of x (operation 7) still mentions t = 2.
   DuplicatingGraph(t) then leaves operation 7 reading t itself, not the placeholder. *)
Definition cx_h : heap := run0 [SLeaf; SOp 3 [2]; SOp 4 [2]; SClear 14].
Example cx_wfb : wfb cx_h = true. Proof. vm_compute. reflexivity. Qed.
Example cx_T2 : exists h1 g r, dup cx_h 2 = Some (h1, g) /\ getO cx_h 7 = Some r /\ o_vars r = [2] /\
  (exists r1, getO h1 7 = Some r1 /\ o_vars r1 = [2]) /\ map (ph_if_exists g) (o_vars r) = [h_next cx_h].
Proof. do 3 eexists. split; [vm_compute; reflexivity|]. split; [vm_compute; reflexivity|].
  split; [reflexivity|]. split; [eexists; split; vm_compute; reflexivity|]. vm_compute. reflexivity. Qed.
