import random, sys
seed=int(sys.argv[1]); N=int(sys.argv[2]); L=int(sys.argv[3]); pclear=float(sys.argv[4]) if len(sys.argv)>4 else 0.12
random.seed(seed)
def stmt():
    r=random.random()
    i=lambda: random.randrange(50)
    if r<pclear: return "GClear %d"%i()
    r=random.random()
    if r<0.2: return "GLeaf"
    if r<0.4: return "GOp %d [%s]"%(random.randrange(2,9), ";".join(str(i()) for _ in range(random.randrange(1,3))))
    if r<0.68: return "GView %d %d"%(random.randrange(2,9), i())
    return "GInpl %d %d [%s] %s %s"%(i(), random.randrange(2,9), ";".join(str(i()) for _ in range(random.randrange(0,3))), random.choice(["true","false"]), random.choice(["true","false","false"]))
print("Require Import TestDefs.\nFrom Coq Require Import List. Import ListNotations.")
print("Definition hists : list (list gstmt) := [")
hs=[]
for _ in range(N):
    hs.append("  [GLeaf; "+"; ".join(stmt() for _ in range(L))+"]")
print(";\n".join(hs))
print("].")
print("Eval vm_compute in (check_all hists).")
