(* HeapP23: T4, the loop: what each re-created view looks like (invariant LJ, preserved by every iteration). *)
From Coq Require Import List Arith Bool PeanoNat Lia.
Import ListNotations.
From MG Require Import Model.Heap.
Require Import HeapP1 HeapWfb HeapP2 HeapP3 HeapP4 HeapP5 HeapP6 HeapP7 HeapP8 HeapP10 HeapP11 HeapP12 HeapP13 HeapP14 HeapP15 HeapP16 HeapP17 HeapP18 HeapP19 HeapP22.

Lemma touch_true_id r : (t_base r = None \/ t_creator r <> None) -> touch true r = r.
Proof. rewrite touch_true_eq. destruct r as [c b l s d g v]. simpl. intros [->|H]; [reflexivity|].
  destruct c; [|congruence]. destruct b; reflexivity. Qed.

Section LoopJ.
Variables (h3 : heap) (root : id) (h4 : heap) (g : list node) (tb : tens) (L : list id).
Hypothesis W3 : wf h3.
Hypothesis DS : DupSpec h3 root h4 g tb L.
Variables (hb : heap) (rs : tens) (broot : id).
Hypothesis Hrs_base : t_base rs = None.
Hypothesis Hb4 : h_next h4 <= h_next hb.

Let X := map n_t g.
Let I : Inv h3 (h_next h3) (t_base tb) h4 g L := ds_inv _ _ _ _ _ _ DS.

Definition orig_kind (t : id) (kd : nat) : Prop :=
  exists r0 c0 oc0, getT h3 t = Some r0 /\ t_creator r0 = Some c0 /\ getO h3 c0 = Some oc0 /\ o_kind oc0 = kd.

(* a re-created view *)
Definition Member (hh : heap) (t par : id) : Prop :=
  exists rc oc kd ra, getT hh t = Some rc /\ t_base rc = Some root /\ t_creator rc = Some oc /\ h_next hb <= oc /\
    getO hh oc = Some (mkO kd [par] []) /\ orig_kind t kd /\ t_grad rc = false /\ t_vgrad rc = false /\
    h_next hb <= t_data rc /\ getA hh (t_data rc) = Some ra /\ a_base ra = Some (t_data rs) /\ a_buf ra = broot.

Definition LJ (gs : list node) (hh : heap) : Prop :=
  (forall q, ~ In q X -> q < h_next hb -> getT hh q = getT hb q) /\
  getT hh root = Some rs /\
  (forall n' par', In n' g -> ~ In n' gs -> n_parent n' = Some par' -> Member hh (n_t n') par') /\
  getA hh (t_data rs) = Some (mkA None broot) /\
  (forall n', In n' g -> ~ In n' gs -> exists r, getT hh (n_t n') = Some r /\
        lst_of hh (t_children r) = filter (fun c => negb (mem c (map n_t gs))) (fkids h3 (n_t n'))) /\
  (forall o, o < h_next hb -> getO hh o = getO hb o) /\
  (forall a, a < h_next hb -> getA hh a = getA hb a) /\
  h_next hb <= h_next hh.

Local Notation LI := (LI h3 h4 g).

Lemma filter_notin_all {A} (f : A -> bool) l : (forall x, In x l -> f x = false) -> filter f l = [].
Proof. induction l; simpl; intros H; auto. rewrite H by auto. apply IHl; auto. Qed.

Lemma rebuild_one_J g1 n gs par hh hh' : g = g1 ++ n :: gs -> n_parent n = Some par -> LI (n :: gs) hh -> LJ (n :: gs) hh ->
  rebuild_step (Some hh) n = Some hh' -> LJ gs hh'.
Proof. intros Eg Hpar (W & U & H3 & Hdone & Hops & Hlst & Hnx) (J1 & J2 & J3 & J4 & J5 & J6 & J7 & J8) H.
  assert (Hn : In n g) by (rewrite Eg; apply in_or_app; simpl; auto).
  pose proof (i_tnd _ _ _ _ _ _ I) as NDt. rewrite Eg, map_app in NDt. simpl in NDt.
  apply NoDup_app_inv in NDt. destruct NDt as (ND1 & ND2 & ND3). inversion ND2 as [|? ? ND4 ND5]; subst.
  pose proof (g_parent h3 root h4 g tb L DS n Hn) as Hfk. rewrite Hpar in Hfk.
  pose proof (fkids_kids _ _ _ Hfk) as Hk.
  destruct (kid_wf _ _ _ W3 Hk) as (Hlt & r0 & Er0 & Hc0).
  assert (Hb0 : t_base r0 <> None).
  { unfold fkids in Hfk. apply filter_In in Hfk. destruct Hfk as [_ Hb]. unfold hasbase in Hb. rewrite Er0 in Hb.
    destruct (t_base r0); [discriminate|discriminate]. }
  destruct (Hc0 Hb0) as (Hg0 & c & oc3 & Ec & Eoc3).
  assert (Ehusk : getT hh (n_t n) = Some r0) by (rewrite (H3 n (or_introl eq_refl)); exact Er0).
  pose proof (dup_routes_ops h3 root h4 g tb L DS c oc3 Eoc3) as Eoc4.
  pose proof (Hops _ _ Eoc4) as Eoc. simpl in Eoc.
  pose proof (parent_before h3 root h4 g tb L DS n par g1 gs Eg Hpar) as Hparin.
  assert (Hpar_notin : ~ In par (map n_t (n :: gs))) by (intros Hin; eapply ND3; eauto).
  apply in_map_iff in Hparin. destruct Hparin as (npar & Enp & Hnp1).
  assert (Hnpar : In npar g) by (rewrite Eg; apply in_or_app; auto).
  assert (Hnpar2 : ~ In npar (n :: gs)).
  { intros Hin. apply Hpar_notin. rewrite <- Enp. now apply in_map. }
  destruct (Hdone npar Hnpar Hnpar2) as (tp0 & Etp0 & Hdata). rewrite Enp in Etp0.
  (* run the statement *)
  unfold rebuild_step in H. rewrite Hpar, Ehusk in H. cbn [bind] in H. rewrite Ec in H. cbn [bind] in H.
  rewrite Eoc in H. cbn [bind o_kind] in H.
  apply bind_Some in H. destruct H as ([hv v] & AVe & H).
  destruct (apply_view_spec _ hh _ par hv v W AVe) as (tp0' & AV).
  assert (tp0' = tp0) by (pose proof (av_par0 _ _ _ _ _ _ AV); congruence). subst tp0'.
  pose proof (wfx_apply_view _ _ _ _ _ _ W AVe) as Wv.
  set (rv := mkT (Some (S (h_next hh))) (Some (view_base par tp0)) (S v) (S (S v)) (h_next hh) false false) in *.
  pose proof (av_vrec _ _ _ _ _ _ AV) as Ev. fold rv in Ev.
  assert (Hv : v = 2 + h_next hh) by apply (av_v _ _ _ _ _ _ AV).
  assert (Halloc_lt : forall q r, getT hh q = Some r -> q < h_next hh).
  { intros q r E. apply (x_lt_t _ _ W). eapply get_keys; exact E. }
  assert (Hpar_ne : par <> n_t n) by lia.
  assert (Hv_ne_t : v <> n_t n) by (apply Halloc_lt in Ehusk; lia).
  assert (Hv_ne_par : v <> par) by (apply Halloc_lt in Etp0; lia).
  set (ptr := t_children tp0) in *.
  set (old := lst_of hh ptr) in *.
  assert (Hold_lt : forall c0, In c0 old -> c0 < h_next hh).
  { intros c0 Hc. destruct (proj2 (proj2 (proj2 (x_tens _ _ W par tp0 Etp0))) c0 Hc) as (_ & rc & Erc & _). eapply Halloc_lt; eauto. }
  unfold mirror in H. rewrite Ev in H. cbn [bind] in H.
  assert (Epar_m : getT (setT hv (n_t n) rv) par = Some (touch true tp0)).
  { rewrite getT_setT. destruct (Nat.eqb (n_t n) par) eqn:E; [apply Nat.eqb_eq in E; congruence|]. apply (av_par _ _ _ _ _ _ AV). }
  rewrite Epar_m in H. cbn [bind] in H.
  change (t_children (touch true tp0)) with ptr in H.
  assert (Elm : lst_of (setT hv (n_t n) rv) ptr = old ++ [v]) by apply (av_lpar _ _ _ _ _ _ AV).
  rewrite Elm in H. rewrite filter_drop_last in H by (intros c0 Hc0'; apply Hold_lt in Hc0'; lia).
  inversion H; subst hh'. clear H.
  set (xs := old ++ [n_t n]).
  set (hh' := setL (delT (setT hv (n_t n) rv) v) ptr xs).
  assert (Hget' : forall q, getT hh' q = if Nat.eqb v q then None else if Nat.eqb (n_t n) q then Some rv else getT hv q).
  { intros q. unfold hh', getT, setL, delT, setT; simpl. rewrite get_del by (apply NoDup_keys_put, (x_nd_t _ _ Wv)). now rewrite get_put. }
  assert (Hl' : forall p, lst_of hh' p = if Nat.eqb ptr p then xs else lst_of hv p).
  { intros p. unfold hh', lst_of, setL; simpl. rewrite get_put. destruct (Nat.eqb ptr p); auto. }
  assert (Hptr_lt : ptr < h_next hh) by apply (x_tens _ _ W par tp0 Etp0).
  assert (HgetO' : forall o, getO hh' o = getO hv o) by reflexivity.
  assert (HgetA' : forall a, getA hh' a = getA hv a) by reflexivity.
  (* the parent's record is not changed by the view operation *)
  assert (Htouch : touch true tp0 = tp0 /\ view_base par tp0 = root /\
                   exists ra, getA hh (t_data tp0) = Some ra /\ a_buf ra = broot /\
                              (match a_base ra with Some b0 => b0 | None => t_data tp0 end) = t_data rs).
  { destruct (Nat.eq_dec par root) as [Epr|Npr].
    - rewrite Epr in Etp0. rewrite J2 in Etp0. inversion Etp0; subst tp0.
      assert (touch true rs = rs) by (apply touch_true_id; auto). split; auto. split.
      + unfold view_base. rewrite H, Hrs_base. exact Epr.
      + exists (mkA None broot). split; auto.
    - assert (Hnr : n_t npar <> root) by congruence.
      destruct (node_nonroot h3 root h4 g tb L DS npar Hnpar Hnr) as (q & Eq & _).
      destruct (J3 npar q Hnpar Hnpar2 Eq) as (rc & oc & kd & ra & M1 & M2 & M3 & M4 & M5 & M6 & M7 & M8 & M9 & M10 & M11 & M12).
      rewrite Enp, Etp0 in M1. inversion M1; subst rc.
      assert (touch true tp0 = tp0) by (apply touch_true_id; right; congruence). split; auto. split.
      + unfold view_base. rewrite H, M2. reflexivity.
      + exists ra. split; auto. split; auto. rewrite M11. reflexivity. }
  destruct Htouch as (Htch & Hvb & ra0 & Era0 & Hbuf0 & Hbase0).
  assert (Hpar_v : getT hv par = Some tp0) by (rewrite <- Htch; apply (av_par _ _ _ _ _ _ AV)).
  assert (HX : forall x, In x X -> x < h_next hh).
  { intros x Hx. apply (X_lt h3 root h4 g tb L DS) in Hx. pose proof (next34 h3 root h4 g tb L DS). lia. }
  assert (HrootX : In root X).
  { destruct (ds_head _ _ _ _ _ _ DS) as (g2 & Eg2). unfold X. rewrite Eg2. simpl. auto. }
  assert (HparX : In par X) by (rewrite <- Enp; now apply in_map).
  assert (HnX : In (n_t n) X) by now apply in_map.
  assert (Hroot_ne : n_t n <> root).
  { intros E. pose proof (desc_le h3 root par W3) as Q.
    assert (desc h3 root par).
    { pose proof (ds_pre _ _ _ _ _ _ DS) as HPre.
      assert (In par (map fst (pre (dup_fuel h3) h3 None root))).
      { rewrite <- HPre, map_map. apply in_map_iff. exists npar. auto. }
      eapply pre_desc; eauto. }
    apply Q in H. lia. }
  assert (Harr_old : forall a, getA hh a <> None -> getA hh' a = getA hh a).
  { intros a Haa. rewrite HgetA'. apply (av_aold _ _ _ _ _ _ AV). intros ->.
    apply Haa. apply get_None_keys. intros Hin. apply (x_lt_arr _ _ W) in Hin. lia. }
  assert (Hop_old : forall o r, getO hh o = Some r -> getO hh' o = Some r).
  { intros o r E. rewrite HgetO', (av_o_old _ _ _ _ _ _ AV); auto. intros ->.
    assert (In (S (h_next hh)) (keys (h_o hh))) by (eapply get_keys; exact E). apply (x_lt_o _ _ W) in H. lia. }
  assert (Hrec_old : forall q, q <> n_t n -> q <> v -> getT hh' q = getT hh q).
  { intros q N1 N2. rewrite Hget'. destruct (Nat.eqb v q) eqn:Q1; [apply Nat.eqb_eq in Q1; congruence|].
    destruct (Nat.eqb (n_t n) q) eqn:Q2; [apply Nat.eqb_eq in Q2; congruence|].
    destruct (Nat.eq_dec q par) as [->|Nq]; [rewrite Hpar_v; auto|]. apply (av_told _ _ _ _ _ _ AV); auto. }
  split; [|split; [|split; [|split; [|split; [|split; [|split]]]]]].
  - (* J1 *)
    intros q Hq Hlt'. rewrite <- (J1 q Hq Hlt'). apply Hrec_old.
    + intros ->. tauto. + lia.
  - (* J2 *)
    rewrite Hrec_old; auto. apply HX in HrootX. lia.
  - (* J3 *)
    intros n' par' Hn' Hn'gs Hp'. destruct (node_eq_dec n' n) as [->|Nn].
    + assert (par' = par) by congruence. subst par'.
      exists rv, (S (h_next hh)), (o_kind oc3), (mkA (Some (t_data rs)) broot).
      split. { rewrite Hget'. destruct (Nat.eqb v (n_t n)) eqn:Q; [apply Nat.eqb_eq in Q; congruence|]. now rewrite Nat.eqb_refl. }
      split; [simpl; now rewrite Hvb|]. split; [reflexivity|]. split; [lia|].
      split; [rewrite HgetO'; apply (av_o _ _ _ _ _ _ AV)|].
      split; [exists r0, c, oc3; auto|]. split; [reflexivity|]. split; [reflexivity|]. split; [simpl; lia|].
      simpl. rewrite HgetA'. destruct (av_anew _ _ _ _ _ _ AV) as (ra & ra' & A1 & A2 & A3 & A4).
      rewrite Era0 in A1. inversion A1; subst ra. rewrite A2. destruct ra' as [ab af]. simpl in *. subst af. rewrite A4, Hbase0, Hbuf0. auto.
    + assert (Hn'2 : ~ In n' (n :: gs)) by (intros [Q|Q]; [congruence|tauto]).
      destruct (J3 n' par' Hn' Hn'2 Hp') as (rc & oc & kd & ra & M1 & M2 & M3 & M4 & M5 & M6 & M7 & M8 & M9 & M10 & M11 & M12).
      exists rc, oc, kd, ra.
      assert (n_t n' <> n_t n).
      { intros Q. apply Nn. eapply NoDup_map_inj; [apply (i_tnd _ _ _ _ _ _ I)| | |]; auto. }
      assert (n_t n' <> v) by (apply Halloc_lt in M1; lia).
      rewrite Hrec_old by auto. repeat split; auto.
      rewrite Harr_old; [auto|congruence].
  - (* J4 *)
    rewrite Harr_old; [auto|congruence].
  - (* J5 *)
    intros n' Hn' Hn'gs. destruct (node_eq_dec n' n) as [->|Nn].
    + exists rv. split. { rewrite Hget'. destruct (Nat.eqb v (n_t n)) eqn:Q; [apply Nat.eqb_eq in Q; congruence|]. now rewrite Nat.eqb_refl. }
      simpl. rewrite Hl'. destruct (Nat.eqb ptr (S v)) eqn:Q; [apply Nat.eqb_eq in Q; lia|].
      rewrite (av_lnew _ _ _ _ _ _ AV). symmetry. apply filter_notin_all.
      intros c0 Hc0'. apply negb_false_iff, mem_In.
      (* a child of n comes after n in the graph *)
      destruct (fkid_in_g h3 root h4 g tb L W3 DS n c0 Hn Hc0') as (Hcg & Hcp).
      destruct (nd_in h3 root h4 g tb L DS c0 Hcg) as (Hnc & Enc).
      remember (nd g c0) as nc eqn:Enc0. clear Q.
      assert (Hnc' : In nc (g1 ++ n :: gs)) by (rewrite <- Eg; exact Hnc).
      apply in_app_or in Hnc'. destruct Hnc' as [Q|[Q|Q]].
      * exfalso. destruct (in_split _ _ Q) as (ga & gb & Eg1).
        assert (Eg' : g = ga ++ nc :: (gb ++ n :: gs)) by (rewrite Eg, Eg1, <- app_assoc; reflexivity).
        pose proof (parent_before h3 root h4 g tb L DS nc (n_t n) ga _ Eg' Hcp) as Hb.
        apply in_map_iff in Hb. destruct Hb as (n2 & En2 & Hn2).
        assert (n2 = n).
        { eapply NoDup_map_inj; [apply (i_tnd _ _ _ _ _ _ I)| | |]; auto. rewrite Eg'. apply in_or_app; auto. }
        subst n2. pose proof (i_tnd _ _ _ _ _ _ I) as Q2. rewrite Eg', map_app in Q2. simpl in Q2. rewrite map_app in Q2. simpl in Q2.
        apply NoDup_app_inv in Q2. destruct Q2 as (_ & _ & Q2). apply (Q2 (n_t n)); [now apply in_map|].
        simpl. right. apply in_or_app. right. simpl. auto.
      * exfalso. rewrite <- Q in Enc. apply fkids_kids in Hc0'. apply (kid_gt _ _ _ W3) in Hc0'. lia.
      * rewrite <- Enc. now apply in_map.
    + assert (Hn'2 : ~ In n' (n :: gs)) by (intros [Q|Q]; [congruence|tauto]).
      destruct (J5 n' Hn' Hn'2) as (r & Er & El).
      assert (N1 : n_t n' <> n_t n).
      { intros Q. apply Nn. eapply NoDup_map_inj; [apply (i_tnd _ _ _ _ _ _ I)| | |]; auto. }
      assert (N2 : n_t n' <> v) by (apply Halloc_lt in Er; lia).
      exists r. split; [rewrite Hrec_old; auto|].
      rewrite Hl'. destruct (Nat.eq_dec (n_t n') par) as [Ep|Np].
      * rewrite Ep, Etp0 in Er. inversion Er; subst r. fold ptr. rewrite Nat.eqb_refl.
        fold ptr in El. fold old in El. unfold xs. rewrite El, Ep.
        destruct (g_order h3 root h4 g tb L DS g1 n gs par Eg Hpar) as (A & B & EAB & HA & HB).
        rewrite EAB. change (n_t n :: B) with ([n_t n] ++ B). rewrite !filter_app.
        assert (HAn : forall a, In a A -> ~ In a (map n_t (n :: gs))) by (intros a Ha Hin; apply HA in Ha; eapply ND3; eauto).
        set (P1 := fun c0 : id => negb (mem c0 (map n_t (n :: gs)))).
        set (P2 := fun c0 : id => negb (mem c0 (map n_t gs))).
        rewrite (filter_id P1 A) by (intros a Ha; apply negb_true_iff, mem_false; auto).
        rewrite (filter_none P1 [n_t n]) by (intros a [<-|[]]; apply negb_false_iff, mem_In; simpl; auto).
        rewrite (filter_none P1 B) by (intros a Ha; apply negb_false_iff, mem_In; simpl; right; auto).
        rewrite (filter_id P2 A) by (intros a Ha; apply negb_true_iff, mem_false; intros Hin; apply (HAn a Ha); simpl; auto).
        rewrite (filter_id P2 [n_t n]) by (intros a [<-|[]]; apply negb_true_iff, mem_false; exact ND4).
        rewrite (filter_none P2 B) by (intros a Ha; apply negb_false_iff, mem_In; auto).
        simpl. rewrite !app_nil_r. reflexivity.
      * destruct (Nat.eqb ptr (t_children r)) eqn:Q.
        { apply Nat.eqb_eq in Q. exfalso. apply Np. eapply (x_pdc _ _ W (n_t n') r par tp0); eauto. }
        rewrite (av_lold _ _ _ _ _ _ AV).
        -- rewrite El. apply filter_ext_in. intros c0 Hc0'.
           change (map n_t (n :: gs)) with (n_t n :: map n_t gs). unfold mem at 1; simpl.
           destruct (Nat.eqb c0 (n_t n)) eqn:Q2; auto. apply Nat.eqb_eq in Q2. subst c0. exfalso.
           apply Np. eapply (kid_parent_unique h3 (n_t n') par (n_t n) W3); eauto using fkids_kids.
        -- intros Q2. fold ptr in Q2. rewrite Q2, Nat.eqb_refl in Q. discriminate.
        -- pose proof (proj1 (x_tens _ _ W _ _ Er)). lia.
  - intros o Ho. rewrite HgetO', (av_o_old _ _ _ _ _ _ AV) by lia. apply J6; auto.
  - intros a Ha. rewrite HgetA', (av_aold _ _ _ _ _ _ AV) by lia. apply J7; auto.
  - pose proof (av_next _ _ _ _ _ _ AV) as Q. change (h_next hb <= h_next hv). lia. Qed.

End LoopJ.
