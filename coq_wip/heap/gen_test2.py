import random, sys
seed=int(sys.argv[1]); N=int(sys.argv[2]); L=int(sys.argv[3]); pclear=float(sys.argv[4]); pshape=float(sys.argv[5])
random.seed(seed)
def stmt():
    i=lambda: random.randrange(50)
    if random.random()<pshape: return "GShape %d"%i()
    if random.random()<pclear: return "G1 (GClear %d)"%i()
    r=random.random()
    if r<0.2: return "G1 GLeaf"
    if r<0.4: return "G1 (GOp %d [%s])"%(random.randrange(2,9), ";".join(str(i()) for _ in range(random.randrange(1,3))))
    if r<0.72: return "G1 (GView %d %d)"%(random.randrange(2,9), i())
    return "G1 (GInpl %d %d [%s] %s %s)"%(i(), random.randrange(2,9), ";".join(str(i()) for _ in range(random.randrange(0,3))), random.choice(["true","false"]), random.choice(["true","false","false"]))
print("Require Import TestDefs TestS.\nFrom Coq Require Import List. Import ListNotations.")
print("Definition hists : list (list gs2) := [")
print(";\n".join("  [G1 GLeaf; "+"; ".join(stmt() for _ in range(L))+"]" for _ in range(N)))
print("].")
print("Eval vm_compute in (check_all3 hists).")
