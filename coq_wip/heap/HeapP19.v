(* HeapP19: the re-creation of the views (the last loop of _in_place_op): each step re-populates one husk. *)
From Coq Require Import List Arith Bool PeanoNat Lia.
Import ListNotations.
From MG Require Import Model.Heap.
Require Import HeapP1 HeapWfb HeapP2 HeapP3 HeapP4 HeapP5 HeapP6 HeapP7 HeapP8 HeapP10 HeapP11 HeapP12 HeapP13 HeapP14 HeapP15 HeapP16 HeapP17 HeapP18.

Lemma rm_head_nodup x l : ~ In x l -> rm x (x :: l) = l.
Proof. intros H. unfold rm. simpl. rewrite Nat.eqb_refl. simpl. apply filter_id.
  intros y Hy. apply negb_true_iff, Nat.eqb_neq. intros ->; tauto. Qed.

Section Loop.
Variables (h3 : heap) (root : id) (h4 : heap) (g : list node) (tb : tens) (L : list id).
Hypothesis W3 : wf h3.
Hypothesis DS : DupSpec h3 root h4 g tb L.

Let I : Inv h3 (h_next h3) (t_base tb) h4 g L := ds_inv _ _ _ _ _ _ DS.

Definition LI (gs : list node) (hh : heap) : Prop :=
  wfx (map n_t gs) hh /\
  (forall t r c, getT hh t = Some r -> In c (lst_of hh (t_children r)) -> In c (map n_t gs) -> In t (map n_t gs)) /\
  (forall n, In n gs -> getT hh (n_t n) = getT h3 (n_t n)) /\
  (forall n, In n g -> ~ In n gs -> exists r, getT hh (n_t n) = Some r /\ getA hh (t_data r) <> None) /\
  (forall o r, getO h4 o = Some r -> getO hh o = Some r) /\
  (forall n r0, In n gs -> getT h3 (n_t n) = Some r0 -> lst_of hh (t_children r0) = lst_of h3 (t_children r0)) /\
  h_next h4 <= h_next hh.

Lemma filter_drop_last old v : (forall c, In c old -> c <> v) ->
  filter (fun x => negb (Nat.eqb x v)) (old ++ [v]) = old.
Proof. intros H. rewrite filter_app. simpl. rewrite Nat.eqb_refl. simpl. rewrite app_nil_r.
  apply filter_id. intros c Hc. apply negb_true_iff, Nat.eqb_neq. auto. Qed.

Lemma rebuild_one g1 n gs par hh : g = g1 ++ n :: gs -> n_parent n = Some par -> LI (n :: gs) hh ->
  exists hh', rebuild_step (Some hh) n = Some hh' /\ LI gs hh'.
Proof. intros Eg Hpar (W & U & H3 & Hdone & Hops & Hlst & Hnx).
  assert (Hn : In n g) by (rewrite Eg; apply in_or_app; simpl; auto).
  pose proof (i_tnd _ _ _ _ _ _ I) as NDt. rewrite Eg, map_app in NDt. simpl in NDt.
  apply NoDup_app_inv in NDt. destruct NDt as (ND1 & ND2 & ND3). inversion ND2 as [|? ? ND4 ND5]; subst.
  (* the husk *)
  pose proof (g_parent h3 root h4 g tb L DS n Hn) as Hfk. rewrite Hpar in Hfk.
  pose proof (fkids_kids _ _ _ Hfk) as Hk.
  destruct (kid_wf _ _ _ W3 Hk) as (Hlt & r0 & Er0 & Hc0).
  assert (Hb0 : t_base r0 <> None).
  { unfold fkids in Hfk. apply filter_In in Hfk. destruct Hfk as [_ Hb]. unfold hasbase in Hb. rewrite Er0 in Hb.
    destruct (t_base r0); [discriminate|discriminate]. }
  destruct (Hc0 Hb0) as (Hg0 & c & oc3 & Ec & Eoc3).
  assert (Ehusk : getT hh (n_t n) = Some r0) by (rewrite (H3 n (or_introl eq_refl)); exact Er0).
  pose proof (dup_routes_ops h3 root h4 g tb L DS c oc3 Eoc3) as Eoc4.
  pose proof (Hops _ _ Eoc4) as Eoc. simpl in Eoc.
  (* the parent *)
  pose proof (parent_before h3 root h4 g tb L DS n par g1 gs Eg Hpar) as Hparin.
  assert (Hpar_notin : ~ In par (map n_t (n :: gs))) by (intros Hin; eapply ND3; eauto).
  apply in_map_iff in Hparin. destruct Hparin as (npar & Enp & Hnp1).
  assert (Hnpar : In npar g) by (rewrite Eg; apply in_or_app; auto).
  assert (Hnpar2 : ~ In npar (n :: gs)).
  { intros Hin. apply Hpar_notin. rewrite <- Enp. now apply in_map. }
  destruct (Hdone npar Hnpar Hnpar2) as (tp0 & Etp0 & Hdata). rewrite Enp in Etp0.
  destruct (apply_view_ex hh (o_kind oc3) par tp0 Etp0 Hdata) as (hv & v & AVe).
  destruct (apply_view_spec _ hh _ par hv v W AVe) as (tp0' & AV).
  assert (tp0' = tp0) by (pose proof (av_par0 _ _ _ _ _ _ AV); congruence). subst tp0'.
  pose proof (wfx_apply_view _ _ _ _ _ _ W AVe) as Wv.
  set (rv := mkT (Some (S (h_next hh))) (Some (view_base par tp0)) (S v) (S (S v)) (h_next hh) false false) in *.
  pose proof (av_vrec _ _ _ _ _ _ AV) as Ev. fold rv in Ev.
  assert (Hv : v = 2 + h_next hh) by apply (av_v _ _ _ _ _ _ AV).
  assert (Halloc_lt : forall q r, getT hh q = Some r -> q < h_next hh).
  { intros q r E. apply (x_lt_t _ _ W). eapply get_keys; exact E. }
  assert (Hpar_ne : par <> n_t n) by lia.
  assert (Hv_ne_t : v <> n_t n) by (apply Halloc_lt in Ehusk; lia).
  assert (Hv_ne_par : v <> par) by (apply Halloc_lt in Etp0; lia).
  set (ptr := t_children tp0).
  set (old := lst_of hh ptr).
  assert (Hold_lt : forall c0, In c0 old -> c0 < h_next hh).
  { intros c0 Hc. destruct (proj2 (proj2 (proj2 (x_tens _ _ W par tp0 Etp0))) c0 Hc) as (_ & rc & Erc & _). eapply Halloc_lt; eauto. }
  assert (Hhusk_unlisted : forall t r, getT hh t = Some r -> ~ In (n_t n) (lst_of hh (t_children r))).
  { intros t r E Hin. assert (Ht : In t (map n_t (n :: gs))) by (eapply U; eauto; simpl; auto).
    apply in_map_iff in Ht. destruct Ht as (n' & En' & Hn').
    assert (getT h3 t = Some r) by (rewrite <- En', <- (H3 n' Hn'), En'; exact E).
    rewrite <- En' in H. rewrite (Hlst n' r Hn' H) in Hin.
    assert (n_t n' = par).
    { eapply (kid_parent_unique h3 (n_t n') par (n_t n) W3); auto. apply kids_spec. eauto. }
    apply Hpar_notin. rewrite <- H0. now apply in_map. }
  (* the statement runs *)
  unfold rebuild_step. rewrite Hpar, Ehusk. cbn [bind]. rewrite Ec. cbn [bind]. rewrite Eoc. cbn [bind o_kind].
  rewrite AVe. cbn [bind]. unfold mirror. rewrite Ev. cbn [bind].
  assert (Epar_m : getT (setT hv (n_t n) rv) par = Some (touch true tp0)).
  { rewrite getT_setT. destruct (Nat.eqb (n_t n) par) eqn:E; [apply Nat.eqb_eq in E; congruence|]. apply (av_par _ _ _ _ _ _ AV). }
  rewrite Epar_m. cbn [bind].
  change (t_children (touch true tp0)) with ptr.
  assert (Elm : lst_of (setT hv (n_t n) rv) ptr = old ++ [v]) by apply (av_lpar _ _ _ _ _ _ AV).
  rewrite Elm. rewrite filter_drop_last by (intros c0 Hc0' ; apply Hold_lt in Hc0'; lia).
  eexists. split; [reflexivity|].
  set (xs := old ++ [n_t n]).
  change (setL (delT (setT hv (n_t n) rv) v) ptr xs) with (delT (setT (setL hv ptr xs) (n_t n) rv) v).
  (* step A: the husk takes the place of the temporary view in its parent's list *)
  assert (Hpar_v : getT hv par = Some (touch true tp0)) by apply (av_par _ _ _ _ _ _ AV).
  assert (Hhusk_v : getT hv (n_t n) = Some r0) by (rewrite (av_told _ _ _ _ _ _ AV); auto).
  assert (Hlv_par : lst_of hv ptr = old ++ [v]) by apply (av_lpar _ _ _ _ _ _ AV).
  assert (Hops_v : forall o r, getO hh o = Some r -> getO hv o = Some r).
  { intros o r E. rewrite (av_o_old _ _ _ _ _ _ AV); auto. intros ->.
    assert (In (S (h_next hh)) (keys (h_o hh))) by (eapply get_keys; exact E). apply (x_lt_o _ _ W) in H. lia. }
  assert (Hlister_v : forall t r c0, getT hv t = Some r -> In c0 (lst_of hv (t_children r)) -> c0 <> v ->
            exists r', getT hh t = Some r' /\ In c0 (lst_of hh (t_children r'))).
  { intros t r c0 E Hc Hcv. destruct (Nat.eq_dec t v) as [->|Ntv].
    - rewrite Ev in E. inversion E; subst r. simpl in Hc. rewrite (av_lnew _ _ _ _ _ _ AV) in Hc. destruct Hc.
    - destruct (Nat.eq_dec t par) as [->|Ntp].
      + rewrite Hpar_v in E. inversion E; subst r.
        assert (Hc' : In c0 (old ++ [v])) by (rewrite <- Hlv_par; exact Hc).
        apply in_app_or in Hc'. destruct Hc' as [Hc'|[Hc'|[]]]; [|congruence]. exists tp0. auto.
      + rewrite (av_told _ _ _ _ _ _ AV) in E by auto. exists r. split; auto.
        rewrite (av_lold _ _ _ _ _ _ AV) in Hc; auto.
        * intros Ep. apply Ntp. eapply (x_pdc _ _ W t r par tp0); eauto.
        * pose proof (proj1 (x_tens _ _ W t r E)). lia. }
  assert (WA : wfx (map n_t (n :: gs)) (setL hv ptr xs)).
  { apply (wfx_setL _ hv par (touch true tp0)); auto.
    - unfold xs. apply NoDup_snoc; [apply (x_kids_nd _ _ W par tp0 Etp0)|]. apply (Hhusk_unlisted par tp0 Etp0).
    - intros c0 Hc. unfold xs in Hc. apply in_app_or in Hc. destruct Hc as [Hc|[<-|[]]].
      + apply (x_tens _ _ Wv par _ Hpar_v). change (In c0 (lst_of hv ptr)). rewrite Hlv_par. apply in_or_app; auto.
      + split; [exact Hlt|]. exists r0. split; auto. intros _. split; auto. exists c, oc3.
        split; auto. apply Hops_v. rewrite Eoc. destruct oc3; reflexivity || (simpl; f_equal).
    - intros c0 t r Hc E Hin. unfold xs in Hc. apply in_app_or in Hc. destruct Hc as [Hc|[<-|[]]].
      + eapply (x_par _ _ Wv t r par (touch true tp0) c0); eauto.
        change (In c0 (lst_of hv ptr)). rewrite Hlv_par. apply in_or_app; auto.
      + exfalso. destruct (Hlister_v t r (n_t n) E Hin (not_eq_sym Hv_ne_t)) as (r' & E' & Hin'). eapply Hhusk_unlisted; eauto. }
Abort.

End Loop.
