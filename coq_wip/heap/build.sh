#!/bin/sh
# compile everything in order
set -e
cd /verif/coq_wip/heap
for f in HeapP1 HeapWfb HeapP2 HeapP3 HeapP4 HeapP5 HeapP6 HeapP7 HeapP8 HeapP9 HeapP10 HeapP11 HeapP12 HeapP13 HeapP14 HeapP15 HeapP16 HeapP17 HeapP18 HeapP19 HeapP20 HeapP21 HeapP22 HeapP23 HeapP24 HeapP25 HeapEx HeapP HeapBuf HeapCor HeapShapeP; do
  if [ -f $f.v ]; then echo "== $f"; timeout 1800 coqc -Q /verif/coq MG $f.v; fi
done
