From Coq Require Import List Arith Bool PeanoNat.
Import ListNotations.
From MG Require Import Model.Heap Model.HeapShape.
Require Import HeapP1 HeapWfb TestDefs TestS TestS2.

Definition pickU (us : list id) (n : nat) : id := nth (n mod (length us)) us 0.
Definition resolveU (us : list id) (g : gstmt) : stmt :=
  match g with
  | GLeaf => SLeaf
  | GOp k v => SOp k (map (pickU us) v)
  | GView k p => SView k (pickU us p)
  | GInpl m k ins ma f => SInplace (pickU us m) k (map (pickU us) ins) ma f
  | GClear t => SClear (pickU us t)
  end.
Definition newkeys (h h' : heap) : list id := filter (fun k => negb (mem k (keys (h_t h)))) (keys (h_t h')).

(* check : the boolean invariant to test; codes as before *)
Fixpoint runU (check : heap -> bool) (h : heap) (us : list id) (ss : list gs2) (i : nat) : nat * nat * option (stmt + id) :=
  match ss with
  | [] => (0, i, None)
  | G1 g :: r =>
    let s := resolveU us g in
    match step h s with
    | None => (1, i, Some (inl s))
    | Some o => let h' := heap_of o in
      let us' := match g with GLeaf | GOp _ _ | GView _ _ => us ++ newkeys h h' | _ => us end in
      if negb (check h') then (2, i, Some (inl s)) else runU check h' us' r (S i)
    end
  | GShape m :: r =>
    let t := pickU us m in
    match set_shape h t false with
    | None => (5, i, Some (inr t))
    | Some o => let h' := heap_of o in if negb (check h') then (6, i, Some (inr t)) else runU check h' us r (S i)
    end
  end.
Definition check_allU (check : heap -> bool) (hs : list (list gs2)) :=
  filter (fun x => negb (Nat.eqb (fst (fst (snd x))) 0)) (combine (seq 0 (length hs)) (map (fun ss => runU check (fst (new_leaf empty_heap)) [2] ss 1) hs)).

Definition hasbaseb (h : heap) (c : id) : bool := match getT h c with Some rc => isSome (t_base rc) | None => false end.
Definition wfb3 (h : heap) : bool :=
  nodupb (keys (h_t h)) && nodupb (keys (h_o h)) && nodupb (keys (h_set h)) && nodupb (keys (h_lst h)) && nodupb (keys (h_arr h)) &&
  ltall (h_next h) (keys (h_t h)) && ltall (h_next h) (keys (h_o h)) && ltall (h_next h) (keys (h_set h)) &&
  ltall (h_next h) (keys (h_lst h)) && ltall (h_next h) (keys (h_arr h)) &&
  forallb (fun p => tens_ok2 h (fst p) (snd p)) (h_t h) &&
  forallb (fun p => oper_ok h (snd p)) (h_o h) &&
  nodupb (flat_map (fun p => filter (hasbaseb h) (lst_of h (t_children (snd p)))) (h_t h)) &&
  nodupb (map (fun p => t_children (snd p)) (h_t h)) &&
  nodupb (map (fun p => t_ops (snd p)) (h_t h)).
