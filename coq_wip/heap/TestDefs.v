From Coq Require Import List Arith Bool PeanoNat.
Import ListNotations.
From MG Require Import Model.Heap.
Require Import HeapP1 HeapWfb.

Inductive gstmt := GLeaf | GOp (k : nat) (v : list nat) | GView (k p : nat) | GInpl (m k : nat) (ins : list nat) (masked fails : bool) | GClear (t : nat).

(* only "user-visible" tensors: we approximate by all tensors in the table (placeholders included: harsher test) *)
Definition pick (h : heap) (n : nat) : id := nth (n mod (length (h_t h))) (keys (h_t h)) 0.
Definition resolve (h : heap) (g : gstmt) : stmt :=
  match g with
  | GLeaf => SLeaf
  | GOp k v => SOp k (map (pick h) v)
  | GView k p => SView k (pick h p)
  | GInpl m k ins ma f => SInplace (pick h m) k (map (pick h) ins) ma f
  | GClear t => SClear (pick h t)
  end.

Definition tbl_eqb (h h' : heap) : bool :=
  if list_eq_dec Nat.eq_dec (keys (h_t h)) (keys (h_t h')) then
  if list_eq_dec Nat.eq_dec (keys (h_o h)) (keys (h_o h')) then
  if list_eq_dec Nat.eq_dec (keys (h_lst h)) (keys (h_lst h')) then
  if list_eq_dec Nat.eq_dec (keys (h_set h)) (keys (h_set h')) then
  if list_eq_dec Nat.eq_dec (keys (h_arr h)) (keys (h_arr h')) then
  forallb (fun p => match getO h' (fst p) with Some r => if list_eq_dec Nat.eq_dec (o_vars r) (o_vars (snd p)) then true else false | None => false end) (h_o h)
  && forallb (fun p => match get (h_lst h') (fst p) with Some r => if list_eq_dec Nat.eq_dec r (snd p) then true else false | None => false end) (h_lst h)
  && forallb (fun p => match getT h' (fst p) with Some r =>
        Nat.eqb (t_children r) (t_children (snd p)) && Nat.eqb (t_ops r) (t_ops (snd p)) && Nat.eqb (t_data r) (t_data (snd p))
        && Bool.eqb (t_grad r) (t_grad (snd p)) && Bool.eqb (t_vgrad r) (t_vgrad (snd p))
        && match t_base r, t_base (snd p) with Some a, Some b => Nat.eqb a b | None, None => true | _, _ => false end
        && match t_creator r, t_creator (snd p) with Some a, Some b => Nat.eqb a b | None, None => true | _, _ => false end
        | None => false end) (h_t h)
  else false else false else false else false else false.

(* result codes: 0 ok; 1 stuck; 2 wfb false after step; 3 failure left a trace; 4 fails=true but Done *)
Fixpoint runchk (h : heap) (ss : list gstmt) (i : nat) : nat * nat * option stmt :=
  match ss with
  | [] => (0, i, None)
  | g :: r =>
    let s := resolve h g in
    match step h s with
    | None => (1, i, Some s)
    | Some o =>
      let h' := heap_of o in
      if negb (wfb h') then (2, i, Some s) else
      match o with
      | Raised _ => if tbl_eqb h h' then runchk h' r (S i) else (3, i, Some s)
      | Done _ => match s with SInplace _ _ _ _ true => (4, i, Some s) | _ => runchk h' r (S i) end
      end
    end
  end.

Definition check_all (hs : list (list gstmt)) :=
  filter (fun x => negb (Nat.eqb (fst (fst (snd x))) 0)) (combine (seq 0 (length hs)) (map (fun ss => runchk empty_heap ss 0) hs)).
