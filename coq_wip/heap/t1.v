From Coq Require Import List. Import ListNotations.
From MG Require Import Model.Heap.
(* ids: leaf: array 0 buf 1 tensor 2 list 3 set 4 *)
Definition h0 := run empty_heap [SLeaf; SView 5 2; SView 6 7; SOp 9 [7]; SOp 9 [12; 2]].
Eval vm_compute in h0.
Definition h1 := match h0 with Some h => step h (SInplace 12 7 [2] true false) | None => None end.
Eval vm_compute in h1.
Definition h2 := match h0 with Some h => step h (SInplace 12 7 [2] true true) | None => None end.
Eval vm_compute in match h0, h2 with Some h, Some (Raised h') => Some (h_next h', if list_eq_dec Nat.eq_dec (map fst (h_t h)) (map fst (h_t h')) then true else false) | _, _ => None end.
