(* HeapP: the theorems of task L about MG.Model.Heap, collected.  The proofs are in HeapP1.v ... HeapP25.v (compile them first,
   in numeric order, with HeapWfb.v after HeapP1.v: ./build.sh; see NOTES.md). *)
From Coq Require Import List Arith Bool PeanoNat Lia.
Import ListNotations.
From MG Require Import Model.Heap.
Require Import HeapP1 HeapWfb HeapP2 HeapP3 HeapP4 HeapP5 HeapP6 HeapP7 HeapP8 HeapP9 HeapP10 HeapP11 HeapP12 HeapP13 HeapP14
               HeapP15 HeapP16 HeapP17 HeapP18 HeapP19 HeapP20 HeapP21 HeapP22 HeapP23 HeapP24 HeapP25 HeapEx.

(* ---- well-formedness *)
Check wfb_wf      : forall h, wfb h = true <-> wf h.
Check wf_empty    : wf empty_heap.

(* ---- T3 inplace_failure_noop *)
Check inplace_failure_noop : forall h m k inputs masked out, wf h ->
  inplace h m k inputs masked true = Some out -> exists h', out = Raised h' /\ same_tables h h'.
(* every raising outcome, in particular the stale view (path_to_base g m = None), for any value of the oracle *)
Check inplace_raised_noop : forall h m k inputs masked fails h', wf h ->
  inplace h m k inputs masked fails = Some (Raised h') -> same_tables h h'.

(* ---- T6 never stuck *)
Check inplace_not_stuck : forall h m k inputs masked fails tm0, wf h -> getT h m = Some tm0 ->
  (forall i, In i inputs -> getT h i <> None) -> exists out, inplace h m k inputs masked fails = Some out.

(* ---- T1 dup_restore *)
Check dup_restore : forall h b tb, wf h -> getT h b = Some tb -> t_grad tb = false ->
  exists h1 g h2, dup h b = Some (h1, g) /\ restore h1 g = Some h2 /\ same_tables h (free_placeholders h2 g).

(* ---- T2 dup_routes *)
Check dup_spec : forall h0 b h1 g, wf h0 -> dup h0 b = Some (h1, g) -> exists tb L, DupSpec h0 b h1 g tb L.
Check dup_routes_ops : forall h0 b h1 g tb L, DupSpec h0 b h1 g tb L -> forall o r0, getO h0 o = Some r0 ->
  getO h1 o = Some (mkO (o_kind r0) (map (sigma h0 g o) (o_vars r0)) (o_keep r0)).
Check dup_routes_registered : forall h0 b h1 g tb L, wf h0 -> DupSpec h0 b h1 g tb L -> forall o r0, getO h0 o = Some r0 ->
  (forall v, In v (o_vars r0) -> In v (map n_t g) -> In o (ops_of h0 v)) ->
  getO h1 o = Some (mkO (o_kind r0) (map (ph_if_exists g) (o_vars r0)) (o_keep r0)) /\
  (forall v, In v (map (ph_if_exists g) (o_vars r0)) -> ~ In v (map n_t g)).
Check dup_routes_originals : forall h0 b h1 g tb L, DupSpec h0 b h1 g tb L -> forall t, t < h_next h0 -> getT h1 t = getT h0 t.
Check dup_routes_placeholders.
Check cx_T2.   (* the unrestricted statement of T2 is false *)

(* ---- T4 inplace_success *)
Check inplace_success_spec.
Check SuccFacts.
Print SuccFacts.

(* ---- T5 wf_step *)
Check wf_step : forall h s o, wf h -> stmt_ok h s -> step h s = Some o -> wf (heap_of o).
Check wf_reachable : forall ss h', run_ok empty_heap ss -> run empty_heap ss = Some h' -> wf h'.

Print Assumptions inplace_failure_noop.
Print Assumptions inplace_not_stuck.
Print Assumptions dup_restore.
Print Assumptions dup_routes_registered.
Print Assumptions wf_step.
Print Assumptions inplace_success_spec.
