Require Import TestDefs HeapP1 HeapWfb.
From Coq Require Import List Bool Arith. Import ListNotations.
From MG Require Import Model.Heap.
Fixpoint grun (h : heap) (ss : list gstmt) : heap :=
  match ss with [] => h | g :: r => match step h (resolve h g) with Some o => grun (heap_of o) r | None => h end end.
Definition hh := grun empty_heap [GLeaf; GView 4 37; GView 4 7; GOp 6 [2;19]; GView 4 41; GClear 40; GInpl 22 6 [35;35] false false; GInpl 3 4 [44] false false; GOp 2 [14;0]; GLeaf; GOp 7 [11;9]; GOp 7 [13;18]].
Eval vm_compute in (wfb hh, resolve hh (GClear 35)).
Definition h2 := grun hh [GClear 35].
Eval vm_compute in (wfb h2).
Eval vm_compute in (filter (fun p => negb (tens_ok h2 (fst p) (snd p))) (h_t h2)).
Eval vm_compute in (nodupb (flat_map (fun p => lst_of h2 (t_children (snd p))) (h_t h2)), forallb (fun p => oper_ok h2 (snd p)) (h_o h2)).
Eval vm_compute in hh.
