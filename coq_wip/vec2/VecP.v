(* Task G: the lane-reduction backward formulas of MyGrad (Model/VecOps.v, transcribed by hand) are the exact VJP of the forward
   formulas, for lanes of any length and every position.  Plan of every proof: (1) structural facts about [upd] turn the function
   t |-> F (upd l i t) into a closed one-variable expression over a few lane constants (sum, sum of squares, sum of exps, ...);
   (2) the constants are generalized to variables; (3) auto_derive + field close the one-variable problem. *)
From Coq Require Import Reals List Lra Lia.
From Coquelicot Require Import Coquelicot.
From MG Require Import Model.VecOps.
Import ListNotations.
Open Scope R_scope.

(* ------------------------------------------------------------------------------------------------------------------------------ *)
(* Structural facts about upd / nth / length                                                                                      *)
(* ------------------------------------------------------------------------------------------------------------------------------ *)
Lemma length_upd : forall l i t, length (upd l i t) = length l.
Proof. induction l as [|x l IH]; intros [|i] t; simpl; auto. Qed.

Lemma vlen_upd : forall l i t, vlen (upd l i t) = vlen l.
Proof. intros; unfold vlen; now rewrite length_upd. Qed.

Lemma nth_upd_same : forall l i t, (i < length l)%nat -> nth i (upd l i t) 0 = t.
Proof. induction l as [|x l IH]; intros [|i] t H; simpl in *; try lia; auto. apply IH; lia. Qed.

Lemma nth_upd_other : forall l i j t, i <> j -> nth j (upd l i t) 0 = nth j l 0.
Proof.
  induction l as [|x l IH]; intros [|i] [|j] t H; simpl; auto; try congruence.
Qed.

Lemma upd_nth_id : forall l i, upd l i (nth i l 0) = l.
Proof. induction l as [|x l IH]; intros [|i]; simpl; auto. now rewrite IH. Qed.

Lemma map_upd : forall (f : R -> R) l i t, map f (upd l i t) = upd (map f l) i (f t).
Proof. induction l as [|x l IH]; intros [|i] t; simpl; auto. now rewrite IH. Qed.

Lemma nth_map_R : forall (f : R -> R) l i, (i < length l)%nat -> nth i (map f l) 0 = f (nth i l 0).
Proof. induction l as [|x l IH]; intros [|i] H; simpl in *; try lia; auto. apply IH; lia. Qed.

Lemma vlen_pos : forall l i, (i < length l)%nat -> 0 < vlen l.
Proof. intros l i H. unfold vlen. apply lt_0_INR. lia. Qed.

(* ------------------------------------------------------------------------------------------------------------------------------ *)
(* vsum                                                                                                                           *)
(* ------------------------------------------------------------------------------------------------------------------------------ *)
Lemma vsum_cons : forall x l, vsum (x :: l) = x + vsum l.
Proof. reflexivity. Qed.

Lemma vsum_upd : forall l i t, (i < length l)%nat -> vsum (upd l i t) = vsum l - nth i l 0 + t.
Proof.
  induction l as [|x l IH]; intros [|i] t H; simpl in *; try lia.
  - ring.
  - rewrite IH by lia. ring.
Qed.

Lemma vsum_map_upd : forall (f : R -> R) l i t, (i < length l)%nat ->
  vsum (map f (upd l i t)) = vsum (map f l) - f (nth i l 0) + f t.
Proof.
  intros f l i t H. rewrite map_upd, vsum_upd by (now rewrite map_length). now rewrite nth_map_R.
Qed.

Lemma vsum_sqdev : forall m l,
  vsum (map (fun x => (x - m) ^ 2) l) = vsum (map (fun x => x ^ 2) l) - 2 * m * vsum l + vlen l * m ^ 2.
Proof.
  intros m. unfold vlen. induction l as [|x l IH].
  - simpl. ring.
  - change (length (x :: l)) with (S (length l)). rewrite S_INR, !map_cons, !vsum_cons, IH. ring.
Qed.

Lemma vsum_exp_pos : forall l, l <> [] -> 0 < vsum (map exp l).
Proof.
  assert (A : forall l, 0 <= vsum (map exp l)).
  { induction l as [|x l IH]; simpl; [lra|]. pose proof (exp_pos x). lra. }
  intros [|x l] H; [congruence|]. simpl. pose proof (exp_pos x). pose proof (A l). lra.
Qed.

Lemma vsum_exp_pos_i : forall l i, (i < length l)%nat -> 0 < vsum (map exp l).
Proof. intros l i H. apply vsum_exp_pos. intros ->. simpl in H. lia. Qed.

(* ------------------------------------------------------------------------------------------------------------------------------ *)
(* sum, mean                                                                                                                      *)
(* ------------------------------------------------------------------------------------------------------------------------------ *)
Lemma sum_vjp : forall g l i, (i < length l)%nat -> is_derive (fun t => g * vsum (upd l i t)) (nth i l 0) (sum_bwd g l i).
Proof.
  intros g l i H. unfold sum_bwd.
  apply (is_derive_ext (fun t => g * (vsum l - nth i l 0 + t))).
  - intros t. now rewrite vsum_upd.
  - generalize (vsum l) (nth i l 0). intros S x. auto_derive; [exact I | ring].
Qed.

Lemma mean_vjp : forall g l i, (i < length l)%nat -> is_derive (fun t => g * vmean (upd l i t)) (nth i l 0) (mean_bwd g l i).
Proof.
  intros g l i H. unfold mean_bwd, vmean.
  pose proof (vlen_pos l i H) as Hn.
  apply (is_derive_ext (fun t => g * ((vsum l - nth i l 0 + t) / vlen l))).
  - intros t. now rewrite vsum_upd, vlen_upd.
  - revert Hn. generalize (vsum l) (nth i l 0) (vlen l). intros S x n Hn. auto_derive; [exact I | field; lra].
Qed.

(* ------------------------------------------------------------------------------------------------------------------------------ *)
(* var, std                                                                                                                       *)
(* ------------------------------------------------------------------------------------------------------------------------------ *)
Definition var_closed (Q S x n ddof t : R) : R :=
  (Q - x ^ 2 + t ^ 2 - 2 * ((S - x + t) / n) * (S - x + t) + n * ((S - x + t) / n) ^ 2) / (n - ddof).

Lemma vvar_upd : forall ddof l i t, (i < length l)%nat ->
  vvar ddof (upd l i t) = var_closed (vsum (map (fun x => x ^ 2) l)) (vsum l) (nth i l 0) (vlen l) ddof t.
Proof.
  intros ddof l i t H. unfold vvar, var_closed. rewrite vsum_sqdev. unfold vmean.
  rewrite (vsum_map_upd (fun x => x ^ 2)) by assumption.
  now rewrite vsum_upd, vlen_upd.
Qed.

Lemma var_vjp : forall ddof g l i, (i < length l)%nat -> vlen l - ddof <> 0 ->
  is_derive (fun t => g * vvar ddof (upd l i t)) (nth i l 0) (var_bwd ddof g l i).
Proof.
  intros ddof g l i H Hd. unfold var_bwd, vmean.
  pose proof (vlen_pos l i H) as Hn.
  apply (is_derive_ext (fun t => g * var_closed (vsum (map (fun x => x ^ 2) l)) (vsum l) (nth i l 0) (vlen l) ddof t)).
  - intros t. now rewrite vvar_upd.
  - revert Hn Hd. generalize (vsum (map (fun x => x ^ 2) l)) (vsum l) (nth i l 0) (vlen l).
    intros Q S x n Hn Hd. unfold var_closed. auto_derive; [lra | field; lra].
Qed.

Lemma std_vjp : forall ddof g l i, (i < length l)%nat -> vlen l - ddof <> 0 -> 0 < vvar ddof l ->
  is_derive (fun t => g * vstd ddof (upd l i t)) (nth i l 0) (std_bwd ddof g l i).
Proof.
  intros ddof g l i H Hd Hv. unfold std_bwd, vstd.
  pose proof (var_vjp ddof 1 l i H Hd) as D. unfold var_bwd in D.
  assert (D' : is_derive (fun t => vvar ddof (upd l i t)) (nth i l 0) (2 / (vlen l - ddof) * (nth i l 0 - vmean l) * 1)).
  { eapply is_derive_ext; [|exact D]. intros t; simpl; ring. }
  clear D.
  assert (E : vvar ddof (upd l i (nth i l 0)) = vvar ddof l) by now rewrite upd_nth_id.
  pose proof (sqrt_lt_R0 _ Hv) as Hs.
  set (F := fun t => vvar ddof (upd l i t)) in *.
  change (is_derive (fun t => g * sqrt (F t)) (nth i l 0)
            (2 / (vlen l - ddof) * (nth i l 0 - vmean l) * (g / (2 * sqrt (vvar ddof l))))).
  assert (EF : F (nth i l 0) = vvar ddof l) by exact E.
  auto_derive.
  - split; [eexists; exact D'|]. split; [|exact I]. rewrite EF. exact Hv.
  - replace (Derive (fun x => F x) (nth i l 0)) with (2 / (vlen l - ddof) * (nth i l 0 - vmean l) * 1)
      by (symmetry; apply is_derive_unique; exact D').
    rewrite EF. field. split; lra.
Qed.

(* ------------------------------------------------------------------------------------------------------------------------------ *)
(* prod                                                                                                                           *)
(* ------------------------------------------------------------------------------------------------------------------------------ *)
Lemma vprod_cons : forall x l, vprod (x :: l) = x * vprod l.
Proof. reflexivity. Qed.

(* the product of the other elements is vprod (upd l i 1) *)
Lemma vprod_upd : forall l i t, (i < length l)%nat -> vprod (upd l i t) = t * vprod (upd l i 1).
Proof.
  induction l as [|x l IH]; intros [|i] t H; simpl in *; try lia.
  - ring.
  - rewrite (IH i t) by lia. ring.
Qed.

Lemma nzeros_cons : forall x l, nzeros (x :: l) = ((if Req_EM_T x 0 then 1 else 0) + nzeros l)%nat.
Proof. intros x l. unfold nzeros. simpl. destruct (Req_EM_T x 0); reflexivity. Qed.

Lemma ofz_cons : forall x l, ones_for_zeros (x :: l) = (if Req_EM_T x 0 then 1 else x) :: ones_for_zeros l.
Proof. reflexivity. Qed.

Lemma nzeros_pos_vprod : forall l, (0 < nzeros l)%nat -> vprod l = 0.
Proof.
  induction l as [|x l IH]; intros H.
  - unfold nzeros in H; simpl in H; lia.
  - rewrite nzeros_cons in H. rewrite vprod_cons. destruct (Req_EM_T x 0) as [->|N].
    + ring.
    + rewrite IH by (simpl in H; lia). ring.
Qed.

Lemma nzeros_0_ofz : forall l, nzeros l = 0%nat -> ones_for_zeros l = l.
Proof.
  induction l as [|x l IH]; intros H; [reflexivity|].
  rewrite nzeros_cons in H. rewrite ofz_cons. destruct (Req_EM_T x 0); [simpl in H; lia|].
  now rewrite IH.
Qed.

Lemma nzeros_upd1 : forall l i, (i < length l)%nat ->
  nzeros l = ((if Req_EM_T (nth i l 0%R) 0%R then 1 else 0) + nzeros (upd l i 1%R))%nat.
Proof.
  induction l as [|x l IH]; intros [|i] H; simpl in H; try lia.
  - simpl upd. simpl nth. rewrite !nzeros_cons. destruct (Req_EM_T 1 0); [lra|]. reflexivity.
  - simpl upd. simpl nth. rewrite !nzeros_cons. rewrite (IH i) by lia. lia.
Qed.

Lemma ofz_upd1 : forall l i, nth i l 0 = 0 -> ones_for_zeros (upd l i 1) = ones_for_zeros l.
Proof.
  induction l as [|x l IH]; intros [|i] H; simpl in H; simpl upd; try reflexivity.
  - rewrite !ofz_cons. destruct (Req_EM_T 1 0); [lra|]. destruct (Req_EM_T x 0); [reflexivity|contradiction].
  - rewrite !ofz_cons. now rewrite IH.
Qed.

Lemma vprod_nth_others : forall l i, (i < length l)%nat -> vprod l = nth i l 0 * vprod (upd l i 1).
Proof. intros l i H. rewrite <- (upd_nth_id l i) at 1. now apply vprod_upd. Qed.

(* MyGrad's case analysis on the number of zeros always yields g * (product of the other elements) *)
Lemma prod_bwd_others : forall g l i, (i < length l)%nat -> prod_bwd g l i = g * vprod (upd l i 1).
Proof.
  intros g l i H. unfold prod_bwd. f_equal.
  pose proof (nzeros_upd1 l i H) as Z.
  pose proof (vprod_nth_others l i H) as P.
  destruct (Req_EM_T (nth i l 0) 0) as [E|N].
  - (* x_i = 0 *)
    destruct (nzeros l) as [|[|k]] eqn:NZ; [lia| |].
    + assert (Z' : nzeros (upd l i 1) = 0%nat) by lia.
      rewrite <- (ofz_upd1 l i E), (nzeros_0_ofz _ Z'). field.
    + symmetry. apply nzeros_pos_vprod. lia.
  - (* x_i <> 0 *)
    destruct (nzeros l) as [|[|k]] eqn:NZ.
    + rewrite P. field. exact N.
    + rewrite P. field. exact N.
    + symmetry. apply nzeros_pos_vprod. lia.
Qed.

Lemma prod_vjp : forall g l i, (i < length l)%nat -> is_derive (fun t => g * vprod (upd l i t)) (nth i l 0) (prod_bwd g l i).
Proof.
  intros g l i H. rewrite prod_bwd_others by assumption.
  apply (is_derive_ext (fun t => g * (t * vprod (upd l i 1)))).
  - intros t. now rewrite <- vprod_upd.
  - generalize (vprod (upd l i 1)) (nth i l 0). intros P x. auto_derive; [exact I | ring].
Qed.

(* ------------------------------------------------------------------------------------------------------------------------------ *)
(* dot                                                                                                                            *)
(* ------------------------------------------------------------------------------------------------------------------------------ *)
Lemma dot_cons : forall a g x l, dot (a :: g) (x :: l) = a * x + dot g l.
Proof. reflexivity. Qed.
Lemma dot_nil_l : forall l, dot [] l = 0.
Proof. reflexivity. Qed.
Lemma dot_nil_r : forall g, dot g [] = 0.
Proof. destruct g; reflexivity. Qed.

Lemma dot_comm : forall a b, dot a b = dot b a.
Proof.
  induction a as [|x a IH]; intros [|y b]; try reflexivity.
  rewrite !dot_cons, IH. ring.
Qed.

Lemma dot_upd : forall l g i t, (i < length l)%nat ->
  dot g (upd l i t) = dot g l - nth i g 0 * nth i l 0 + nth i g 0 * t.
Proof.
  induction l as [|x l IH]; intros g i t H; simpl in H; [lia|].
  destruct g as [|a g].
  - rewrite !dot_nil_l. destruct i; simpl; ring.
  - destruct i as [|i]; simpl upd; simpl nth; rewrite !dot_cons.
    + ring.
    + rewrite IH by lia. ring.
Qed.

Lemma dot_map_div : forall (f : R -> R) c l g, dot g (map (fun x => f x / c) l) = dot g (map f l) / c.
Proof.
  intros f c. induction l as [|x l IH]; intros [|a g]; simpl map; rewrite ?dot_nil_l, ?dot_nil_r, ?dot_cons;
    try (unfold Rdiv; ring).
  rewrite IH. unfold Rdiv; ring.
Qed.

Lemma dot_map_sub : forall c l g, length g = length l -> dot g (map (fun x => x - c) l) = dot g l - c * vsum g.
Proof.
  intros c. induction l as [|x l IH]; intros [|a g] H; simpl in H; try lia; simpl map.
  - rewrite !dot_nil_l. simpl. ring.
  - rewrite !dot_cons, vsum_cons, IH by lia. ring.
Qed.

(* ------------------------------------------------------------------------------------------------------------------------------ *)
(* softmax, logsoftmax, cross entropy                                                                                             *)
(* ------------------------------------------------------------------------------------------------------------------------------ *)
Lemma nth_softmax : forall l i, (i < length l)%nat -> nth i (vsoftmax l) 0 = exp (nth i l 0) / vsum (map exp l).
Proof. intros l i H. unfold vsoftmax. now rewrite (nth_map_R (fun x => exp x / vsum (map exp l))). Qed.

Lemma dot_softmax : forall g l, dot g (vsoftmax l) = dot g (map exp l) / vsum (map exp l).
Proof. intros g l. unfold vsoftmax. apply (dot_map_div exp). Qed.

Lemma dot_softmax_upd : forall g l i t, (i < length l)%nat ->
  dot g (vsoftmax (upd l i t)) =
  (dot g (map exp l) - nth i g 0 * exp (nth i l 0) + nth i g 0 * exp t) / (vsum (map exp l) - exp (nth i l 0) + exp t).
Proof.
  intros g l i t H. rewrite dot_softmax, (vsum_map_upd exp) by assumption.
  rewrite map_upd, dot_upd by (now rewrite map_length). now rewrite nth_map_R.
Qed.

Lemma softmax_vjp : forall g l i, (i < length l)%nat -> length g = length l ->
  is_derive (fun t => dot g (vsoftmax (upd l i t))) (nth i l 0) (softmax_bwd g l i).
Proof.
  intros g l i H Hg. unfold softmax_bwd. cbv zeta.
  rewrite (dot_comm (vsoftmax l) g), dot_softmax, nth_softmax by assumption.
  pose proof (vsum_exp_pos_i l i H) as HE.
  apply (is_derive_ext (fun t => (dot g (map exp l) - nth i g 0 * exp (nth i l 0) + nth i g 0 * exp t)
                                 / (vsum (map exp l) - exp (nth i l 0) + exp t))).
  - intros t. now rewrite dot_softmax_upd.
  - revert HE. generalize (dot g (map exp l)) (vsum (map exp l)) (nth i l 0) (nth i g 0). intros A E x gi HE.
    pose proof (exp_pos x). auto_derive; [lra | field; lra].
Qed.

Lemma dot_logsoftmax_upd : forall g l i t, (i < length l)%nat -> length g = length l ->
  dot g (vlogsoftmax (upd l i t)) =
  dot g l - nth i g 0 * nth i l 0 + nth i g 0 * t - ln (vsum (map exp l) - exp (nth i l 0) + exp t) * vsum g.
Proof.
  intros g l i t H Hg. unfold vlogsoftmax. rewrite dot_map_sub by (now rewrite length_upd).
  rewrite (vsum_map_upd exp), dot_upd by assumption. reflexivity.
Qed.

Lemma logsoftmax_vjp : forall g l i, (i < length l)%nat -> length g = length l ->
  is_derive (fun t => dot g (vlogsoftmax (upd l i t))) (nth i l 0) (logsoftmax_bwd g l i).
Proof.
  intros g l i H Hg. unfold logsoftmax_bwd. rewrite nth_softmax by assumption.
  pose proof (vsum_exp_pos_i l i H) as HE.
  apply (is_derive_ext (fun t => dot g l - nth i g 0 * nth i l 0 + nth i g 0 * t
                                 - ln (vsum (map exp l) - exp (nth i l 0) + exp t) * vsum g)).
  - intros t. now rewrite dot_logsoftmax_upd.
  - revert HE. generalize (dot g l) (vsum (map exp l)) (nth i l 0) (nth i g 0) (vsum g). intros A E x gi G HE.
    pose proof (exp_pos x). auto_derive; [lra | field; lra].
Qed.

Lemma nth_logsoftmax : forall l y, (y < length l)%nat -> nth y (vlogsoftmax l) 0 = nth y l 0 - ln (vsum (map exp l)).
Proof. intros l y H. unfold vlogsoftmax. now rewrite (nth_map_R (fun x => x - ln (vsum (map exp l)))). Qed.

Lemma xent_vjp : forall g c y l i, (i < length l)%nat -> (y < length l)%nat ->
  is_derive (fun t => g * vxent c y (upd l i t)) (nth i l 0) (xent_bwd g c y l i).
Proof.
  intros g c y l i H Hy. unfold xent_bwd, vxent. rewrite nth_softmax by assumption.
  pose proof (vsum_exp_pos_i l i H) as HE.
  destruct (Nat.eqb_spec i y) as [->|N].
  - apply (is_derive_ext (fun t => g * (- c * (t - ln (vsum (map exp l) - exp (nth y l 0) + exp t))))).
    + intros t. rewrite nth_logsoftmax by (now rewrite length_upd).
      now rewrite nth_upd_same, (vsum_map_upd exp).
    + revert HE. generalize (vsum (map exp l)) (nth y l 0). intros E x HE.
      pose proof (exp_pos x). auto_derive; [lra | field; lra].
  - apply (is_derive_ext (fun t => g * (- c * (nth y l 0 - ln (vsum (map exp l) - exp (nth i l 0) + exp t))))).
    + intros t. rewrite nth_logsoftmax by (now rewrite length_upd).
      now rewrite nth_upd_other, (vsum_map_upd exp).
    + revert HE. generalize (vsum (map exp l)) (nth i l 0) (nth y l 0). intros E x xy HE.
      pose proof (exp_pos x). auto_derive; [lra | field; lra].
Qed.

(* ------------------------------------------------------------------------------------------------------------------------------ *)
(* The eight statements exactly as given in TASK_G.md (type ascription = statement check), and the axioms they rest on            *)
(* ------------------------------------------------------------------------------------------------------------------------------ *)
Definition vec_vjp_all :=
  ( (sum_vjp  : forall g l i, (i < length l)%nat -> is_derive (fun t => g * vsum  (upd l i t)) (nth i l 0) (sum_bwd g l i)),
    (mean_vjp : forall g l i, (i < length l)%nat -> is_derive (fun t => g * vmean (upd l i t)) (nth i l 0) (mean_bwd g l i)),
    (var_vjp  : forall ddof g l i, (i < length l)%nat -> vlen l - ddof <> 0 ->
                  is_derive (fun t => g * vvar ddof (upd l i t)) (nth i l 0) (var_bwd ddof g l i)),
    (std_vjp  : forall ddof g l i, (i < length l)%nat -> vlen l - ddof <> 0 -> 0 < vvar ddof l ->
                  is_derive (fun t => g * vstd ddof (upd l i t)) (nth i l 0) (std_bwd ddof g l i)),
    (prod_vjp : forall g l i, (i < length l)%nat -> is_derive (fun t => g * vprod (upd l i t)) (nth i l 0) (prod_bwd g l i)),
    (softmax_vjp    : forall g l i, (i < length l)%nat -> length g = length l ->
                  is_derive (fun t => dot g (vsoftmax (upd l i t))) (nth i l 0) (softmax_bwd g l i)),
    (logsoftmax_vjp : forall g l i, (i < length l)%nat -> length g = length l ->
                  is_derive (fun t => dot g (vlogsoftmax (upd l i t))) (nth i l 0) (logsoftmax_bwd g l i)),
    (xent_vjp : forall g c y l i, (i < length l)%nat -> (y < length l)%nat ->
                  is_derive (fun t => g * vxent c y (upd l i t)) (nth i l 0) (xent_bwd g c y l i)) ).
Print Assumptions vec_vjp_all.
