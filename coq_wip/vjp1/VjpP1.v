(* Task F, part 1: the element-wise backward formulas of MyGrad (Gen/VjpScalar.v, generated) are the exact VJP of the forward
   formulas.  Every proof is "unfold everything; decide the constant branches; auto_derive; side conditions by [dom]; algebraic residue by
   field / ring / nsatz", so that harmless rewrites of the generated definitions do not break it. *)
From Coq Require Import Reals Lra Lia Nsatz.
From Coquelicot Require Import Coquelicot.
From MG Require Import Model.RealOps Gen.VjpScalar.
Open Scope R_scope.

(* ------------------------------------------------------------------------------------------------------------------------------ *)
(* Facts about the standard functions (independent of the generated file)                                                         *)
(* ------------------------------------------------------------------------------------------------------------------------------ *)
Lemma cosh_pos x : 0 < cosh x.
Proof. unfold cosh. pose proof (exp_pos x); pose proof (exp_pos (-x)); lra. Qed.
Lemma cos2_sin2 x : cos x * cos x + sin x * sin x = 1.
Proof. pose proof (sin2_cos2 x) as H; unfold Rsqr in H; lra. Qed.
Lemma cosh2_sinh2 x : cosh x * cosh x - sinh x * sinh x = 1.
Proof.
  unfold cosh, sinh. rewrite exp_Ropp. pose proof (exp_pos x). field. lra.
Qed.
Lemma sinh_neq_0 x : x <> 0 -> sinh x <> 0.
Proof.
  intros H. rewrite <- sinh_0. destruct (Rdichotomy _ _ H) as [L|L]; apply sinh_lt in L; lra.
Qed.
Lemma ln2_pos : 0 < ln 2.
Proof. rewrite <- ln_1; apply ln_increasing; lra. Qed.
Lemma ln10_pos : 0 < ln 10.
Proof. rewrite <- ln_1; apply ln_increasing; lra. Qed.
Lemma exp_minus x y : exp (x - y) = exp x / exp y.
Proof. unfold Rminus, Rdiv. now rewrite exp_plus, exp_Ropp. Qed.

Lemma loc_lt (a c : R) : a < c -> locally a (fun t => t < c).
Proof. apply (open_lt c). Qed.
Lemma loc_gt (a c : R) : c < a -> locally a (fun t => c < t).
Proof. apply (open_gt c). Qed.
(* change the function on an open neighbourhood *)
Lemma is_derive_on_nbhd (P : R -> Prop) (f h : R -> R) (a l : R) :
  locally a P -> (forall t, P t -> f t = h t) -> is_derive f a l -> is_derive h a l.
Proof.
  intros L E D. apply (is_derive_ext_loc f h a l); [|exact D].
  revert L. apply filter_imp. exact E.
Qed.

(* ------------------------------------------------------------------------------------------------------------------------------ *)
(* Shared tactics                                                                                                                 *)
(* ------------------------------------------------------------------------------------------------------------------------------ *)
Create HintDb vjp.
#[global] Hint Unfold
  Add_fwd Add_bwd_0 Add_bwd_1 Subtract_fwd Subtract_bwd_0 Subtract_bwd_1 Multiply_fwd Multiply_bwd_0 Multiply_bwd_1
  Divide_fwd Divide_bwd_0 Divide_bwd_1 Reciprocal_fwd Reciprocal_bwd_0 Square_fwd Square_bwd_0 Positive_fwd Positive_bwd_0
  Negative_fwd Negative_bwd_0 Exp_fwd Exp_bwd_0 Exp2_fwd Exp2_bwd_0 Expm1_fwd Expm1_bwd_0 Logaddexp_fwd Logaddexp_bwd_0 Logaddexp_bwd_1
  Logaddexp2_fwd Logaddexp2_bwd_0 Logaddexp2_bwd_1 Log_fwd Log_bwd_0 Log2_fwd Log2_bwd_0 Log10_fwd Log10_bwd_0 Log1p_fwd Log1p_bwd_0
  Sin_fwd Sin_bwd_0 Cos_fwd Cos_bwd_0 Tan_fwd Tan_bwd_0 Csc_fwd Csc_bwd_0 Sec_fwd Sec_bwd_0 Cot_fwd Cot_bwd_0
  Sinh_fwd Sinh_bwd_0 Cosh_fwd Cosh_bwd_0 Tanh_fwd Tanh_bwd_0 Csch_fwd Csch_bwd_0 Sech_fwd Sech_bwd_0 Coth_fwd Coth_bwd_0
  Sigmoid_fwd Sigmoid_bwd_0 ELU_fwd ELU_bwd_0 SELU_fwd SELU_bwd_0 ReLu_fwd ReLu_bwd_0 Abs_fwd Abs_bwd_0 Sqrt_fwd Sqrt_bwd_0
  np_positive np_exp2 np_expm1 np_log2 np_log10 np_log1p np_logaddexp np_logaddexp2 np_power
  Rpower Rsqr tan tanh Rabs : vjp.

(* close a goal from contradictory (in)equalities among the hypotheses *)
Ltac absurd_hyps := exfalso; first [ lra | congruence | nra ].

(* decide every [if] whose condition is about free variables (not under a binder) and is settled by the hypotheses *)
Ltac decide_ifs :=
  repeat match goal with
  | |- context [Rlt_dec ?a ?b]   => destruct (Rlt_dec a b);   [ try absurd_hyps | try absurd_hyps ]
  | |- context [Req_EM_T ?a ?b]  => destruct (Req_EM_T a b);  [ try absurd_hyps | try absurd_hyps ]
  | |- context [Rcase_abs ?a]    => destruct (Rcase_abs a);   [ try absurd_hyps | try absurd_hyps ]
  | |- context [Rle_dec ?a ?b]   => destruct (Rle_dec a b);   [ try absurd_hyps | try absurd_hyps ]
  | |- context [Rgt_dec ?a ?b]   => destruct (Rgt_dec a b);   [ try absurd_hyps | try absurd_hyps ]
  | |- context [Rge_dec ?a ?b]   => destruct (Rge_dec a b);   [ try absurd_hyps | try absurd_hyps ]
  end.

(* positivity facts about every exp / cosh / ln 2 / ln 10 / sqrt that occurs in the goal *)
Ltac lacking H := lazymatch goal with _ : H |- _ => fail | _ => idtac end.
Ltac facts :=
  pose proof ln2_pos; pose proof ln10_pos;
  repeat match goal with
  | |- context [exp ?t]  => lacking (0 < exp t);  pose proof (exp_pos t)
  | |- context [cosh ?t] => lacking (0 < cosh t); pose proof (cosh_pos t)
  | H : 0 < ?t |- context [sqrt ?t] => lacking (0 < sqrt t); pose proof (sqrt_lt_R0 t H)
  | H : ?t <> 0 |- context [sinh ?t] => lacking (sinh t <> 0); pose proof (sinh_neq_0 t H)
  end.

(* exp of a difference / sum / opposite -> quotient / product / inverse, so that [field] sees through it *)
Ltac exp_norm :=
  repeat match goal with
  | |- context [exp ((?x - ?y) * ?z)] => replace ((x - y) * z) with (x * z - y * z) by ring
  | |- context [exp (?z * (?x - ?y))] => replace (z * (x - y)) with (z * x - z * y) by ring
  | |- context [exp ((?x + ?y) * ?z)] => replace ((x + y) * z) with (x * z + y * z) by ring
  | |- context [exp (?z * (?x + ?y))] => replace (z * (x + y)) with (z * x + z * y) by ring
  | |- context [exp (-1 * ?x)]        => replace (-1 * x) with (- x) by ring
  | |- context [exp (?x * -1)]        => replace (x * -1) with (- x) by ring
  | |- context [exp (1 * ?x)]         => replace (1 * x) with x by ring
  | |- context [exp (?x * 1)]         => replace (x * 1) with x by ring
  | |- context [exp (- ?x * ?y)]      => replace (- x * y) with (- (x * y)) by ring
  | |- context [exp (?x * - ?y)]      => replace (x * - y) with (- (x * y)) by ring
  | |- context [exp (- - ?x)]         => rewrite (Ropp_involutive x)
  | |- context [exp (?x - ?y)] => rewrite (exp_minus x y)
  | |- context [exp (?x + ?y)] => rewrite (exp_plus x y)
  | |- context [exp (- ?x)]    => rewrite (exp_Ropp x)
  end.

(* side conditions *)
Ltac nz :=
  first [ assumption | lra | apply Rgt_not_eq; lra | apply Rlt_not_eq; lra
        | apply Rmult_integral_contrapositive_currified; nz | apply Rinv_neq_0_compat; nz | apply pow_nonzero; nz ].
Ltac dom1 :=
  first [ assumption | exact I | lra | solve [nz]
        | nra | apply Rgt_not_eq; nra | apply Rlt_not_eq; nra | (intro; nra) ].
Ltac dom := repeat match goal with |- _ /\ _ => split end; try dom1.

(* algebraic residue; the Pythagorean identities are added as hypotheses for nsatz *)
Ltac pyth :=
  repeat match goal with
  | |- context [cos ?t]  => lacking (cos t * cos t + sin t * sin t = 1);   pose proof (cos2_sin2 t)
  | |- context [sin ?t]  => lacking (cos t * cos t + sin t * sin t = 1);   pose proof (cos2_sin2 t)
  | |- context [cosh ?t] => lacking (cosh t * cosh t - sinh t * sinh t = 1); pose proof (cosh2_sinh2 t)
  | |- context [sinh ?t] => lacking (cosh t * cosh t - sinh t * sinh t = 1); pose proof (cosh2_sinh2 t)
  end.
Ltac alg :=
  first [ ring
        | solve [ field; dom ]
        | solve [ exp_norm; facts; field; dom ]
        | solve [ pyth; field_simplify_eq; [ cbn [Rpow_def.pow]; nsatz | dom ] ] ].

Ltac vjp_core := auto_derive; [ facts; solve [dom] | facts; alg ].
Ltac vjp := intros; autounfold with vjp; decide_ifs; vjp_core.

(* piecewise definitions: [L : locally a P] where every [if] under the binder is settled by [P t] *)
Ltac on_nbhd L :=
  eapply (is_derive_on_nbhd _ _ _ _ _ L);
  [ cbv beta; intros ? ?; decide_ifs; reflexivity | cbv beta ].
Ltac vjp_pw a H :=
  intros; autounfold with vjp;
  destruct (Rdichotomy _ _ H) as [?Hs | ?Hs];
  [ on_nbhd (loc_lt a 0 Hs) | on_nbhd (loc_gt a 0 Hs) ]; decide_ifs; vjp_core.

(* ------------------------------------------------------------------------------------------------------------------------------ *)
(* arithmetic                                                                                                                     *)
(* ------------------------------------------------------------------------------------------------------------------------------ *)
Lemma Add_vjp_0 : forall g a b, is_derive (fun x => g * Add_fwd x b) a (Add_bwd_0 g a b).
Proof. vjp. Qed.
Lemma Add_vjp_1 : forall g a b, is_derive (fun y => g * Add_fwd a y) b (Add_bwd_1 g a b).
Proof. vjp. Qed.
Lemma Subtract_vjp_0 : forall g a b, is_derive (fun x => g * Subtract_fwd x b) a (Subtract_bwd_0 g a b).
Proof. vjp. Qed.
Lemma Subtract_vjp_1 : forall g a b, is_derive (fun y => g * Subtract_fwd a y) b (Subtract_bwd_1 g a b).
Proof. vjp. Qed.
Lemma Multiply_vjp_0 : forall g a b, is_derive (fun x => g * Multiply_fwd x b) a (Multiply_bwd_0 g a b).
Proof. vjp. Qed.
Lemma Multiply_vjp_1 : forall g a b, is_derive (fun y => g * Multiply_fwd a y) b (Multiply_bwd_1 g a b).
Proof. vjp. Qed.
Lemma Divide_vjp_0 : forall g a b, b <> 0 -> is_derive (fun x => g * Divide_fwd x b) a (Divide_bwd_0 g a b).
Proof. vjp. Qed.
Lemma Divide_vjp_1 : forall g a b, b <> 0 -> is_derive (fun y => g * Divide_fwd a y) b (Divide_bwd_1 g a b).
Proof. vjp. Qed.
Lemma Reciprocal_vjp_0 : forall g a, a <> 0 -> is_derive (fun x => g * Reciprocal_fwd x) a (Reciprocal_bwd_0 g a).
Proof. vjp. Qed.
Lemma Square_vjp_0 : forall g a, is_derive (fun x => g * Square_fwd x) a (Square_bwd_0 g a).
Proof. vjp. Qed.
Lemma Positive_vjp_0 : forall g a, is_derive (fun x => g * Positive_fwd x) a (Positive_bwd_0 g a).
Proof. vjp. Qed.
Lemma Negative_vjp_0 : forall g a, is_derive (fun x => g * Negative_fwd x) a (Negative_bwd_0 g a).
Proof. vjp. Qed.

(* ------------------------------------------------------------------------------------------------------------------------------ *)
(* exp / log                                                                                                                      *)
(* ------------------------------------------------------------------------------------------------------------------------------ *)
Lemma Exp_vjp_0 : forall g a, is_derive (fun x => g * Exp_fwd x) a (Exp_bwd_0 g a).
Proof. vjp. Qed.
Lemma Exp2_vjp_0 : forall g a, is_derive (fun x => g * Exp2_fwd x) a (Exp2_bwd_0 g a).
Proof. vjp. Qed.
Lemma Expm1_vjp_0 : forall g a, is_derive (fun x => g * Expm1_fwd x) a (Expm1_bwd_0 g a).
Proof. vjp. Qed.
Lemma Logaddexp_vjp_0 : forall g a b, is_derive (fun x => g * Logaddexp_fwd x b) a (Logaddexp_bwd_0 g a b).
Proof. vjp. Qed.
Lemma Logaddexp_vjp_1 : forall g a b, is_derive (fun y => g * Logaddexp_fwd a y) b (Logaddexp_bwd_1 g a b).
Proof. vjp. Qed.
Lemma Logaddexp2_vjp_0 : forall g a b, is_derive (fun x => g * Logaddexp2_fwd x b) a (Logaddexp2_bwd_0 g a b).
Proof. vjp. Qed.
Lemma Logaddexp2_vjp_1 : forall g a b, is_derive (fun y => g * Logaddexp2_fwd a y) b (Logaddexp2_bwd_1 g a b).
Proof. vjp. Qed.
Lemma Log_vjp_0 : forall g a, 0 < a -> is_derive (fun x => g * Log_fwd x) a (Log_bwd_0 g a).
Proof. vjp. Qed.
Lemma Log2_vjp_0 : forall g a, 0 < a -> is_derive (fun x => g * Log2_fwd x) a (Log2_bwd_0 g a).
Proof. vjp. Qed.
Lemma Log10_vjp_0 : forall g a, 0 < a -> is_derive (fun x => g * Log10_fwd x) a (Log10_bwd_0 g a).
Proof. vjp. Qed.
Lemma Log1p_vjp_0 : forall g a, -1 < a -> is_derive (fun x => g * Log1p_fwd x) a (Log1p_bwd_0 g a).
Proof. vjp. Qed.

(* ------------------------------------------------------------------------------------------------------------------------------ *)
(* trigonometric                                                                                                                  *)
(* ------------------------------------------------------------------------------------------------------------------------------ *)
Lemma Sin_vjp_0 : forall g a, is_derive (fun x => g * Sin_fwd x) a (Sin_bwd_0 g a).
Proof. vjp. Qed.
Lemma Cos_vjp_0 : forall g a, is_derive (fun x => g * Cos_fwd x) a (Cos_bwd_0 g a).
Proof. vjp. Qed.
Lemma Tan_vjp_0 : forall g a, cos a <> 0 -> is_derive (fun x => g * Tan_fwd x) a (Tan_bwd_0 g a).
Proof. vjp. Qed.
Lemma Csc_vjp_0 : forall g a, sin a <> 0 -> is_derive (fun x => g * Csc_fwd x) a (Csc_bwd_0 g a).
Proof. vjp. Qed.
Lemma Sec_vjp_0 : forall g a, cos a <> 0 -> is_derive (fun x => g * Sec_fwd x) a (Sec_bwd_0 g a).
Proof. vjp. Qed.
Lemma Cot_vjp_0 : forall g a, sin a <> 0 -> cos a <> 0 -> is_derive (fun x => g * Cot_fwd x) a (Cot_bwd_0 g a).
Proof. vjp. Qed.

(* ------------------------------------------------------------------------------------------------------------------------------ *)
(* hyperbolic                                                                                                                     *)
(* ------------------------------------------------------------------------------------------------------------------------------ *)
Lemma Sinh_vjp_0 : forall g a, is_derive (fun x => g * Sinh_fwd x) a (Sinh_bwd_0 g a).
Proof. vjp. Qed.
Lemma Cosh_vjp_0 : forall g a, is_derive (fun x => g * Cosh_fwd x) a (Cosh_bwd_0 g a).
Proof. vjp. Qed.
Lemma Tanh_vjp_0 : forall g a, is_derive (fun x => g * Tanh_fwd x) a (Tanh_bwd_0 g a).
Proof. vjp. Qed.
Lemma Csch_vjp_0 : forall g a, a <> 0 -> is_derive (fun x => g * Csch_fwd x) a (Csch_bwd_0 g a).
Proof. vjp. Qed.
Lemma Sech_vjp_0 : forall g a, is_derive (fun x => g * Sech_fwd x) a (Sech_bwd_0 g a).
Proof. vjp. Qed.
Lemma Coth_vjp_0 : forall g a, a <> 0 -> is_derive (fun x => g * Coth_fwd x) a (Coth_bwd_0 g a).
Proof. vjp. Qed.

(* ------------------------------------------------------------------------------------------------------------------------------ *)
(* activations, abs, sqrt                                                                                                         *)
(* ------------------------------------------------------------------------------------------------------------------------------ *)
Lemma Sigmoid_vjp_0 : forall g a, is_derive (fun x => g * Sigmoid_fwd x) a (Sigmoid_bwd_0 g a).
Proof. vjp. Qed.
Lemma ELU_vjp_0 : forall g alpha x, x <> 0 -> is_derive (fun t => g * ELU_fwd alpha t) x (ELU_bwd_0 g alpha x).
Proof. intros g alpha x H. vjp_pw x H. Qed.
Lemma SELU_vjp_0 : forall g x, x <> 0 -> is_derive (fun t => g * SELU_fwd t) x (SELU_bwd_0 g x).
Proof. intros g x H. vjp_pw x H. Qed.
Lemma ReLu_vjp_0 : forall g a, a <> 0 -> is_derive (fun x => g * ReLu_fwd x) a (ReLu_bwd_0 g a).
Proof. intros g a H. vjp_pw a H. Qed.
Lemma Abs_vjp_0 : forall g a, a <> 0 -> is_derive (fun x => g * Abs_fwd x) a (Abs_bwd_0 g a).
Proof. intros g a H. vjp_pw a H. Qed.
Lemma Abs_conv_0 : forall g, Abs_bwd_0 g 0 = 0.
Proof. intros. autounfold with vjp. decide_ifs; ring. Qed.
Lemma Sqrt_vjp_0 : forall g a, 0 < a -> is_derive (fun x => g * Sqrt_fwd x) a (Sqrt_bwd_0 g a).
Proof. vjp. Qed.
