(* Task I: VJP theorems for three losses (multiclass hinge, margin ranking, focal), over the definitions at the end of Model/VecOps.v.
   Self-contained (does not depend on Proofs/VecP, VecP2: only on Model.VecOps).  No axioms beyond those of Reals / Coquelicot. *)
From Coq Require Import Reals List Lra Lia.
From Coquelicot Require Import Coquelicot.
From MG Require Import Model.VecOps.
Import ListNotations.
Open Scope R_scope.

(* ------------------------------------------------------------------------------------------------------------------------------ *)
(* structural facts about upd (same statements as in VecP.v, re-proved here to stay independent of its .vo)                        *)
(* ------------------------------------------------------------------------------------------------------------------------------ *)
Lemma nth_upd_same3 : forall l i t, (i < length l)%nat -> nth i (upd l i t) 0 = t.
Proof. induction l as [|x l IH]; intros [|i] t H; simpl in *; try lia; auto. apply IH; lia. Qed.

Lemma nth_upd_other3 : forall l i j t, i <> j -> nth j (upd l i t) 0 = nth j l 0.
Proof.
  induction l as [|x l IH]; intros [|i] [|j] t H; simpl; try reflexivity; try congruence.
  apply IH; congruence.
Qed.

(* ------------------------------------------------------------------------------------------------------------------------------ *)
(* relu0 away from its kink                                                                                                       *)
(* ------------------------------------------------------------------------------------------------------------------------------ *)
Lemma loc_lt3 (a c : R) : a < c -> locally a (fun t => t < c).
Proof. apply (open_lt c). Qed.
Lemma loc_gt3 (a c : R) : c < a -> locally a (fun t => c < t).
Proof. apply (open_gt c). Qed.

Lemma relu0_derive : forall m, m <> 0 -> is_derive relu0 m (step0 m).
Proof.
  intros m Hm. unfold step0.
  destruct (Rlt_dec 0 m) as [Hp|Hn].
  - apply (is_derive_ext_loc (fun t => t)).
    + generalize (loc_gt3 m 0 Hp). apply filter_imp. intros t Ht. unfold relu0.
      destruct (Rlt_dec 0 t); [reflexivity|lra].
    + auto_derive; [exact I|ring].
  - assert (Hlt : m < 0) by lra.
    apply (is_derive_ext_loc (fun _ => 0)).
    + generalize (loc_lt3 m 0 Hlt). apply filter_imp. intros t Ht. unfold relu0.
      destruct (Rlt_dec 0 t); [lra|reflexivity].
    + auto_derive; [exact I|ring].
Qed.

Lemma relu0_comp : forall (f : R -> R) x df, is_derive f x df -> f x <> 0 ->
  is_derive (fun t => relu0 (f t)) x (df * step0 (f x)).
Proof.
  intros f x df Hf Hx.
  exact (is_derive_comp relu0 f x (step0 (f x)) df (relu0_derive _ Hx) Hf).
Qed.

Lemma derive_plus_R : forall (f k : R -> R) x df dk, is_derive f x df -> is_derive k x dk ->
  is_derive (fun t => f t + k t) x (df + dk).
Proof. intros f k x df dk Hf Hk. exact (is_derive_plus f k x df dk Hf Hk). Qed.

Lemma derive_const_R : forall (c x : R), is_derive (fun _ : R => c) x 0.
Proof. intros c x. auto_derive; [exact I|ring]. Qed.

(* ------------------------------------------------------------------------------------------------------------------------------ *)
(* multiclass hinge                                                                                                                *)
(* ------------------------------------------------------------------------------------------------------------------------------ *)

(* (a) the label score ly is a constant; element i of the (sub)lane moves; j is the global index of the head of the sublane *)
Lemma hinge_sum_derive_elem : forall h ly y l i j, (i < length l)%nat ->
  ((j + i)%nat <> y -> nth i l 0 - ly + h <> 0) ->
  is_derive (fun t => hinge_sum h ly y j (upd l i t)) (nth i l 0)
            (if Nat.eqb (j + i) y then 0 else step0 (nth i l 0 - ly + h)).
Proof.
  intros h ly y. induction l as [|x l IH]; intros [|i] j Hi Hnz; simpl in Hi; try lia.
  - (* i = 0 *)
    simpl upd. simpl nth. rewrite Nat.add_0_r in *. cbn [hinge_sum].
    destruct (Nat.eqb j y) eqn:E.
    + apply derive_const_R.
    + apply Nat.eqb_neq in E. specialize (Hnz E).
      replace (step0 (x - ly + h)) with (1 * step0 (x - ly + h) + 0) by ring.
      apply derive_plus_R; [|apply derive_const_R].
      apply (relu0_comp (fun t => t - ly + h) x 1); [|exact Hnz].
      auto_derive; [exact I|ring].
  - (* i = S i *)
    simpl upd. simpl nth. cbn [hinge_sum].
    replace (j + S i)%nat with (S j + i)%nat in * by lia.
    match goal with |- is_derive _ _ ?d => replace d with (0 + d) by ring end.
    apply derive_plus_R; [apply derive_const_R|].
    apply IH; [lia|exact Hnz].
Qed.

(* (b) the lane is constant; the label score moves *)
Lemma hinge_sum_derive_label : forall h y l j ly0,
  (forall k, (k < length l)%nat -> (j + k)%nat <> y -> nth k l 0 - ly0 + h <> 0) ->
  is_derive (fun t => hinge_sum h t y j l) ly0 (- hinge_count h ly0 y j l).
Proof.
  intros h y. induction l as [|x l IH]; intros j ly0 Hnz.
  - simpl. replace (- 0) with 0 by ring. apply derive_const_R.
  - cbn [hinge_sum hinge_count].
    match goal with |- is_derive _ _ (- (?a + ?b)) => replace (- (a + b)) with (- a + - b) by ring end.
    apply derive_plus_R.
    + destruct (Nat.eqb j y) eqn:E.
      * replace (- 0) with 0 by ring. apply derive_const_R.
      * apply Nat.eqb_neq in E.
        assert (H0 : x - ly0 + h <> 0).
        { apply (Hnz 0%nat); [simpl; lia | rewrite Nat.add_0_r; exact E]. }
        replace (- step0 (x - ly0 + h)) with (-1 * step0 (x - ly0 + h)) by ring.
        apply (relu0_comp (fun t => x - t + h) ly0 (-1)); [|exact H0].
        auto_derive; [exact I|ring].
    + apply IH. intros k Hk Hjk.
      apply (Hnz (S k)); [simpl; lia | lia].
Qed.

(* (c) replacing the element at the label's own position does not change the sum (that term is masked) *)
Lemma hinge_sum_upd_label : forall h ly y l i j t, (j + i)%nat = y ->
  hinge_sum h ly y j (upd l i t) = hinge_sum h ly y j l.
Proof.
  intros h ly y. induction l as [|x l IH]; intros [|i] j t E; simpl; try reflexivity.
  - rewrite Nat.add_0_r in E. subst j. rewrite Nat.eqb_refl. reflexivity.
  - f_equal. apply IH. lia.
Qed.

Lemma hinge_vjp : forall g c h y l i, (i < length l)%nat -> (y < length l)%nat ->
    (forall j, (j < length l)%nat -> j <> y -> nth j l 0 - nth y l 0 + h <> 0) ->
    is_derive (fun t => g * vhinge c h y (upd l i t)) (nth i l 0) (hinge_bwd g c h y l i).
Proof.
  intros g c h y l i Hi Hy Hnz. unfold vhinge, hinge_bwd.
  destruct (Nat.eqb i y) eqn:E.
  - apply Nat.eqb_eq in E. subst i.
    apply (is_derive_ext (fun t => g * (c * hinge_sum h t y 0 l))).
    { intros t. rewrite nth_upd_same3 by exact Hy. rewrite hinge_sum_upd_label by lia. reflexivity. }
    apply is_derive_scal. apply is_derive_scal.
    apply hinge_sum_derive_label. intros k Hk Hky. apply Hnz; [exact Hk|lia].
  - apply Nat.eqb_neq in E.
    apply (is_derive_ext (fun t => g * (c * hinge_sum h (nth y l 0) y 0 (upd l i t)))).
    { intros t. rewrite nth_upd_other3 by exact E. reflexivity. }
    apply is_derive_scal. apply is_derive_scal.
    pose proof (hinge_sum_derive_elem h (nth y l 0) y l i 0 Hi) as D. simpl Nat.add in D.
    apply Nat.eqb_neq in E. rewrite E in D. apply D. intros _. apply Hnz; [exact Hi|].
    apply Nat.eqb_neq. exact E.
Qed.

(* stronger form for a non-label position: only that position's own margin has to be off the kink (and y may be any index) *)
Lemma hinge_vjp_nonlabel : forall g c h y l i, (i < length l)%nat -> i <> y ->
    nth i l 0 - nth y l 0 + h <> 0 ->
    is_derive (fun t => g * vhinge c h y (upd l i t)) (nth i l 0) (g * (c * step0 (nth i l 0 - nth y l 0 + h))).
Proof.
  intros g c h y l i Hi E Hnz. unfold vhinge.
  apply (is_derive_ext (fun t => g * (c * hinge_sum h (nth y l 0) y 0 (upd l i t)))).
  { intros t. rewrite nth_upd_other3 by exact E. reflexivity. }
  apply is_derive_scal. apply is_derive_scal.
  pose proof (hinge_sum_derive_elem h (nth y l 0) y l i 0 Hi) as D. simpl Nat.add in D.
  apply Nat.eqb_neq in E. rewrite E in D. apply D. intros _. exact Hnz.
Qed.


(* ------------------------------------------------------------------------------------------------------------------------------ *)
(* margin ranking                                                                                                                  *)
(* ------------------------------------------------------------------------------------------------------------------------------ *)
Lemma margin_a_vjp : forall g c m y a b, m - y * (a - b) <> 0 ->
    is_derive (fun t => g * vmargin c m y t b) a (margin_bwd_a g c m y a b).
Proof.
  intros g c m y a b H. unfold vmargin, margin_bwd_a.
  replace (g * (- y * (c * step0 (m - y * (a - b))))) with (g * (c * (- y * step0 (m - y * (a - b))))) by ring.
  apply is_derive_scal. apply is_derive_scal.
  apply (relu0_comp (fun t => m - y * (t - b)) a (- y)); [|exact H].
  auto_derive; [exact I|ring].
Qed.

Lemma margin_b_vjp : forall g c m y a b, m - y * (a - b) <> 0 ->
    is_derive (fun t => g * vmargin c m y a t) b (margin_bwd_b g c m y a b).
Proof.
  intros g c m y a b H. unfold vmargin, margin_bwd_b.
  replace (g * (y * (c * step0 (m - y * (a - b))))) with (g * (c * (y * step0 (m - y * (a - b))))) by ring.
  apply is_derive_scal. apply is_derive_scal.
  apply (relu0_comp (fun t => m - y * (a - t)) b y); [|exact H].
  auto_derive; [exact I|ring].
Qed.

(* ------------------------------------------------------------------------------------------------------------------------------ *)
(* focal loss                                                                                                                      *)
(* ------------------------------------------------------------------------------------------------------------------------------ *)
Lemma Rpower_pred : forall x a, 0 < x -> Rpower x (a - 1) = Rpower x a / x.
Proof.
  intros x a Hx. unfold Rminus. rewrite Rpower_plus, Rpower_Ropp, Rpower_1 by exact Hx. reflexivity.
Qed.

Lemma focal_vjp : forall g alpha gamma p, 0 < p -> p < 1 ->
    is_derive (fun t => g * vfocal alpha gamma t) p (focal_bwd g alpha gamma p).
Proof.
  intros g alpha gamma p Hp0 Hp1. unfold vfocal, focal_bwd.
  assert (H1p : 0 < 1 - p) by lra.
  destruct (Req_EM_T gamma 0) as [E|E].
  - subst gamma.
    apply (is_derive_ext_loc (fun t => g * - (alpha * ln t))).
    + generalize (loc_lt3 p 1 Hp1). apply filter_imp. intros t Ht.
      rewrite Rpower_O by lra. f_equal. ring.
    + auto_derive; [exact Hp0|]. field. lra.
  - rewrite Rpower_pred by exact H1p.
    unfold Rpower. auto_derive; [split; [exact H1p|split; [exact Hp0|exact I]]|].
    replace (1 + - p) with (1 - p) by ring.
    field. split; lra.
Qed.

Print Assumptions hinge_vjp.
Print Assumptions margin_a_vjp.
Print Assumptions margin_b_vjp.
Print Assumptions focal_vjp.
