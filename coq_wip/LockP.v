(* C08: invariants of the memory-guard lock automaton (model: MG.Model.LockMgr).
   All theorems closed by Qed; no axioms. *)
From Coq Require Import List Arith Bool Lia.
Import ListNotations.
From MG Require Import Model.LockMgr.

Set Implicit Arguments.

(* ================================================================== *)
(** * 0. Association lists, [upd_arr]                                  *)
(* ================================================================== *)

Lemma aget_adel_eq {V} k (l : list (nat * V)) : aget k (adel k l) = None.
Proof.
  induction l as [|[k' v] t IH]; simpl; auto.
  destruct (Nat.eqb k k') eqn:E; auto. simpl. rewrite E. auto.
Qed.

Lemma aget_adel_neq {V} k k' (l : list (nat * V)) : k <> k' -> aget k (adel k' l) = aget k l.
Proof.
  intros Hne. induction l as [|[k2 v] t IH]; simpl; auto.
  destruct (Nat.eqb k' k2) eqn:E.
  - apply Nat.eqb_eq in E. subst k2.
    destruct (Nat.eqb k k') eqn:E2; auto. apply Nat.eqb_eq in E2. congruence.
  - simpl. destruct (Nat.eqb k k2); auto.
Qed.

Lemma aget_aset_eq {V} k (v : V) l : aget k (aset k v l) = Some v.
Proof. unfold aset. simpl. rewrite Nat.eqb_refl. reflexivity. Qed.

Lemma aget_aset_neq {V} k k' (v : V) l : k <> k' -> aget k (aset k' v l) = aget k l.
Proof.
  intros Hne. unfold aset. simpl.
  destruct (Nat.eqb k k') eqn:E. { apply Nat.eqb_eq in E. congruence. }
  apply aget_adel_neq; auto.
Qed.

Lemma cget_aset_eq k v l : cget k (aset k v l) = v.
Proof. unfold cget. rewrite aget_aset_eq. reflexivity. Qed.
Lemma cget_aset_neq k k' v l : k <> k' -> cget k (aset k' v l) = cget k l.
Proof. intros. unfold cget. rewrite aget_aset_neq; auto. Qed.
Lemma cget_adel_eq k l : cget k (adel k l) = 0.
Proof. unfold cget. rewrite aget_adel_eq. reflexivity. Qed.
Lemma cget_adel_neq k k' l : k <> k' -> cget k (adel k' l) = cget k l.
Proof. intros. unfold cget. rewrite aget_adel_neq; auto. Qed.

Lemma aget_nil_all {V} (l : list (nat * V)) : l = [] -> forall k, aget k l = None.
Proof. intros -> k. reflexivity. Qed.

Lemma length_upd_arr l i f : length (upd_arr l i f) = length l.
Proof. revert i. induction l as [|a t IH]; intros [|i]; simpl; auto. Qed.

Lemma nth_upd_arr_eq l i f : i < length l -> nth i (upd_arr l i f) dead = f (nth i l dead).
Proof.
  revert i. induction l as [|a t IH]; intros [|i] H; simpl in *; try lia; auto.
  apply IH. lia.
Qed.

Lemma nth_upd_arr_neq l i j f : j <> i -> nth j (upd_arr l i f) dead = nth j l dead.
Proof.
  revert i j. induction l as [|a t IH]; intros [|i] [|j] H; simpl in *; auto; try congruence.
Qed.

Lemma upd_arr_id l i f : f (nth i l dead) = nth i l dead -> upd_arr l i f = l.
Proof.
  revert i. induction l as [|a t IH]; intros [|i] H; simpl in *; try reflexivity.
  - rewrite H. reflexivity.
  - rewrite IH; auto.
Qed.

Lemma existsb_eqb_In i l : existsb (Nat.eqb i) l = true <-> In i l.
Proof.
  rewrite existsb_exists. split.
  - intros [x [Hx E]]. apply Nat.eqb_eq in E. subst. auto.
  - intros H. exists i. split; auto. apply Nat.eqb_refl.
Qed.

Lemma existsb_eqb_nIn i l : existsb (Nat.eqb i) l = false <-> ~ In i l.
Proof.
  rewrite <- existsb_eqb_In. destruct (existsb (Nat.eqb i) l); split; intros; try congruence.
Qed.

(* ================================================================== *)
(** * 1. Definitions: well-formed events, counting                    *)
(* ================================================================== *)

Definition cnt_in (i : nat) (O : list (list nat)) : nat :=
  length (filter (fun l => existsb (Nat.eqb i) l) O).

Definition ev_ok (s : lstate) (e : event) : Prop :=
  let n := length (arrs s) in
  match e with
  | ENew key _ => key = n
  | EView src key => key = n /\ src < n /\ a_alive (get s src) = true
  | ELock _ _ => False
  | ERelease _ => False
  | EOp inputs out =>
      (forall i, In i inputs -> i < n /\ a_alive (get s i) = true) /\
      match out with
      | None => True
      | Some (None, key) => key = n
      | Some (Some src, key) => key = n /\ In src inputs
      end
  | EOpDie k => k < length (ops s)
  | EDie i => a_alive (get s i) = true /\
              (forall l, In l (ops s) -> ~ In i l) /\
              (forall j, a_alive (get s j) = true -> a_base (get s j) <> Some i)
  end.

Fixpoint wf_from (s : lstate) (es : list event) : Prop :=
  match es with
  | [] => True
  | e :: t => ev_ok s e /\ wf_from (step s e) t
  end.
Definition wf_events (es : list event) : Prop := wf_from l_init es.

(* ================================================================== *)
(** * 2. The invariant                                                *)
(* ================================================================== *)

Notation g A i := (nth i A dead) (only parsing).
Definition tb (T : list (nat * nat)) (i : nat) : bool :=
  match aget i T with Some _ => true | None => false end.
Definition inw (W : list (nat * list nat)) (b v : nat) : bool :=
  match aget b W with Some l => existsb (Nat.eqb v) l | None => false end.

Lemma tb_aset_eq i v T : tb (aset i v T) i = true.
Proof. unfold tb. rewrite aget_aset_eq. reflexivity. Qed.
Lemma tb_aset_neq i k v T : k <> i -> tb (aset i v T) k = tb T k.
Proof. intros. unfold tb. rewrite aget_aset_neq; auto. Qed.
Lemma tb_adel_eq i T : tb (adel i T) i = false.
Proof. unfold tb. rewrite aget_adel_eq. reflexivity. Qed.
Lemma tb_adel_neq i k T : k <> i -> tb (adel i T) k = tb T k.
Proof. intros. unfold tb. rewrite aget_adel_neq; auto. Qed.

(* same array record except for the writeable flag *)
Definition sbw (a a' : arr) : Prop :=
  a_key a' = a_key a /\ a_base a' = a_base a /\ a_alive a' = a_alive a /\
  a_orig a' = a_orig a /\ a_used a' = a_used a.
Definition sbwl (A A' : list arr) : Prop :=
  length A' = length A /\ forall j, sbw (g A j) (g A' j).

Lemma sbw_refl a : sbw a a. Proof. repeat split. Qed.
Lemma sbw_trans a b c : sbw a b -> sbw b c -> sbw a c.
Proof. unfold sbw. intros (?&?&?&?&?) (?&?&?&?&?). repeat split; congruence. Qed.
Lemma sbw_set_wr w a : sbw a (set_wr w a). Proof. repeat split. Qed.
Lemma sbwl_refl A : sbwl A A. Proof. split; auto. intros; apply sbw_refl. Qed.
Lemma sbwl_trans A B C : sbwl A B -> sbwl B C -> sbwl A C.
Proof. intros [H1 H2] [H3 H4]. split; [congruence|]. intros j. eapply sbw_trans; eauto. Qed.
Lemma sbwl_upd A i w : sbwl A (upd_arr A i (set_wr w)).
Proof.
  split. apply length_upd_arr. intros j.
  destruct (Nat.eq_dec j i) as [->|Hne].
  - destruct (lt_dec i (length A)).
    + rewrite nth_upd_arr_eq; auto. apply sbw_set_wr.
    + rewrite !nth_overflow; try rewrite length_upd_arr; try lia. apply sbw_refl.
  - rewrite nth_upd_arr_neq; auto. apply sbw_refl.
Qed.

Lemma g_overflow A i : length A <= i -> g A i = dead.
Proof. intros. apply nth_overflow; auto. Qed.
Lemma alive_lt A i : a_alive (g A i) = true -> i < length A.
Proof. intros H. destruct (lt_dec i (length A)); auto. rewrite g_overflow in H; [discriminate|lia]. Qed.
Lemma orig_lt A i : a_orig (g A i) = true -> i < length A.
Proof. intros H. destruct (lt_dec i (length A)); auto. rewrite g_overflow in H; [discriminate|lia]. Qed.
Lemma base_lt A i b : a_base (g A i) = Some b -> i < length A.
Proof. intros H. destruct (lt_dec i (length A)); auto. rewrite g_overflow in H; [discriminate|lia]. Qed.
Lemma g_upd_eq A i f : i < length A -> g (upd_arr A i f) i = f (g A i).
Proof. apply nth_upd_arr_eq. Qed.
Lemma g_upd_neq A i j f : j <> i -> g (upd_arr A i f) j = g A j.
Proof. apply nth_upd_arr_neq. Qed.

(* structural part *)
Record GA (A : list arr) : Prop := {
  gK : forall i, i < length A -> a_key (g A i) = i;
  gBase : forall i b, a_base (g A i) = Some b ->
          b < i /\ a_base (g A b) = None /\ a_orig (g A b) = a_orig (g A i) /\
          (a_alive (g A i) = true -> a_alive (g A b) = true) }.
Definition GT (n : nat) (T : list (nat * nat)) : Prop :=
  forall k j, aget k T = Some j -> j = k /\ k < n.
Definition GC (n : nat) (C : list (nat * nat)) : Prop :=
  forall k, n <= k -> cget k C = 0.

(* per-index part, for arrays whose memory was originally writeable *)
Record LocT (A : list arr) (C T : list (nat * nat)) (W : list (nat * list nat)) (c : nat -> nat) (j : nat) : Prop := {
  lA : cget j C = c j;
  l1 : 0 < cget j C -> tb T j = true;
  l2 : tb T j = true -> a_wr (g A j) = false;
  l3 : a_base (g A j) = None -> tb T j = false -> a_wr (g A j) = true;
  l4 : a_base (g A j) = None -> tb T j = true -> 0 < cget j C;
  l5 : forall b, a_base (g A j) = Some b -> tb T j = true -> cget j C = 0 ->
                 inw W b j = true /\ tb T b = true;
  l6 : a_base (g A j) <> None -> a_alive (g A j) = true -> a_used (g A j) = true ->
       tb T j = false -> a_wr (g A j) = true }.

Record Loc A C T W (c : nat -> nat) (j : nat) : Prop := {
  lC : 0 < c j -> a_alive (g A j) = true;
  lRO : a_orig (g A j) = false -> a_wr (g A j) = false /\ tb T j = false /\ cget j C = 0;
  lT : a_orig (g A j) = true -> LocT A C T W c j }.

Record Inv A C T W (c : nat -> nat) : Prop := {
  iGA : GA A;
  iGT : GT (length A) T;
  iGC : GC (length A) C;
  iLt : forall j, 0 < c j -> j < length A;
  iLoc : forall j, j < length A -> Loc A C T W c j }.

Definition InvS (s : lstate) (c : nat -> nat) : Prop :=
  Inv (arrs s) (counter s) (tracker s) (waiting s) c.

Definition upd (c : nat -> nat) (i v : nat) : nat -> nat := fun j => if Nat.eqb j i then v else c j.
Lemma upd_eq c i v : upd c i v i = v. Proof. unfold upd. rewrite Nat.eqb_refl. auto. Qed.
Lemma upd_neq c i v j : j <> i -> upd c i v j = c j.
Proof. intros. unfold upd. destruct (Nat.eqb j i) eqn:E; auto. apply Nat.eqb_eq in E. congruence. Qed.

Lemma GA_sbwl A A' : sbwl A A' -> GA A -> GA A'.
Proof.
  intros [HL HS] [HK HB]. split.
  - intros i Hi. destruct (HS i) as (E&_). rewrite E. apply HK. lia.
  - intros i b Hb.
    destruct (HS i) as (_&Eb&Ea&Eo&_). destruct (HS b) as (_&Eb'&Ea'&Eo'&_).
    rewrite Eb in Hb. destruct (HB _ _ Hb) as (H1&H2&H3&H4).
    rewrite Eb', Eo', Eo, Ea, Ea'. auto.
Qed.

Lemma LocT_ext A C T W c c' j : c j = c' j -> LocT A C T W c j -> LocT A C T W c' j.
Proof. intros E [ ]. split; auto. congruence. Qed.

Lemma Inv_ext A C T W c c' : (forall j, c j = c' j) -> Inv A C T W c -> Inv A C T W c'.
Proof.
  intros E [H1 H2 H3 H4 H5]. split; auto.
  - intros j Hj. apply H4. rewrite E. auto.
  - intros j Hj. destruct (H5 j Hj) as [a b d]. split; auto.
    + rewrite <- E. auto.
    + intros Ho. eapply LocT_ext; eauto.
Qed.

(* frame: nothing relevant to j changed *)
Lemma Loc_frame A C T W c A' C' T' W' c' j :
  Loc A C T W c j ->
  g A' j = g A j -> cget j C' = cget j C -> tb T' j = tb T j -> c' j = c j ->
  (forall b, a_orig (g A j) = true -> a_base (g A j) = Some b -> tb T j = true -> cget j C = 0 ->
             inw W b j = true -> tb T b = true -> inw W' b j = true /\ tb T' b = true) ->
  Loc A' C' T' W' c' j.
Proof.
  intros [hC hRO hT] Eg Ec Et Ecc H5. split.
  - rewrite Eg, Ecc. auto.
  - rewrite Eg, Ec, Et. auto.
  - rewrite Eg. intros Ho. destruct (hT Ho) as [a1 a2 a3 a4 a5 a6 a7].
    split; rewrite ?Eg, ?Ec, ?Et, ?Ecc; auto.
    intros b Hb Ht Hc. destruct (a6 b Hb Ht Hc). apply H5; auto.
Qed.

(* ================================================================== *)
(** * 3. [lock]                                                       *)
(* ================================================================== *)
Unset Implicit Arguments.

Definition mk A C T W O : lstate := {| arrs := A; counter := C; tracker := T; waiting := W; ops := O |}.

Lemma tracked_eq s i : GA (arrs s) -> GT (length (arrs s)) (tracker s) -> i < length (arrs s) ->
  tracked s i = tb (tracker s) i && a_alive (get s i).
Proof.
  intros HA HT Hi. unfold tracked, get. rewrite (gK HA Hi).
  unfold tb. destruct (aget i (tracker s)) eqn:E; auto.
  destruct (HT _ _ E) as [-> _]. reflexivity.
Qed.

Lemma lock_eq_ro s c i : InvS s c -> i < length (arrs s) -> a_orig (get s i) = false ->
  lock s i false = s.
Proof.
  intros HI Hi Ho. unfold get in Ho.
  destruct (iLoc HI Hi) as [_ hRO _]. destruct (hRO Ho) as (Hw & Ht & Hc).
  unfold lock. cbv zeta. rewrite (tracked_eq s i (iGA HI) (iGT HI) Hi). rewrite Ht.
  unfold get. rewrite Hw. simpl.
  destruct (a_base (g (arrs s) i)) as [b|] eqn:Hb; auto.
  destruct (gBase (iGA HI) _ Hb) as (Hbi & _ & Hob & _).
  assert (Hb' : b < length (arrs s)) by lia.
  rewrite (tracked_eq s b (iGA HI) (iGT HI) Hb').
  destruct (iLoc HI Hb') as [_ hRO' _]. rewrite Ho in Hob. destruct (hRO' Hob) as (_ & Ht' & _).
  rewrite Ht'. reflexivity.
Qed.

Lemma lock_eq_tracked s i : GA (arrs s) -> GT (length (arrs s)) (tracker s) -> i < length (arrs s) ->
  a_alive (get s i) = true -> tb (tracker s) i = true ->
  lock s i false = mk (upd_arr (arrs s) i (set_wr false)) (aset i (S (cget i (counter s))) (counter s))
                      (tracker s) (waiting s) (ops s).
Proof.
  intros HA HT Hi Hal Ht. unfold lock. cbv zeta. rewrite (tracked_eq s i HA HT Hi). rewrite Ht, Hal.
  unfold get. rewrite (gK HA Hi). reflexivity.
Qed.

Lemma lock_eq_fresh s i : GA (arrs s) -> GT (length (arrs s)) (tracker s) -> i < length (arrs s) ->
  tb (tracker s) i = false ->
  (a_wr (get s i) = true \/ exists b, a_base (get s i) = Some b /\ tracked s b = true) ->
  lock s i false = mk (upd_arr (arrs s) i (set_wr false)) (aset i 1 (counter s))
                      (aset i i (tracker s)) (waiting s) (ops s).
Proof.
  intros HA HT Hi Ht Hd. unfold lock. cbv zeta. rewrite (tracked_eq s i HA HT Hi). rewrite Ht.
  unfold get in *. rewrite (gK HA Hi). simpl.
  destruct Hd as [Hw | (b & Hb & Htb)].
  - rewrite Hw. reflexivity.
  - rewrite Hb. unfold get in Htb. rewrite Htb. simpl. rewrite andb_false_r. reflexivity.
Qed.

(* changing the ghost count of a natively read-only array *)
Lemma Inv_c_ro A C T W c i v : Inv A C T W c -> i < length A -> a_orig (g A i) = false ->
  a_alive (g A i) = true -> Inv A C T W (upd c i v).
Proof.
  intros HI Hi Ho Hal. destruct HI as [H1 H2 H3 H4 H5]. split; auto.
  - intros j Hj. destruct (Nat.eq_dec j i) as [->|Hne]; auto. rewrite upd_neq in Hj; auto.
  - intros j Hj. destruct (Nat.eq_dec j i) as [->|Hne].
    + destruct (H5 i Hi) as [a b d]. split; auto. intros Ho'. congruence.
    + eapply Loc_frame; eauto. apply upd_neq; auto.
Qed.

Lemma set_wr_same a : set_wr (a_wr a) a = a.
Proof. destruct a; reflexivity. Qed.

Lemma Inv_lock_tracked A C T W c i :
  Inv A C T W c -> i < length A -> a_alive (g A i) = true -> a_orig (g A i) = true ->
  tb T i = true ->
  Inv (upd_arr A i (set_wr false)) (aset i (S (cget i C)) C) T W (upd c i (S (c i))).
Proof.
  intros HI Hi Hal Ho Ht.
  destruct (iLoc HI Hi) as [hC hRO hT]. specialize (hT Ho). destruct hT as [a1 a2 a3 a4 a5 a6 a7].
  assert (EA : upd_arr A i (set_wr false) = A).
  { apply upd_arr_id. rewrite <- (a3 Ht). apply set_wr_same. }
  rewrite EA. destruct HI as [H1 H2 H3 H4 H5]. split; auto.
  - intros k Hk. rewrite cget_aset_neq; auto. lia.
  - intros j Hj. destruct (Nat.eq_dec j i) as [->|Hne]; auto. rewrite upd_neq in Hj; auto.
  - intros j Hj. destruct (Nat.eq_dec j i) as [->|Hne].
    + split.
      * auto.
      * intros; congruence.
      * intros _. split; rewrite ?cget_aset_eq, ?upd_eq; auto; try lia; try congruence.
    + eapply Loc_frame; eauto.
      * apply cget_aset_neq; auto.
      * apply upd_neq; auto.
Qed.

Lemma Inv_lock_fresh A C T W c i :
  Inv A C T W c -> i < length A -> a_alive (g A i) = true -> a_orig (g A i) = true ->
  tb T i = false ->
  Inv (upd_arr A i (set_wr false)) (aset i 1 C) (aset i i T) W (upd c i (S (c i))).
Proof.
  intros HI Hi Hal Ho Ht.
  destruct (iLoc HI Hi) as [hC hRO hT]. specialize (hT Ho). destruct hT as [a1 a2 a3 a4 a5 a6 a7].
  assert (Hc0 : cget i C = 0).
  { destruct (cget i C) eqn:E; auto. assert (tb T i = true) by (apply a2; lia). congruence. }
  assert (Hci : c i = 0) by congruence.
  destruct HI as [H1 H2 H3 H4 H5].
  assert (HS : sbwl A (upd_arr A i (set_wr false))) by apply sbwl_upd.
  split.
  - eapply GA_sbwl; eauto.
  - rewrite length_upd_arr. intros k j Hk. destruct (Nat.eq_dec k i) as [->|Hne].
    + rewrite aget_aset_eq in Hk. inversion Hk; subst; auto.
    + rewrite aget_aset_neq in Hk; auto.
  - rewrite length_upd_arr. intros k Hk. rewrite cget_aset_neq; auto. lia.
  - rewrite length_upd_arr. intros j Hj. destruct (Nat.eq_dec j i) as [->|Hne]; auto.
    rewrite upd_neq in Hj; auto.
  - rewrite length_upd_arr. intros j Hj. destruct (Nat.eq_dec j i) as [->|Hne].
    + split; rewrite ?g_upd_eq by auto; simpl.
      * auto.
      * intros; congruence.
      * intros _. split; rewrite ?g_upd_eq by auto; simpl;
          rewrite ?cget_aset_eq, ?upd_eq, ?tb_aset_eq; auto; intros; try lia; try congruence.
    + eapply Loc_frame; eauto.
      * apply g_upd_neq; auto.
      * apply cget_aset_neq; auto.
      * apply tb_aset_neq; auto.
      * apply upd_neq; auto.
      * intros b _ _ _ _ Hw Hb. split; auto.
        destruct (Nat.eq_dec b i) as [->|Hb']; [apply tb_aset_eq | rewrite tb_aset_neq; auto].
Qed.

Lemma lock_inv s c i :
  InvS s c -> i < length (arrs s) -> a_alive (get s i) = true ->
  (forall b, a_base (get s i) = Some b -> 0 < c b) ->
  InvS (lock s i false) (upd c i (S (c i))).
Proof.
  intros HI Hi Hal Hb. unfold get in *.
  destruct (a_orig (g (arrs s) i)) eqn:Ho.
  - destruct (tb (tracker s) i) eqn:Ht.
    + rewrite lock_eq_tracked; auto; try apply HI. unfold InvS, mk; simpl.
      apply Inv_lock_tracked; auto.
    + rewrite lock_eq_fresh; auto; try apply HI.
      * unfold InvS, mk; simpl. apply Inv_lock_fresh; auto.
      * destruct (iLoc HI Hi) as [hC hRO hT]. specialize (hT Ho).
        unfold get. destruct (a_base (g (arrs s) i)) as [b|] eqn:Hbase.
        -- right. exists b. split; auto.
           destruct (gBase (iGA HI) _ Hbase) as (Hbi & Hbb & Hob & Hab).
           assert (Hb' : b < length (arrs s)) by lia.
           rewrite (tracked_eq s b (iGA HI) (iGT HI) Hb'). unfold get. rewrite (Hab Hal), andb_true_r.
           destruct (iLoc HI Hb') as [hC' hRO' hT']. rewrite Ho in Hob. specialize (hT' Hob).
           apply (l1 hT'). rewrite (lA hT'). apply Hb. reflexivity.
        -- left. apply (l3 hT); auto.
  - erewrite lock_eq_ro; eauto. apply Inv_c_ro; auto.
Qed.

Lemma lock_ops s i f : ops (lock s i f) = ops s.
Proof.
  unfold lock. cbv zeta.
  destruct (negb (tracked s i) && _); auto.
  destruct (negb (tracked s i)); reflexivity.
Qed.

Lemma lock_sbwl s i f : sbwl (arrs s) (arrs (lock s i f)).
Proof.
  unfold lock. cbv zeta.
  destruct (negb (tracked s i) && _). apply sbwl_refl.
  destruct (negb (tracked s i)); simpl; apply sbwl_upd.
Qed.

(* ================================================================== *)
(** * 4. [wake_views]                                                 *)
(* ================================================================== *)

Definition pb (vs : list nat) (C : list (nat * nat)) (k : nat) : bool :=
  existsb (Nat.eqb k) vs && Nat.eqb (cget k C) 0.

Lemma pb_cons_pos v vs C k : Nat.ltb 0 (cget v C) = true -> pb (v :: vs) C k = pb vs C k.
Proof.
  intros H. apply Nat.ltb_lt in H. unfold pb. simpl.
  destruct (Nat.eqb k v) eqn:E; auto. apply Nat.eqb_eq in E. subst k.
  assert (Nat.eqb (cget v C) 0 = false) by (apply Nat.eqb_neq; lia).
  rewrite H0, !andb_false_r. reflexivity.
Qed.
Lemma pb_cons_neq v vs C k : k <> v -> pb (v :: vs) C k = pb vs C k.
Proof. intros H. unfold pb. simpl. apply Nat.eqb_neq in H. rewrite H. reflexivity. Qed.
Lemma pb_cons_eq v vs C : Nat.ltb 0 (cget v C) = false -> pb (v :: vs) C v = true.
Proof.
  intros H. apply Nat.ltb_ge in H. unfold pb. simpl. rewrite Nat.eqb_refl. simpl.
  apply Nat.eqb_eq. lia.
Qed.

Lemma wake_spec vs : forall A1 C1 T1 rest A2 T2 rest2,
  (forall k j, aget k T1 = Some j -> j = k) ->
  wake_views vs A1 C1 T1 rest = (A2, T2, rest2) ->
  sbwl A1 A2 /\
  (forall k, aget k T2 = if pb vs C1 k then None else aget k T1) /\
  (forall j, pb vs C1 j && tb T1 j = false -> g A2 j = g A1 j) /\
  (forall j, pb vs C1 j = true -> tb T1 j = true -> a_alive (g A1 j) = true -> a_wr (g A2 j) = true).
Proof.
  induction vs as [|v vs IH]; intros A1 C1 T1 rest A2 T2 rest2 HT HW; simpl in HW.
  - inversion HW; subst. split; [apply sbwl_refl|]. split; [|split]; auto.
    intros j H. discriminate.
  - destruct (Nat.ltb 0 (cget v C1)) eqn:Ec.
    { destruct (IH _ _ _ _ _ _ _ HT HW) as (Ha & Hb & Hc & Hd).
      split; [apply Ha|]. split; [|split]; intros k; rewrite (pb_cons_pos _ _ _ _ Ec); auto. }
    destruct (aget v T1) as [j0|] eqn:Ea.
    + assert (j0 = v) by (eapply HT; eauto). subst j0.
      assert (HT' : forall k j, aget k (adel v T1) = Some j -> j = k).
      { intros k j Hk. destruct (Nat.eq_dec k v) as [->|Hne].
        - rewrite aget_adel_eq in Hk. discriminate.
        - rewrite aget_adel_neq in Hk; eauto. }
      assert (Htv : tb T1 v = true) by (unfold tb; rewrite Ea; auto).
      destruct (a_alive (g A1 v)) eqn:Hal.
      * destruct (IH _ _ _ _ _ _ _ HT' HW) as (Ha & Hb & Hc & Hd).
        assert (Hv : v < length A1) by (apply alive_lt; auto).
        split; [|split; [|split]].
        -- eapply sbwl_trans; [apply sbwl_upd | apply Ha].
        -- intros k. rewrite Hb. destruct (Nat.eq_dec k v) as [->|Hne].
           ++ rewrite (pb_cons_eq _ _ _ Ec), aget_adel_eq. destruct (pb vs C1 v); auto.
           ++ rewrite pb_cons_neq, aget_adel_neq; auto.
        -- intros j Hj. destruct (Nat.eq_dec j v) as [->|Hne].
           ++ rewrite (pb_cons_eq _ _ _ Ec), Htv in Hj. discriminate.
           ++ rewrite pb_cons_neq in Hj; auto. rewrite Hc.
              ** apply g_upd_neq; auto.
              ** rewrite tb_adel_neq; auto.
        -- intros j Hp Ht Hl. destruct (Nat.eq_dec j v) as [->|Hne].
           ++ rewrite Hc. rewrite g_upd_eq; auto. rewrite tb_adel_eq, andb_false_r. auto.
           ++ rewrite pb_cons_neq in Hp; auto. apply Hd; auto.
              ** rewrite tb_adel_neq; auto.
              ** rewrite g_upd_neq; auto.
      * destruct (IH _ _ _ _ _ _ _ HT' HW) as (Ha & Hb & Hc & Hd).
        split; [|split; [|split]].
        -- apply Ha.
        -- intros k. rewrite Hb. destruct (Nat.eq_dec k v) as [->|Hne].
           ++ rewrite (pb_cons_eq _ _ _ Ec), aget_adel_eq. destruct (pb vs C1 v); auto.
           ++ rewrite pb_cons_neq, aget_adel_neq; auto.
        -- intros j Hj. destruct (Nat.eq_dec j v) as [->|Hne].
           ++ rewrite (pb_cons_eq _ _ _ Ec), Htv in Hj. discriminate.
           ++ rewrite pb_cons_neq in Hj; auto. apply Hc. rewrite tb_adel_neq; auto.
        -- intros j Hp Ht Hl. destruct (Nat.eq_dec j v) as [->|Hne].
           ++ congruence.
           ++ rewrite pb_cons_neq in Hp; auto. apply Hd; auto. rewrite tb_adel_neq; auto.
    + assert (Htv : tb T1 v = false) by (unfold tb; rewrite Ea; auto).
      destruct (IH _ _ _ _ _ _ _ HT HW) as (Ha & Hb & Hc & Hd).
      split; [|split; [|split]].
      -- apply Ha.
      -- intros k. rewrite Hb. destruct (Nat.eq_dec k v) as [->|Hne].
         ++ rewrite (pb_cons_eq _ _ _ Ec), Ea. destruct (pb vs C1 v); auto.
         ++ rewrite pb_cons_neq; auto.
      -- intros j Hj. destruct (Nat.eq_dec j v) as [->|Hne].
         ++ apply Hc. rewrite Htv, andb_false_r. auto.
         ++ rewrite pb_cons_neq in Hj; auto.
      -- intros j Hp Ht Hl. destruct (Nat.eq_dec j v) as [->|Hne].
         ++ congruence.
         ++ rewrite pb_cons_neq in Hp; auto.
Qed.

(* ================================================================== *)
(** * 5. [release]                                                    *)
(* ================================================================== *)

Definition wclear (T' : list (nat * nat)) (W : list (nat * list nat)) : list (nat * list nat) :=
  match T' with [] => [] | _ => W end.

Lemma release_eq_noop s i : GA (arrs s) -> i < length (arrs s) ->
  cget i (counter s) = 0 -> a_wr (get s i) = false -> release s i = s.
Proof.
  intros HA Hi Hc Hw. unfold release. cbv zeta. unfold get in *. rewrite (gK HA Hi). rewrite Hc. simpl.
  rewrite Hw. destruct (a_base (g (arrs s) i)); reflexivity.
Qed.

Lemma release_eq_dec s i m : GA (arrs s) -> i < length (arrs s) ->
  cget i (counter s) = S (S m) -> a_wr (get s i) = false ->
  release s i = mk (arrs s) (aset i (S m) (counter s)) (tracker s) (waiting s) (ops s).
Proof.
  intros HA Hi Hc Hw. unfold release. cbv zeta. unfold get in *. rewrite (gK HA Hi). rewrite Hc. simpl.
  rewrite Hw. destruct (a_base (g (arrs s) i)); reflexivity.
Qed.

Definition wadd (i : nat) (cur : list nat) : list nat :=
  if existsb (Nat.eqb i) cur then cur else cur ++ [i].
Definition wcur (b : nat) (W : list (nat * list nat)) : list nat :=
  match aget b W with Some l => l | None => [] end.

Lemma release_eq_wait s i b : GA (arrs s) -> i < length (arrs s) ->
  cget i (counter s) = 1 -> a_base (get s i) = Some b -> a_wr (get s b) = false ->
  release s i = mk (arrs s) (adel i (counter s)) (tracker s)
                   (aset b (wadd i (wcur b (waiting s))) (waiting s)) (ops s).
Proof.
  intros HA Hi Hc Hb Hw. unfold get in *.
  assert (Hbl : b < length (arrs s)) by (destruct (gBase HA _ Hb); lia).
  unfold release. cbv zeta. unfold get. rewrite (gK HA Hi). rewrite Hc. simpl.
  rewrite Hb. rewrite (gK HA Hbl). rewrite Hw. simpl. rewrite Hb.
  unfold wadd, wcur. reflexivity.
Qed.

Lemma release_eq_untrack_view s i b : GA (arrs s) -> i < length (arrs s) ->
  cget i (counter s) = 1 -> a_base (get s i) = Some b -> a_wr (get s b) = true ->
  release s i = mk (upd_arr (arrs s) i (set_wr true)) (adel i (counter s)) (adel i (tracker s))
                   (wclear (adel i (tracker s)) (waiting s)) (ops s).
Proof.
  intros HA Hi Hc Hb Hw. unfold get in *.
  unfold release. cbv zeta. unfold get. rewrite (gK HA Hi). rewrite Hc. simpl.
  rewrite Hb. rewrite Hw. simpl. rewrite nth_upd_arr_eq by auto. simpl. rewrite Hb. reflexivity.
Qed.

Lemma release_eq_owner s i : GA (arrs s) -> i < length (arrs s) ->
  cget i (counter s) = 1 -> a_base (get s i) = None ->
  release s i =
    let A1 := upd_arr (arrs s) i (set_wr true) in
    let C1 := adel i (counter s) in
    let T1 := adel i (tracker s) in
    let W1 := wclear T1 (waiting s) in
    match aget i W1 with
    | Some vs => let '(A2, T2, rest) := wake_views vs A1 C1 T1 [] in
                 mk A2 C1 T2 (match rest with [] => adel i W1 | _ => aset i rest W1 end) (ops s)
    | None => mk A1 C1 T1 W1 (ops s)
    end.
Proof.
  intros HA Hi Hc Hb. unfold get in *.
  unfold release. cbv zeta. unfold get. rewrite (gK HA Hi). rewrite Hc. simpl.
  rewrite Hb. simpl. rewrite nth_upd_arr_eq by auto. simpl. rewrite Hb.
  unfold wclear. destruct (aget i match adel i (tracker s) with [] => [] | _ :: _ => waiting s end); reflexivity.
Qed.

Lemma GT_adel n i T : GT n T -> GT n (adel i T).
Proof.
  intros H k j Hk. destruct (Nat.eq_dec k i) as [->|Hne].
  - rewrite aget_adel_eq in Hk. discriminate.
  - rewrite aget_adel_neq in Hk; auto.
Qed.
Lemma GC_adel n i C : GC n C -> GC n (adel i C).
Proof.
  intros H k Hk. destruct (Nat.eq_dec k i) as [->|Hne].
  - apply cget_adel_eq.
  - rewrite cget_adel_neq; auto.
Qed.
Lemma GC_aset n i v C : i < n -> GC n C -> GC n (aset i v C).
Proof. intros Hi H k Hk. rewrite cget_aset_neq; auto. lia. Qed.

Lemma tb_nil k : tb [] k = false. Proof. reflexivity. Qed.

Lemma inw_wclear T' W b v k : tb T' k = true -> inw (wclear T' W) b v = inw W b v.
Proof. intros H. destruct T'; [rewrite tb_nil in H; discriminate | reflexivity]. Qed.

Lemma Inv_release_dec A C T W c i m :
  Inv A C T W c -> i < length A -> a_orig (g A i) = true -> cget i C = S (S m) ->
  Inv A (aset i (S m) C) T W (upd c i (S m)).
Proof.
  intros HI Hi Ho Hc.
  destruct (iLoc HI Hi) as [hC hRO hT]. specialize (hT Ho). destruct hT as [a1 a2 a3 a4 a5 a6 a7].
  assert (Ht : tb T i = true) by (apply a2; lia).
  destruct HI as [H1 H2 H3 H4 H5]. split; auto.
  - apply GC_aset; auto.
  - intros j Hj. destruct (Nat.eq_dec j i) as [->|Hne]; auto. rewrite upd_neq in Hj; auto.
  - intros j Hj. destruct (Nat.eq_dec j i) as [->|Hne].
    + split.
      * intros _. apply hC. lia.
      * intros; congruence.
      * intros _. split; rewrite ?cget_aset_eq, ?upd_eq; auto; intros; try lia; try congruence.
    + eapply Loc_frame; eauto.
      * apply cget_aset_neq; auto.
      * apply upd_neq; auto.
Qed.

Lemma Inv_release_wait A C T W W' c i b :
  Inv A C T W c -> i < length A -> a_orig (g A i) = true -> a_base (g A i) = Some b ->
  cget i C = 1 -> a_wr (g A b) = false ->
  inw W' b i = true -> (forall b' v, inw W b' v = true -> inw W' b' v = true) ->
  Inv A (adel i C) T W' (upd c i 0).
Proof.
  intros HI Hi Ho Hb Hc Hwb Hin Hsub.
  destruct (iLoc HI Hi) as [hC hRO hT]. specialize (hT Ho). destruct hT as [a1 a2 a3 a4 a5 a6 a7].
  assert (Ht : tb T i = true) by (apply a2; lia).
  destruct (gBase (iGA HI) _ Hb) as (Hbi & Hbb & Hob & Hab).
  assert (Hbl : b < length A) by lia.
  assert (Htb : tb T b = true).
  { destruct (tb T b) eqn:E; auto.
    destruct (iLoc HI Hbl) as [_ _ hT']. rewrite Ho in Hob. specialize (hT' Hob).
    assert (a_wr (g A b) = true) by (apply (l3 hT'); auto). congruence. }
  destruct HI as [H1 H2 H3 H4 H5]. split; auto.
  - apply GC_adel; auto.
  - intros j Hj. destruct (Nat.eq_dec j i) as [->|Hne].
    + rewrite upd_eq in Hj. lia.
    + rewrite upd_neq in Hj; auto.
  - intros j Hj. destruct (Nat.eq_dec j i) as [->|Hne].
    + split.
      * rewrite upd_eq. lia.
      * intros; congruence.
      * intros _. split; rewrite ?cget_adel_eq, ?upd_eq; auto; intros; try lia; try congruence.
        assert (b0 = b) by congruence. subst b0. auto.
    + eapply Loc_frame; eauto.
      * apply cget_adel_neq; auto.
      * apply upd_neq; auto.
Qed.

Lemma Inv_release_untrack_view A C T W c i b :
  Inv A C T W c -> i < length A -> a_orig (g A i) = true -> a_base (g A i) = Some b ->
  cget i C = 1 ->
  Inv (upd_arr A i (set_wr true)) (adel i C) (adel i T) (wclear (adel i T) W) (upd c i 0).
Proof.
  intros HI Hi Ho Hb Hc.
  destruct (iLoc HI Hi) as [hC hRO hT]. specialize (hT Ho). destruct hT as [a1 a2 a3 a4 a5 a6 a7].
  assert (HGA := iGA HI).
  destruct HI as [H1 H2 H3 H4 H5].
  assert (HS : sbwl A (upd_arr A i (set_wr true))) by apply sbwl_upd.
  split; rewrite ?length_upd_arr.
  - eapply GA_sbwl; eauto.
  - apply GT_adel; auto.
  - apply GC_adel; auto.
  - intros j Hj. destruct (Nat.eq_dec j i) as [->|Hne].
    + rewrite upd_eq in Hj. lia.
    + rewrite upd_neq in Hj; auto.
  - intros j Hj. destruct (Nat.eq_dec j i) as [->|Hne].
    + split; rewrite ?g_upd_eq by auto; simpl.
      * rewrite upd_eq. lia.
      * intros; congruence.
      * intros _. split; rewrite ?g_upd_eq by auto; simpl;
          rewrite ?cget_adel_eq, ?upd_eq, ?tb_adel_eq; auto; intros; try lia; try congruence.
    + eapply Loc_frame; eauto.
      * apply g_upd_neq; auto.
      * apply cget_adel_neq; auto.
      * apply tb_adel_neq; auto.
      * apply upd_neq; auto.
      * intros b' Hoj Hbj Htj Hcj Hw Htb'.
        assert (Hne' : b' <> i).
        { intros ->. destruct (gBase HGA _ Hbj) as (_ & Hbb & _). congruence. }
        split.
        -- rewrite (inw_wclear _ _ _ _ j); auto. rewrite tb_adel_neq; auto.
        -- rewrite tb_adel_neq; auto.
Qed.

Lemma Inv_release_owner A C T W c i A2 T2 W2 (pw : nat -> bool) :
  Inv A C T W c -> i < length A -> a_orig (g A i) = true -> a_base (g A i) = None -> cget i C = 1 ->
  (forall k, pw k = true -> k <> i -> cget k C = 0) ->
  (forall k, aget k T2 = if Nat.eqb k i || pw k then None else aget k T) ->
  sbwl A A2 ->
  a_wr (g A2 i) = true ->
  (forall j, j <> i -> pw j && tb T j = false -> g A2 j = g A j) ->
  (forall j, j <> i -> pw j = true -> tb T j = true -> a_alive (g A j) = true -> a_wr (g A2 j) = true) ->
  (forall v, v <> i -> inw W i v = true -> tb T v = true -> cget v C = 0 -> pw v = true) ->
  ((forall b v, b <> i -> inw W b v = true -> inw W2 b v = true) \/ (forall k, tb T2 k = false)) ->
  Inv A2 (adel i C) T2 W2 (upd c i 0).
Proof.
  intros HI Hi Ho Hb Hc Hp0 HT2 HS Hwi Hun Hwk Hall HW2.
  assert (HGA := iGA HI).
  assert (Htb2 : forall k, tb T2 k = if Nat.eqb k i || pw k then false else tb T k).
  { intros k. unfold tb. rewrite HT2. destruct (Nat.eqb k i || pw k); auto. }
  destruct HS as [HL HS].
  split; rewrite ?HL.
  - eapply GA_sbwl; eauto. split; auto.
  - intros k j Hk. rewrite HT2 in Hk. destruct (Nat.eqb k i || pw k); [discriminate|].
    apply (iGT HI); auto.
  - apply GC_adel. apply (iGC HI).
  - intros j Hj. destruct (Nat.eq_dec j i) as [->|Hne].
    + rewrite upd_eq in Hj. lia.
    + rewrite upd_neq in Hj; auto. apply (iLt HI); auto.
  - intros j Hj. destruct (HS j) as (Ek & Eb & Ea & Eo & Eu).
    destruct (Nat.eq_dec j i) as [->|Hne].
    + assert (Hti : tb T2 i = false) by (rewrite Htb2, Nat.eqb_refl; reflexivity).
      split.
      * rewrite upd_eq. lia.
      * intros; congruence.
      * intros _. split; rewrite ?cget_adel_eq, ?upd_eq, ?Eb; auto; intros; try lia; try congruence.
    + assert (Ei : Nat.eqb j i = false) by (apply Nat.eqb_neq; auto).
      destruct (pw j && tb T j) eqn:Epw.
      * apply andb_true_iff in Epw. destruct Epw as [Epj Etj].
        assert (Hcj : cget j C = 0) by (apply Hp0; auto).
        destruct (iLoc HI Hj) as [hC hRO hT].
        assert (Hoj : a_orig (g A j) = true).
        { destruct (a_orig (g A j)) eqn:E; auto. destruct (hRO eq_refl) as (_ & ? & _). congruence. }
        specialize (hT Hoj). destruct hT as [a1 a2 a3 a4 a5 a6 a7].
        assert (Hbj : a_base (g A j) <> None).
        { intros E. specialize (a5 E Etj). lia. }
        assert (Htj2 : tb T2 j = false) by (rewrite Htb2, Ei, Epj; reflexivity).
        split.
        -- rewrite upd_neq by auto. intros. lia.
        -- rewrite Eo. intros; congruence.
        -- intros _. split; rewrite ?cget_adel_neq by auto; rewrite ?upd_neq by auto; rewrite ?Eb, ?Ea, ?Eu;
             auto; intros; try lia; try congruence; try (apply Hwk; auto).
      * assert (Eg : g A2 j = g A j) by (apply Hun; auto).
        assert (Etj : tb T2 j = tb T j).
        { rewrite Htb2, Ei. simpl. destruct (pw j); simpl in *; auto. }
        apply Loc_frame with (A := A) (C := C) (T := T) (W := W) (c := c).
        -- apply (iLoc HI Hj).
        -- exact Eg.
        -- apply cget_adel_neq; auto.
        -- exact Etj.
        -- apply upd_neq; auto.
        -- intros b Hoj Hbj Htj Hcj Hw Htb.
           assert (Epj : pw j = false) by (rewrite Htj, andb_true_r in Epw; auto).
           destruct (Nat.eq_dec b i) as [->|Hbi].
           { rewrite (Hall j) in Epj; auto. discriminate. }
           split.
           ++ destruct HW2 as [HW2|HW2]; auto. rewrite HW2 in Etj. congruence.
           ++ rewrite Htb2. apply Nat.eqb_neq in Hbi. rewrite Hbi. simpl.
              destruct (pw b) eqn:Epb; auto.
              apply Nat.eqb_neq in Hbi.
              destruct (gBase HGA _ Hbj) as (Hlt & Hbb & Hob & _).
              assert (Hbl : b < length A) by lia.
              destruct (iLoc HI Hbl) as [_ _ hT']. rewrite Hoj in Hob. specialize (hT' Hob).
              assert (0 < cget b C) by (apply (l4 hT'); auto).
              rewrite (Hp0 b) in H; auto. lia.
Qed.

Lemma Inv_release_owner_full A C T W c i :
  Inv A C T W c -> i < length A -> a_orig (g A i) = true -> a_base (g A i) = None -> cget i C = 1 ->
  let A1 := upd_arr A i (set_wr true) in
  let C1 := adel i C in
  let T1 := adel i T in
  let W1 := wclear T1 W in
  match aget i W1 with
  | Some vs => let '(A2, T2, rest) := wake_views vs A1 C1 T1 [] in
               Inv A2 C1 T2 (match rest with [] => adel i W1 | _ => aset i rest W1 end) (upd c i 0)
  | None => Inv A1 C1 T1 W1 (upd c i 0)
  end.
Proof.
  intros HI Hi Ho Hb Hc A1 C1 T1 W1.
  assert (HS1 : sbwl A A1) by apply sbwl_upd.
  assert (HT1 : forall k j, aget k T1 = Some j -> j = k).
  { intros k j Hk. apply (GT_adel _ i _ (iGT HI)) in Hk. tauto. }
  destruct (aget i W1) as [vs|] eqn:EW.
  - assert (EW1 : W1 = W).
    { unfold W1, wclear in *. destruct T1; auto. simpl in EW. discriminate. }
    destruct (wake_views vs A1 C1 T1 []) as [[A2 T2] rest] eqn:Ewk.
    destruct (wake_spec _ _ _ _ _ _ _ _ HT1 Ewk) as (Ha & Hb2 & Hc2 & Hd2).
    apply Inv_release_owner with (A := A) (T := T) (W := W) (pw := pb vs C1); auto.
    + intros k Hk Hne. unfold pb in Hk. apply andb_true_iff in Hk. destruct Hk as [_ Hk].
      apply Nat.eqb_eq in Hk. unfold C1 in Hk. rewrite cget_adel_neq in Hk; auto.
    + intros k. rewrite Hb2. unfold T1. destruct (Nat.eq_dec k i) as [->|Hne].
      * rewrite Nat.eqb_refl, aget_adel_eq. simpl. destruct (pb vs C1 i); auto.
      * apply Nat.eqb_neq in Hne. rewrite Hne. simpl. apply Nat.eqb_neq in Hne.
        rewrite aget_adel_neq; auto.
    + eapply sbwl_trans; eauto.
    + rewrite Hc2.
      * unfold A1. rewrite g_upd_eq; auto.
      * unfold T1. rewrite tb_adel_eq, andb_false_r. auto.
    + intros j Hne Hj. rewrite Hc2.
      * unfold A1. apply g_upd_neq; auto.
      * unfold T1. rewrite tb_adel_neq; auto.
    + intros j Hne Hp Ht Hal. apply Hd2; auto.
      * unfold T1. rewrite tb_adel_neq; auto.
      * unfold A1. rewrite g_upd_neq; auto.
    + intros v Hne Hw Ht Hcv. unfold pb. rewrite EW1 in EW. unfold inw in Hw. rewrite EW in Hw.
      rewrite Hw. unfold C1. rewrite cget_adel_neq, Hcv; auto.
    + left. intros b v Hne Hw. rewrite EW1. unfold inw in *.
      destruct rest; [rewrite aget_adel_neq | rewrite aget_aset_neq]; auto.
  - apply Inv_release_owner with (A := A) (T := T) (W := W) (pw := fun _ => false); auto.
    + intros; discriminate.
    + intros k. rewrite orb_false_r. unfold T1. destruct (Nat.eq_dec k i) as [->|Hne].
      * rewrite Nat.eqb_refl, aget_adel_eq. auto.
      * rewrite aget_adel_neq; auto. apply Nat.eqb_neq in Hne. rewrite Hne. auto.
    + unfold A1. rewrite g_upd_eq; auto.
    + intros j Hne _. unfold A1. apply g_upd_neq; auto.
    + intros; discriminate.
    + intros v Hne Hw Ht Hcv. exfalso.
      assert (Ht1 : tb T1 v = true) by (unfold T1; rewrite tb_adel_neq; auto).
      unfold W1, wclear in EW. destruct T1 eqn:ET1.
      * rewrite tb_nil in Ht1. discriminate.
      * unfold inw in Hw. rewrite EW in Hw. discriminate.
    + unfold W1, wclear. destruct T1 eqn:ET1.
      * right. intros k. apply tb_nil.
      * left. auto.
Qed.

Lemma release_inv s c i : InvS s c -> 0 < c i -> InvS (release s i) (upd c i (c i - 1)).
Proof.
  intros HI Hci.
  assert (Hi : i < length (arrs s)) by (apply (iLt HI); auto).
  destruct (iLoc HI Hi) as [hC hRO hT]. specialize (hC Hci).
  assert (HGA := iGA HI).
  destruct (a_orig (g (arrs s) i)) eqn:Ho.
  - specialize (hT eq_refl). destruct hT as [a1 a2 a3 a4 a5 a6 a7].
    assert (Ht : tb (tracker s) i = true) by (apply a2; lia).
    assert (Hw : a_wr (g (arrs s) i) = false) by auto.
    destruct (c i) as [|[|m]] eqn:Ec; [lia| |].
    + (* last reference *)
      simpl.
      destruct (a_base (g (arrs s) i)) as [b|] eqn:Hb.
      * destruct (a_wr (g (arrs s) b)) eqn:Hwb.
        -- rewrite (release_eq_untrack_view s i b); auto.
           unfold InvS, mk; simpl. eapply Inv_release_untrack_view; eauto.
        -- rewrite (release_eq_wait s i b); auto.
           unfold InvS, mk; simpl. eapply Inv_release_wait; eauto.
           ++ unfold inw. rewrite aget_aset_eq. unfold wadd.
              destruct (existsb (Nat.eqb i) (wcur b (waiting s))) eqn:E; auto.
              rewrite existsb_app. simpl. rewrite Nat.eqb_refl. rewrite orb_true_r. auto.
           ++ intros b' v Hin. unfold inw in *. destruct (Nat.eq_dec b' b) as [->|Hne].
              ** rewrite aget_aset_eq. unfold wadd, wcur.
                 destruct (aget b (waiting s)) as [l|]; [|discriminate].
                 destruct (existsb (Nat.eqb i) l); auto. rewrite existsb_app, Hin. auto.
              ** rewrite aget_aset_neq; auto.
      * rewrite (release_eq_owner s i); auto.
        assert (HF := Inv_release_owner_full _ _ _ _ _ i HI Hi Ho Hb a1). cbv zeta in *.
        destruct (aget i (wclear (adel i (tracker s)) (waiting s))) as [vs|].
        -- destruct (wake_views vs _ _ _ []) as [[A2 T2] rest]. exact HF.
        -- exact HF.
    + rewrite (release_eq_dec s i m); auto.
      unfold InvS, mk; simpl. replace (S (S m) - 1) with (S m) by lia.
      apply Inv_release_dec; auto.
  - destruct (hRO eq_refl) as (Hw & Ht & Hc).
    rewrite release_eq_noop; auto. apply Inv_c_ro; auto.
Qed.

Lemma release_ops s i : ops (release s i) = ops s.
Proof.
  unfold release. cbv zeta.
  set (s1 := if Nat.eqb _ 1 then _ else _).
  assert (H1 : ops s1 = ops s).
  { unfold s1. destruct (Nat.eqb _ 1).
    - destruct (a_base (get s i)); auto. destruct (negb _); auto.
    - destruct (Nat.ltb 0 _); auto. }
  destruct (a_base (get s1 i)); auto. destruct (a_wr (get s1 i)); auto.
  destruct (aget _ (waiting s1)); auto.
  destruct (wake_views _ _ _ _ _) as [[? ?] ?]. simpl. auto.
Qed.
