(* random testing of the extracted lock automaton with ids that are unique only among ALIVE arrays *)
open Lockmodel
let nkeys = ref 5
let alive s i = i < List.length s.arrs && (get s i).a_alive
let alive_idx s = List.filter (fun i -> alive s i) (List.init (List.length s.arrs) (fun i -> i))
let free_keys fresh s =
  if fresh then [List.length s.arrs] else
  let used = List.map (fun i -> (get s i).a_key) (alive_idx s) in
  List.filter (fun k -> not (List.mem k used)) (List.init !nkeys (fun k -> k))
let pick l = List.nth l (Random.int (List.length l))
let can_die s i =
  alive s i && List.for_all (fun l -> not (List.mem i l)) s.ops
  && List.for_all (fun j -> (get s j).a_base <> Some i) (alive_idx s)
(* a random admissible event, or None *)
let gen fresh maxarr s =
  let al = alive_idx s in
  let fk = free_keys fresh s in
  let room = List.length s.arrs < maxarr in
  match Random.int 10 with
  | 0 -> if fk <> [] && room then Some (ENew (pick fk, Random.int 5 = 0)) else None
  | 1 -> if fk <> [] && room && al <> [] then Some (EView (pick al, pick fk)) else None
  | 2 | 3 | 4 ->
      if al = [] then None else
      let inputs = if Random.bool () then [pick al] else [pick al; pick al] in
      let out = match Random.int 4 with
        | 0 when fk <> [] && room -> Some (None, pick fk)
        | 1 when fk <> [] && room -> Some (Some (pick inputs), pick fk)
        | _ -> None in
      Some (EOp (inputs, out))
  | 5 | 6 | 7 -> if s.ops = [] then None else Some (EOpDie (Random.int (List.length s.ops)))
  | _ -> let c = List.filter (can_die s) al in if c = [] then None else Some (EDie (pick c))
let cnt_in i o = List.length (List.filter (List.mem i) o)
(* the C08 statements, with tables looked up by KEY *)
let check s =
  let al = alive_idx s in
  let bad = ref [] in
  let fail m i = bad := (m, i) :: !bad in
  List.iter (fun l -> List.iter (fun i ->
      if alive s i && (get s i).a_wr then fail "locked" i;
      (match (get s i).a_base with
       | Some b -> if not (List.mem b l) then fail "base_listed" i;
                   if not (alive s b) || (get s b).a_wr then fail "locked_base" i
       | None -> ())) l) s.ops;
  List.iter (fun i ->
      let a = get s i in
      if not a.a_orig && a.a_wr then fail "readonly" i;
      let c = cget a.a_key s.counter in
      if c <> (if a.a_orig then cnt_in i s.ops else 0) then fail "counts" i;
      if s.ops = [] then begin
        if c <> 0 then fail "restored_counter" i;
        if tracked s i then fail "restored_tracked" i;
        if aget a.a_key s.tracker <> None then fail "restored_tracker_entry" i;
        if a.a_used && a.a_wr <> a.a_orig then fail "restored_flag" i
      end) al;
  !bad
let show_ev = function
  | ENew (k, ro) -> Printf.sprintf "ENew %d %b" k ro
  | EView (s, k) -> Printf.sprintf "EView %d %d" s k
  | EOp (l, o) -> Printf.sprintf "EOp [%s] %s" (String.concat ";" (List.map string_of_int l))
                    (match o with None -> "None" | Some (None, k) -> Printf.sprintf "(Some (None, %d))" k
                                | Some (Some s, k) -> Printf.sprintf "(Some (Some %d, %d))" s k)
  | EOpDie n -> Printf.sprintf "EOpDie %d" n
  | EDie i -> Printf.sprintf "EDie %d" i
  | _ -> "?"
let run_one stepf fresh len maxarr =
  let s = ref l_init and hist = ref [] and res = ref None in
  (try for _ = 1 to len do
      match gen fresh maxarr !s with
      | None -> ()
      | Some e ->
          let s0 = !s in
          s := stepf !s e; hist := e :: !hist;
          (* temporal: a flag is raised only by the death of an op that lists the array or its base *)
          let raised = List.filter (fun i -> alive s0 i && not (get s0 i).a_wr && (get !s i).a_wr) (alive_idx !s) in
          let tb = List.filter (fun i -> match e with
              | EOpDie n -> let l = List.nth s0.ops n in
                  not (List.mem i l || (match (get s0 i).a_base with Some b -> List.mem b l | None -> false))
              | _ -> true) raised in
          let b = List.map (fun i -> ("raised_by_unrelated_event", i)) tb @ check !s in
          (match b with [] -> () | b -> res := Some (b, List.rev !hist); raise Exit)
    done with Exit -> ());
  !res
let () =
  let which = Sys.argv.(1) and fresh = Sys.argv.(2) = "fresh" and n = int_of_string Sys.argv.(3)
  and len = int_of_string Sys.argv.(4) and maxarr = int_of_string Sys.argv.(5) in
  nkeys := int_of_string Sys.argv.(6);
  Random.init (int_of_string Sys.argv.(7));
  let stepf = if which = "old" then step_old else step in
  let fails = Hashtbl.create 7 and shortest = ref None and nf = ref 0 in
  for _ = 1 to n do
    match run_one stepf fresh len maxarr with
    | None -> ()
    | Some (b, h) ->
        incr nf;
        List.iter (fun (m, _) -> Hashtbl.replace fails m (1 + try Hashtbl.find fails m with Not_found -> 0)) b;
        (match !shortest with
         | Some (_, h') when List.length h' <= List.length h -> ()
         | _ -> shortest := Some (b, h))
  done;
  Printf.printf "model=%s ids=%s histories=%d len=%d failing=%d\n" which Sys.argv.(2) n len !nf;
  Hashtbl.iter (fun m c -> Printf.printf "  violated %s: %d\n" m c) fails;
  match !shortest with
  | None -> ()
  | Some (b, h) ->
      Printf.printf "  shortest failing history (%s at index %d): [%s]\n" (fst (List.hd b)) (snd (List.hd b))
        (String.concat "; " (List.map show_ev h))
