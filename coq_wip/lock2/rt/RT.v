(* scratch: extraction of the lock automaton for random testing with ids that are only unique among ALIVE arrays *)
From Coq Require Import List Arith Bool.
Import ListNotations.
From MG Require Import Model.LockMgr.
From Coq Require Import Extraction ExtrOcamlBasic ExtrOcamlNatInt.

(* the model BEFORE the repair (copied from git HEAD of Model/LockMgr.v), to validate that the tester finds the defect *)
Fixpoint wake_views_old (vs : list nat) (arrs0 : list arr) (cnt : list (nat * nat)) (trk : list (nat * nat)) (rest : list nat)
  : list arr * list (nat * nat) * list nat :=
  match vs with
  | [] => (arrs0, trk, rest)
  | v :: vs' =>
      if Nat.ltb 0 (cget v cnt) then wake_views_old vs' arrs0 cnt trk (rest ++ [v])
      else
        match aget v trk with
        | None => wake_views_old vs' arrs0 cnt trk rest
        | Some j =>
            let trk' := adel v trk in
            if a_alive (nth j arrs0 dead) then wake_views_old vs' (upd_arr arrs0 j (set_wr true)) cnt trk' rest
            else wake_views_old vs' arrs0 cnt trk' rest
        end
  end.
Definition release_old (s : lstate) (i : nat) : lstate :=
  let a := get s i in
  let k := a_key a in
  let n := cget k (counter s) in
  let s1 :=
    if Nat.eqb n 1 then
      let cnt := adel k (counter s) in
      match a_base a with
      | Some b =>
          if negb (a_wr (get s b)) then
            let kb := a_key (get s b) in
            let cur := match aget kb (waiting s) with Some l => l | None => [] end in
            let cur' := if existsb (Nat.eqb k) cur then cur else cur ++ [k] in
            {| arrs := arrs s; counter := cnt; tracker := tracker s; waiting := aset kb cur' (waiting s); ops := ops s |}
          else
            let trk := adel k (tracker s) in
            {| arrs := upd_arr (arrs s) i (set_wr true); counter := cnt; tracker := trk;
               waiting := (match trk with [] => [] | _ => waiting s end); ops := ops s |}
      | None =>
          let trk := adel k (tracker s) in
          {| arrs := upd_arr (arrs s) i (set_wr true); counter := cnt; tracker := trk;
             waiting := (match trk with [] => [] | _ => waiting s end); ops := ops s |}
      end
    else if Nat.ltb 0 n then
      {| arrs := arrs s; counter := aset k (n - 1) (counter s); tracker := tracker s; waiting := waiting s; ops := ops s |}
    else s in
  let a1 := get s1 i in
  match a_base a1, a_wr a1, aget k (waiting s1) with
  | None, true, Some vs =>
      let '(arrs2, trk2, rest) := wake_views_old vs (arrs s1) (counter s1) (tracker s1) [] in
      {| arrs := arrs2; counter := counter s1; tracker := trk2;
         waiting := (match rest with [] => adel k (waiting s1) | _ => aset k rest (waiting s1) end); ops := ops s1 |}
  | _, _, _ => s1
  end.
Definition step_old (s : lstate) (e : event) : lstate :=
  match e with
  | EOpDie n =>
      let listed := nth n (ops s) [] in
      let s1 := fold_left (fun st i => if a_alive (get st i) then release_old st i else st) listed s in
      {| arrs := arrs s1; counter := counter s1; tracker := tracker s1; waiting := waiting s1; ops := remove_nth (ops s1) n |}
  | _ => step s e
  end.

Extraction "lockmodel.ml" step step_old l_init tracked cget aget get.
