(* C08: invariants of the memory-guard lock automaton (model: MG.Model.LockMgr, used unchanged).
   Main results (section 11), for s := run es with wf_events es:
     run_SInv            the inductive invariant (sections 2, 9)
     C08_counts          counter = number of live ops listing the array (0 for natively read-only memory)
     C08_locked(_base)   every array listed by a live op, and its base, is read-only
     C08_readonly_stays  memory created read-only is never writeable
     C08_restored        no live op => no counter, no tracker entry, flags of used arrays restored
   Section 12: vm_compute-checked counterexamples to three statements as originally phrased.
   Section 13: non-vacuity example.  See NOTES_D.md.
   Section 4 follows the repaired wake-up loop ([wake_views ib ...]: an entry whose id now belongs to a live array that is
   not a view of the released base is skipped); section 14: a computed history with id re-use.  See NOTES.md (task K). *)
From Coq Require Import List Arith Bool Lia.
Import ListNotations.
From MG Require Import Model.LockMgr.

Set Implicit Arguments.

(* ================================================================== *)
(** * 0. Association lists, [upd_arr]                                  *)
(* ================================================================== *)

Lemma aget_adel_eq {V} k (l : list (nat * V)) : aget k (adel k l) = None.
Proof.
  induction l as [|[k' v] t IH]; simpl; auto.
  destruct (Nat.eqb k k') eqn:E; auto. simpl. rewrite E. auto.
Qed.

Lemma aget_adel_neq {V} k k' (l : list (nat * V)) : k <> k' -> aget k (adel k' l) = aget k l.
Proof.
  intros Hne. induction l as [|[k2 v] t IH]; simpl; auto.
  destruct (Nat.eqb k' k2) eqn:E.
  - apply Nat.eqb_eq in E. subst k2.
    destruct (Nat.eqb k k') eqn:E2; auto. apply Nat.eqb_eq in E2. congruence.
  - simpl. destruct (Nat.eqb k k2); auto.
Qed.

Lemma aget_aset_eq {V} k (v : V) l : aget k (aset k v l) = Some v.
Proof. unfold aset. simpl. rewrite Nat.eqb_refl. reflexivity. Qed.

Lemma aget_aset_neq {V} k k' (v : V) l : k <> k' -> aget k (aset k' v l) = aget k l.
Proof.
  intros Hne. unfold aset. simpl.
  destruct (Nat.eqb k k') eqn:E. { apply Nat.eqb_eq in E. congruence. }
  apply aget_adel_neq; auto.
Qed.

Lemma cget_aset_eq k v l : cget k (aset k v l) = v.
Proof. unfold cget. rewrite aget_aset_eq. reflexivity. Qed.
Lemma cget_aset_neq k k' v l : k <> k' -> cget k (aset k' v l) = cget k l.
Proof. intros. unfold cget. rewrite aget_aset_neq; auto. Qed.
Lemma cget_adel_eq k l : cget k (adel k l) = 0.
Proof. unfold cget. rewrite aget_adel_eq. reflexivity. Qed.
Lemma cget_adel_neq k k' l : k <> k' -> cget k (adel k' l) = cget k l.
Proof. intros. unfold cget. rewrite aget_adel_neq; auto. Qed.

Lemma aget_nil_all {V} (l : list (nat * V)) : l = [] -> forall k, aget k l = None.
Proof. intros -> k. reflexivity. Qed.

Lemma length_upd_arr l i f : length (upd_arr l i f) = length l.
Proof. revert i. induction l as [|a t IH]; intros [|i]; simpl; auto. Qed.

Lemma nth_upd_arr_eq l i f : i < length l -> nth i (upd_arr l i f) dead = f (nth i l dead).
Proof.
  revert i. induction l as [|a t IH]; intros [|i] H; simpl in *; try lia; auto.
  apply IH. lia.
Qed.

Lemma nth_upd_arr_neq l i j f : j <> i -> nth j (upd_arr l i f) dead = nth j l dead.
Proof.
  revert i j. induction l as [|a t IH]; intros [|i] [|j] H; simpl in *; auto; try congruence.
Qed.

Lemma upd_arr_id l i f : f (nth i l dead) = nth i l dead -> upd_arr l i f = l.
Proof.
  revert i. induction l as [|a t IH]; intros [|i] H; simpl in *; try reflexivity.
  - rewrite H. reflexivity.
  - rewrite IH; auto.
Qed.

Lemma existsb_eqb_In i l : existsb (Nat.eqb i) l = true <-> In i l.
Proof.
  rewrite existsb_exists. split.
  - intros [x [Hx E]]. apply Nat.eqb_eq in E. subst. auto.
  - intros H. exists i. split; auto. apply Nat.eqb_refl.
Qed.

Lemma existsb_eqb_nIn i l : existsb (Nat.eqb i) l = false <-> ~ In i l.
Proof.
  rewrite <- existsb_eqb_In. destruct (existsb (Nat.eqb i) l); split; intros; try congruence.
Qed.

(* ================================================================== *)
(** * 1. Definitions: well-formed events, counting                    *)
(* ================================================================== *)

Definition cnt_in (i : nat) (O : list (list nat)) : nat :=
  length (filter (fun l => existsb (Nat.eqb i) l) O).

Definition ev_ok (s : lstate) (e : event) : Prop :=
  let n := length (arrs s) in
  match e with
  | ENew key _ => key = n
  | EView src key => key = n /\ src < n /\ a_alive (get s src) = true
  | ELock _ _ => False
  | ERelease _ => False
  | EOp inputs out =>
      (forall i, In i inputs -> i < n /\ a_alive (get s i) = true) /\
      match out with
      | None => True
      | Some (None, key) => key = n
      | Some (Some src, key) => key = n /\ In src inputs
      end
  | EOpDie k => k < length (ops s)
  | EDie i => a_alive (get s i) = true /\
              (forall l, In l (ops s) -> ~ In i l) /\
              (forall j, a_alive (get s j) = true -> a_base (get s j) <> Some i)
  end.

Fixpoint wf_from (s : lstate) (es : list event) : Prop :=
  match es with
  | [] => True
  | e :: t => ev_ok s e /\ wf_from (step s e) t
  end.
Definition wf_events (es : list event) : Prop := wf_from l_init es.

(* ================================================================== *)
(** * 2. The invariant                                                *)
(* ================================================================== *)

Notation g A i := (nth i A dead) (only parsing).
Definition tb (T : list (nat * nat)) (i : nat) : bool :=
  match aget i T with Some _ => true | None => false end.
Definition inw (W : list (nat * list nat)) (b v : nat) : bool :=
  match aget b W with Some l => existsb (Nat.eqb v) l | None => false end.

Lemma tb_aset_eq i v T : tb (aset i v T) i = true.
Proof. unfold tb. rewrite aget_aset_eq. reflexivity. Qed.
Lemma tb_aset_neq i k v T : k <> i -> tb (aset i v T) k = tb T k.
Proof. intros. unfold tb. rewrite aget_aset_neq; auto. Qed.
Lemma tb_adel_eq i T : tb (adel i T) i = false.
Proof. unfold tb. rewrite aget_adel_eq. reflexivity. Qed.
Lemma tb_adel_neq i k T : k <> i -> tb (adel i T) k = tb T k.
Proof. intros. unfold tb. rewrite aget_adel_neq; auto. Qed.

(* same array record except for the writeable flag *)
Definition sbw (a a' : arr) : Prop :=
  a_key a' = a_key a /\ a_base a' = a_base a /\ a_alive a' = a_alive a /\
  a_orig a' = a_orig a /\ a_used a' = a_used a.
Definition sbwl (A A' : list arr) : Prop :=
  length A' = length A /\ forall j, sbw (g A j) (g A' j).

Lemma sbw_refl a : sbw a a. Proof. repeat split. Qed.
Lemma sbw_trans a b c : sbw a b -> sbw b c -> sbw a c.
Proof. unfold sbw. intros (?&?&?&?&?) (?&?&?&?&?). repeat split; congruence. Qed.
Lemma sbw_set_wr w a : sbw a (set_wr w a). Proof. repeat split. Qed.
Lemma sbwl_refl A : sbwl A A. Proof. split; auto. intros; apply sbw_refl. Qed.
Lemma sbwl_trans A B C : sbwl A B -> sbwl B C -> sbwl A C.
Proof. intros [H1 H2] [H3 H4]. split; [congruence|]. intros j. eapply sbw_trans; eauto. Qed.
Lemma sbwl_upd A i w : sbwl A (upd_arr A i (set_wr w)).
Proof.
  split. apply length_upd_arr. intros j.
  destruct (Nat.eq_dec j i) as [->|Hne].
  - destruct (lt_dec i (length A)).
    + rewrite nth_upd_arr_eq; auto. apply sbw_set_wr.
    + rewrite !nth_overflow; try rewrite length_upd_arr; try lia. apply sbw_refl.
  - rewrite nth_upd_arr_neq; auto. apply sbw_refl.
Qed.

Lemma g_overflow A i : length A <= i -> g A i = dead.
Proof. intros. apply nth_overflow; auto. Qed.
Lemma alive_lt A i : a_alive (g A i) = true -> i < length A.
Proof. intros H. destruct (lt_dec i (length A)); auto. rewrite g_overflow in H; [discriminate|lia]. Qed.
Lemma orig_lt A i : a_orig (g A i) = true -> i < length A.
Proof. intros H. destruct (lt_dec i (length A)); auto. rewrite g_overflow in H; [discriminate|lia]. Qed.
Lemma base_lt A i b : a_base (g A i) = Some b -> i < length A.
Proof. intros H. destruct (lt_dec i (length A)); auto. rewrite g_overflow in H; [discriminate|lia]. Qed.
Lemma g_upd_eq A i f : i < length A -> g (upd_arr A i f) i = f (g A i).
Proof. apply nth_upd_arr_eq. Qed.
Lemma g_upd_neq A i j f : j <> i -> g (upd_arr A i f) j = g A j.
Proof. apply nth_upd_arr_neq. Qed.

(* structural part *)
Record GA (A : list arr) : Prop := {
  gK : forall i, i < length A -> a_key (g A i) = i;
  gBase : forall i b, a_base (g A i) = Some b ->
          b < i /\ a_base (g A b) = None /\ a_orig (g A b) = a_orig (g A i) /\
          (a_alive (g A i) = true -> a_alive (g A b) = true) }.
Definition GT (n : nat) (T : list (nat * nat)) : Prop :=
  forall k j, aget k T = Some j -> j = k /\ k < n.
Definition GC (n : nat) (C : list (nat * nat)) : Prop :=
  forall k, n <= k -> cget k C = 0.

(* per-index part, for arrays whose memory was originally writeable *)
Record LocT (A : list arr) (C T : list (nat * nat)) (W : list (nat * list nat)) (c : nat -> nat) (j : nat) : Prop := {
  lA : cget j C = c j;
  l1 : 0 < cget j C -> tb T j = true;
  l2 : tb T j = true -> a_wr (g A j) = false;
  l3 : a_base (g A j) = None -> tb T j = false -> a_wr (g A j) = true;
  l4 : a_base (g A j) = None -> tb T j = true -> 0 < cget j C;
  l5 : forall b, a_base (g A j) = Some b -> tb T j = true -> cget j C = 0 ->
                 inw W b j = true /\ tb T b = true;
  l6 : a_base (g A j) <> None -> a_alive (g A j) = true -> a_used (g A j) = true ->
       tb T j = false -> a_wr (g A j) = true }.

Record Loc A C T W (c : nat -> nat) (j : nat) : Prop := {
  lC : 0 < c j -> a_alive (g A j) = true;
  lRO : a_orig (g A j) = false -> a_wr (g A j) = false /\ tb T j = false /\ cget j C = 0;
  lT : a_orig (g A j) = true -> LocT A C T W c j }.

Record Inv A C T W (c : nat -> nat) : Prop := {
  iGA : GA A;
  iGT : GT (length A) T;
  iGC : GC (length A) C;
  iLt : forall j, 0 < c j -> j < length A;
  iLoc : forall j, j < length A -> Loc A C T W c j }.

Definition InvS (s : lstate) (c : nat -> nat) : Prop :=
  Inv (arrs s) (counter s) (tracker s) (waiting s) c.

Definition upd (c : nat -> nat) (i v : nat) : nat -> nat := fun j => if Nat.eqb j i then v else c j.
Lemma upd_eq c i v : upd c i v i = v. Proof. unfold upd. rewrite Nat.eqb_refl. auto. Qed.
Lemma upd_neq c i v j : j <> i -> upd c i v j = c j.
Proof. intros. unfold upd. destruct (Nat.eqb j i) eqn:E; auto. apply Nat.eqb_eq in E. congruence. Qed.

Lemma GA_sbwl A A' : sbwl A A' -> GA A -> GA A'.
Proof.
  intros [HL HS] [HK HB]. split.
  - intros i Hi. destruct (HS i) as (E&_). rewrite E. apply HK. lia.
  - intros i b Hb.
    destruct (HS i) as (_&Eb&Ea&Eo&_). destruct (HS b) as (_&Eb'&Ea'&Eo'&_).
    rewrite Eb in Hb. destruct (HB _ _ Hb) as (H1&H2&H3&H4).
    rewrite Eb', Eo', Eo, Ea, Ea'. auto.
Qed.

Lemma LocT_ext A C T W c c' j : c j = c' j -> LocT A C T W c j -> LocT A C T W c' j.
Proof. intros E [ ]. split; auto. congruence. Qed.

Lemma Inv_ext A C T W c c' : (forall j, c j = c' j) -> Inv A C T W c -> Inv A C T W c'.
Proof.
  intros E [H1 H2 H3 H4 H5]. split; auto.
  - intros j Hj. apply H4. rewrite E. auto.
  - intros j Hj. destruct (H5 j Hj) as [a b d]. split; auto.
    + rewrite <- E. auto.
    + intros Ho. eapply LocT_ext; eauto.
Qed.

(* frame: nothing relevant to j changed *)
Lemma Loc_frame A C T W c A' C' T' W' c' j :
  Loc A C T W c j ->
  g A' j = g A j -> cget j C' = cget j C -> tb T' j = tb T j -> c' j = c j ->
  (forall b, a_orig (g A j) = true -> a_base (g A j) = Some b -> tb T j = true -> cget j C = 0 ->
             inw W b j = true -> tb T b = true -> inw W' b j = true /\ tb T' b = true) ->
  Loc A' C' T' W' c' j.
Proof.
  intros [hC hRO hT] Eg Ec Et Ecc H5. split.
  - rewrite Eg, Ecc. auto.
  - rewrite Eg, Ec, Et. auto.
  - rewrite Eg. intros Ho. destruct (hT Ho) as [a1 a2 a3 a4 a5 a6 a7].
    split; rewrite ?Eg, ?Ec, ?Et, ?Ecc; auto.
    intros b Hb Ht Hc. destruct (a6 b Hb Ht Hc). apply H5; auto.
Qed.

(* ================================================================== *)
(** * 3. [lock]                                                       *)
(* ================================================================== *)
Unset Implicit Arguments.

Definition mk A C T W O : lstate := {| arrs := A; counter := C; tracker := T; waiting := W; ops := O |}.

Lemma tracked_eq s i : GA (arrs s) -> GT (length (arrs s)) (tracker s) -> i < length (arrs s) ->
  tracked s i = tb (tracker s) i && a_alive (get s i).
Proof.
  intros HA HT Hi. unfold tracked, get. rewrite (gK HA Hi).
  unfold tb. destruct (aget i (tracker s)) eqn:E; auto.
  destruct (HT _ _ E) as [-> _]. reflexivity.
Qed.

Lemma lock_eq_ro s c i : InvS s c -> i < length (arrs s) -> a_orig (get s i) = false ->
  lock s i false = s.
Proof.
  intros HI Hi Ho. unfold get in Ho.
  destruct (iLoc HI Hi) as [_ hRO _]. destruct (hRO Ho) as (Hw & Ht & Hc).
  unfold lock. cbv zeta. rewrite (tracked_eq s i (iGA HI) (iGT HI) Hi). rewrite Ht.
  unfold get. rewrite Hw. simpl.
  destruct (a_base (g (arrs s) i)) as [b|] eqn:Hb; auto.
  destruct (gBase (iGA HI) _ Hb) as (Hbi & _ & Hob & _).
  assert (Hb' : b < length (arrs s)) by lia.
  rewrite (tracked_eq s b (iGA HI) (iGT HI) Hb').
  destruct (iLoc HI Hb') as [_ hRO' _]. rewrite Ho in Hob. destruct (hRO' Hob) as (_ & Ht' & _).
  rewrite Ht'. reflexivity.
Qed.

Lemma lock_eq_tracked s i : GA (arrs s) -> GT (length (arrs s)) (tracker s) -> i < length (arrs s) ->
  a_alive (get s i) = true -> tb (tracker s) i = true ->
  lock s i false = mk (upd_arr (arrs s) i (set_wr false)) (aset i (S (cget i (counter s))) (counter s))
                      (tracker s) (waiting s) (ops s).
Proof.
  intros HA HT Hi Hal Ht. unfold lock. cbv zeta. rewrite (tracked_eq s i HA HT Hi). rewrite Ht, Hal.
  unfold get. rewrite (gK HA Hi). reflexivity.
Qed.

Lemma lock_eq_fresh s i : GA (arrs s) -> GT (length (arrs s)) (tracker s) -> i < length (arrs s) ->
  tb (tracker s) i = false ->
  (a_wr (get s i) = true \/ exists b, a_base (get s i) = Some b /\ tracked s b = true) ->
  lock s i false = mk (upd_arr (arrs s) i (set_wr false)) (aset i 1 (counter s))
                      (aset i i (tracker s)) (waiting s) (ops s).
Proof.
  intros HA HT Hi Ht Hd. unfold lock. cbv zeta. rewrite (tracked_eq s i HA HT Hi). rewrite Ht.
  unfold get in *. rewrite (gK HA Hi). simpl.
  destruct Hd as [Hw | (b & Hb & Htb)].
  - rewrite Hw. reflexivity.
  - rewrite Hb. unfold get in Htb. rewrite Htb. simpl. rewrite andb_false_r. reflexivity.
Qed.

(* changing the ghost count of a natively read-only array *)
Lemma Inv_c_ro A C T W c i v : Inv A C T W c -> i < length A -> a_orig (g A i) = false ->
  a_alive (g A i) = true -> Inv A C T W (upd c i v).
Proof.
  intros HI Hi Ho Hal. destruct HI as [H1 H2 H3 H4 H5]. split; auto.
  - intros j Hj. destruct (Nat.eq_dec j i) as [->|Hne]; auto. rewrite upd_neq in Hj; auto.
  - intros j Hj. destruct (Nat.eq_dec j i) as [->|Hne].
    + destruct (H5 i Hi) as [a b d]. split; auto. intros Ho'. congruence.
    + eapply Loc_frame; eauto. apply upd_neq; auto.
Qed.

Lemma set_wr_same a : set_wr (a_wr a) a = a.
Proof. destruct a; reflexivity. Qed.

Lemma Inv_lock_tracked A C T W c i :
  Inv A C T W c -> i < length A -> a_alive (g A i) = true -> a_orig (g A i) = true ->
  tb T i = true ->
  Inv (upd_arr A i (set_wr false)) (aset i (S (cget i C)) C) T W (upd c i (S (c i))).
Proof.
  intros HI Hi Hal Ho Ht.
  destruct (iLoc HI Hi) as [hC hRO hT]. specialize (hT Ho). destruct hT as [a1 a2 a3 a4 a5 a6 a7].
  assert (EA : upd_arr A i (set_wr false) = A).
  { apply upd_arr_id. rewrite <- (a3 Ht). apply set_wr_same. }
  rewrite EA. destruct HI as [H1 H2 H3 H4 H5]. split; auto.
  - intros k Hk. rewrite cget_aset_neq; auto. lia.
  - intros j Hj. destruct (Nat.eq_dec j i) as [->|Hne]; auto. rewrite upd_neq in Hj; auto.
  - intros j Hj. destruct (Nat.eq_dec j i) as [->|Hne].
    + split.
      * auto.
      * intros; congruence.
      * intros _. split; rewrite ?cget_aset_eq, ?upd_eq; auto; try lia; try congruence.
    + eapply Loc_frame; eauto.
      * apply cget_aset_neq; auto.
      * apply upd_neq; auto.
Qed.

Lemma Inv_lock_fresh A C T W c i :
  Inv A C T W c -> i < length A -> a_alive (g A i) = true -> a_orig (g A i) = true ->
  tb T i = false ->
  Inv (upd_arr A i (set_wr false)) (aset i 1 C) (aset i i T) W (upd c i (S (c i))).
Proof.
  intros HI Hi Hal Ho Ht.
  destruct (iLoc HI Hi) as [hC hRO hT]. specialize (hT Ho). destruct hT as [a1 a2 a3 a4 a5 a6 a7].
  assert (Hc0 : cget i C = 0).
  { destruct (cget i C) eqn:E; auto. assert (tb T i = true) by (apply a2; lia). congruence. }
  assert (Hci : c i = 0) by congruence.
  destruct HI as [H1 H2 H3 H4 H5].
  assert (HS : sbwl A (upd_arr A i (set_wr false))) by apply sbwl_upd.
  split.
  - eapply GA_sbwl; eauto.
  - rewrite length_upd_arr. intros k j Hk. destruct (Nat.eq_dec k i) as [->|Hne].
    + rewrite aget_aset_eq in Hk. inversion Hk; subst; auto.
    + rewrite aget_aset_neq in Hk; auto.
  - rewrite length_upd_arr. intros k Hk. rewrite cget_aset_neq; auto. lia.
  - rewrite length_upd_arr. intros j Hj. destruct (Nat.eq_dec j i) as [->|Hne]; auto.
    rewrite upd_neq in Hj; auto.
  - rewrite length_upd_arr. intros j Hj. destruct (Nat.eq_dec j i) as [->|Hne].
    + split; rewrite ?g_upd_eq by auto; simpl.
      * auto.
      * intros; congruence.
      * intros _. split; rewrite ?g_upd_eq by auto; simpl;
          rewrite ?cget_aset_eq, ?upd_eq, ?tb_aset_eq; auto; intros; try lia; try congruence.
    + eapply Loc_frame; eauto.
      * apply g_upd_neq; auto.
      * apply cget_aset_neq; auto.
      * apply tb_aset_neq; auto.
      * apply upd_neq; auto.
      * intros b _ _ _ _ Hw Hb. split; auto.
        destruct (Nat.eq_dec b i) as [->|Hb']; [apply tb_aset_eq | rewrite tb_aset_neq; auto].
Qed.

Lemma lock_inv s c i :
  InvS s c -> i < length (arrs s) -> a_alive (get s i) = true ->
  (forall b, a_base (get s i) = Some b -> 0 < c b) ->
  InvS (lock s i false) (upd c i (S (c i))).
Proof.
  intros HI Hi Hal Hb. unfold get in *.
  destruct (a_orig (g (arrs s) i)) eqn:Ho.
  - destruct (tb (tracker s) i) eqn:Ht.
    + rewrite lock_eq_tracked; auto; try apply HI. unfold InvS, mk; simpl.
      apply Inv_lock_tracked; auto.
    + rewrite lock_eq_fresh; auto; try apply HI.
      * unfold InvS, mk; simpl. apply Inv_lock_fresh; auto.
      * destruct (iLoc HI Hi) as [hC hRO hT]. specialize (hT Ho).
        unfold get. destruct (a_base (g (arrs s) i)) as [b|] eqn:Hbase.
        -- right. exists b. split; auto.
           destruct (gBase (iGA HI) _ Hbase) as (Hbi & Hbb & Hob & Hab).
           assert (Hb' : b < length (arrs s)) by lia.
           rewrite (tracked_eq s b (iGA HI) (iGT HI) Hb'). unfold get. rewrite (Hab Hal), andb_true_r.
           destruct (iLoc HI Hb') as [hC' hRO' hT']. rewrite Ho in Hob. specialize (hT' Hob).
           apply (l1 hT'). rewrite (lA hT'). apply Hb. reflexivity.
        -- left. apply (l3 hT); auto.
  - erewrite lock_eq_ro; eauto. apply Inv_c_ro; auto.
Qed.

Lemma lock_ops s i f : ops (lock s i f) = ops s.
Proof.
  unfold lock. cbv zeta.
  destruct (negb (tracked s i) && _); auto.
  destruct (negb (tracked s i)); reflexivity.
Qed.

Lemma lock_sbwl s i f : sbwl (arrs s) (arrs (lock s i f)).
Proof.
  unfold lock. cbv zeta.
  destruct (negb (tracked s i) && _). apply sbwl_refl.
  destruct (negb (tracked s i)); simpl; apply sbwl_upd.
Qed.

(* ================================================================== *)
(** * 4. [wake_views]                                                 *)
(* ================================================================== *)

Definition pb (vs : list nat) (C : list (nat * nat)) (k : nat) : bool :=
  existsb (Nat.eqb k) vs && Nat.eqb (cget k C) 0.

Lemma pb_cons_pos v vs C k : Nat.ltb 0 (cget v C) = true -> pb (v :: vs) C k = pb vs C k.
Proof.
  intros H. apply Nat.ltb_lt in H. unfold pb. simpl.
  destruct (Nat.eqb k v) eqn:E; auto. apply Nat.eqb_eq in E. subst k.
  assert (Nat.eqb (cget v C) 0 = false) by (apply Nat.eqb_neq; lia).
  rewrite H0, !andb_false_r. reflexivity.
Qed.
Lemma pb_cons_neq v vs C k : k <> v -> pb (v :: vs) C k = pb vs C k.
Proof. intros H. unfold pb. simpl. apply Nat.eqb_neq in H. rewrite H. reflexivity. Qed.
Lemma pb_cons_eq v vs C : Nat.ltb 0 (cget v C) = false -> pb (v :: vs) C v = true.
Proof.
  intros H. apply Nat.ltb_ge in H. unfold pb. simpl. rewrite Nat.eqb_refl. simpl.
  apply Nat.eqb_eq. lia.
Qed.

(* which entries of the waiting list the loop acts upon (model after the id-re-use repair): the key has no live
   operation ([pb]) and the array it designates has died or is a view of the released base [ib] ([elig]) *)
Definition elig (ib : nat) (A : list arr) (k : nat) : bool :=
  negb (a_alive (g A k)) || opt_nat_eqb (a_base (g A k)) ib.
Definition pw (ib : nat) (vs : list nat) (C : list (nat * nat)) (A : list arr) (k : nat) : bool :=
  pb vs C k && elig ib A k.

Lemma elig_sbwl ib A A' k : sbwl A A' -> elig ib A' k = elig ib A k.
Proof. intros [_ HS]. destruct (HS k) as (_ & Eb & Ea & _). unfold elig. rewrite Eb, Ea. reflexivity. Qed.
Lemma pw_sbwl ib vs C A A' k : sbwl A A' -> pw ib vs C A' k = pw ib vs C A k.
Proof. intros H. unfold pw. rewrite (elig_sbwl ib A A' k H). reflexivity. Qed.
Lemma pw_cons_pos ib v vs C A k : Nat.ltb 0 (cget v C) = true -> pw ib (v :: vs) C A k = pw ib vs C A k.
Proof. intros H. unfold pw. rewrite (pb_cons_pos _ _ _ _ H). reflexivity. Qed.
Lemma pw_cons_neq ib v vs C A k : k <> v -> pw ib (v :: vs) C A k = pw ib vs C A k.
Proof. intros H. unfold pw. rewrite pb_cons_neq; auto. Qed.
Lemma pw_cons_eq ib v vs C A : Nat.ltb 0 (cget v C) = false -> elig ib A v = true -> pw ib (v :: vs) C A v = true.
Proof. intros H E. unfold pw. rewrite (pb_cons_eq _ _ _ H), E. reflexivity. Qed.
Lemma pw_cons_inel ib v vs C A k : elig ib A v = false -> pw ib (v :: vs) C A k = pw ib vs C A k.
Proof.
  intros E. destruct (Nat.eq_dec k v) as [->|Hne].
  - unfold pw. rewrite E, !andb_false_r. reflexivity.
  - apply pw_cons_neq; auto.
Qed.

Lemma wake_spec ib vs : forall A1 C1 T1 rest A2 T2 rest2,
  (forall k j, aget k T1 = Some j -> j = k) ->
  wake_views ib vs A1 C1 T1 rest = (A2, T2, rest2) ->
  sbwl A1 A2 /\
  (forall k, aget k T2 = if pw ib vs C1 A1 k then None else aget k T1) /\
  (forall j, pw ib vs C1 A1 j && tb T1 j = false -> g A2 j = g A1 j) /\
  (forall j, pw ib vs C1 A1 j = true -> tb T1 j = true -> a_alive (g A1 j) = true -> a_wr (g A2 j) = true).
Proof.
  induction vs as [|v vs IH]; intros A1 C1 T1 rest A2 T2 rest2 HT HW; simpl in HW.
  - inversion HW; subst. split; [apply sbwl_refl|]. split; [|split]; auto.
    intros j H. discriminate.
  - destruct (Nat.ltb 0 (cget v C1)) eqn:Ec.
    { destruct (IH _ _ _ _ _ _ _ HT HW) as (Ha & Hb & Hc & Hd).
      split; [apply Ha|]. split; [|split]; intros k; rewrite (pw_cons_pos _ _ _ _ _ _ Ec); auto. }
    destruct (aget v T1) as [j0|] eqn:Ea.
    + assert (j0 = v) by (eapply HT; eauto). subst j0.
      assert (HT' : forall k j, aget k (adel v T1) = Some j -> j = k).
      { intros k j Hk. destruct (Nat.eq_dec k v) as [->|Hne].
        - rewrite aget_adel_eq in Hk. discriminate.
        - rewrite aget_adel_neq in Hk; eauto. }
      assert (Htv : tb T1 v = true) by (unfold tb; rewrite Ea; auto).
      destruct (a_alive (g A1 v)) eqn:Hal.
      * destruct (opt_nat_eqb (a_base (g A1 v)) ib) eqn:Hbv.
        -- (* a live view of the released base: woken *)
           assert (Hel : elig ib A1 v = true) by (unfold elig; rewrite Hbv; apply orb_true_r).
           assert (HS1 : sbwl A1 (upd_arr A1 v (set_wr true))) by apply sbwl_upd.
           assert (Epw : forall k, pw ib vs C1 (upd_arr A1 v (set_wr true)) k = pw ib vs C1 A1 k)
             by (intros k; apply pw_sbwl; auto).
           destruct (IH _ _ _ _ _ _ _ HT' HW) as (Ha & Hb & Hc & Hd).
           assert (Hv : v < length A1) by (apply alive_lt; auto).
           split; [|split; [|split]].
           ++ eapply sbwl_trans; [apply HS1 | apply Ha].
           ++ intros k. rewrite Hb, Epw. destruct (Nat.eq_dec k v) as [->|Hne].
              ** rewrite (pw_cons_eq _ _ _ _ _ Ec Hel), aget_adel_eq. destruct (pw ib vs C1 A1 v); auto.
              ** rewrite pw_cons_neq, aget_adel_neq; auto.
           ++ intros j Hj. destruct (Nat.eq_dec j v) as [->|Hne].
              ** rewrite (pw_cons_eq _ _ _ _ _ Ec Hel), Htv in Hj. discriminate.
              ** rewrite pw_cons_neq in Hj; auto. rewrite Hc.
                 --- apply g_upd_neq; auto.
                 --- rewrite Epw, tb_adel_neq; auto.
           ++ intros j Hp Ht Hl. destruct (Nat.eq_dec j v) as [->|Hne].
              ** rewrite Hc. rewrite g_upd_eq; auto. rewrite tb_adel_eq, andb_false_r. auto.
              ** rewrite pw_cons_neq in Hp; auto. apply Hd; auto.
                 --- rewrite Epw; auto.
                 --- rewrite tb_adel_neq; auto.
                 --- rewrite g_upd_neq; auto.
        -- (* the id now belongs to a live array that is not a view of the released base: skipped, nothing changes *)
           assert (Hel : elig ib A1 v = false) by (unfold elig; rewrite Hal, Hbv; reflexivity).
           destruct (IH _ _ _ _ _ _ _ HT HW) as (Ha & Hb & Hc & Hd).
           split; [apply Ha|]. split; [|split]; intros k; rewrite (pw_cons_inel _ _ _ _ _ k Hel); auto.
      * (* the waiting view has died: its entry is dropped *)
        assert (Hel : elig ib A1 v = true) by (unfold elig; rewrite Hal; reflexivity).
        destruct (IH _ _ _ _ _ _ _ HT' HW) as (Ha & Hb & Hc & Hd).
        split; [|split; [|split]].
        -- apply Ha.
        -- intros k. rewrite Hb. destruct (Nat.eq_dec k v) as [->|Hne].
           ++ rewrite (pw_cons_eq _ _ _ _ _ Ec Hel), aget_adel_eq. destruct (pw ib vs C1 A1 v); auto.
           ++ rewrite pw_cons_neq, aget_adel_neq; auto.
        -- intros j Hj. destruct (Nat.eq_dec j v) as [->|Hne].
           ++ rewrite (pw_cons_eq _ _ _ _ _ Ec Hel), Htv in Hj. discriminate.
           ++ rewrite pw_cons_neq in Hj; auto. apply Hc. rewrite tb_adel_neq; auto.
        -- intros j Hp Ht Hl. destruct (Nat.eq_dec j v) as [->|Hne].
           ++ congruence.
           ++ rewrite pw_cons_neq in Hp; auto. apply Hd; auto. rewrite tb_adel_neq; auto.
    + assert (Htv : tb T1 v = false) by (unfold tb; rewrite Ea; auto).
      destruct (IH _ _ _ _ _ _ _ HT HW) as (Ha & Hb & Hc & Hd).
      split; [|split; [|split]].
      -- apply Ha.
      -- intros k. rewrite Hb. destruct (Nat.eq_dec k v) as [->|Hne].
         ++ destruct (elig ib A1 v) eqn:Hel.
            ** rewrite (pw_cons_eq _ _ _ _ _ Ec Hel), Ea. destruct (pw ib vs C1 A1 v); auto.
            ** rewrite (pw_cons_inel _ _ _ _ _ v Hel). reflexivity.
         ++ rewrite pw_cons_neq; auto.
      -- intros j Hj. destruct (Nat.eq_dec j v) as [->|Hne].
         ++ apply Hc. rewrite Htv, andb_false_r. auto.
         ++ rewrite pw_cons_neq in Hj; auto.
      -- intros j Hp Ht Hl. destruct (Nat.eq_dec j v) as [->|Hne].
         ++ congruence.
         ++ rewrite pw_cons_neq in Hp; auto.
Qed.

(* ================================================================== *)
(** * 5. [release]                                                    *)
(* ================================================================== *)

Definition wclear (T' : list (nat * nat)) (W : list (nat * list nat)) : list (nat * list nat) :=
  match T' with [] => [] | _ => W end.

Lemma release_eq_noop s i : GA (arrs s) -> i < length (arrs s) ->
  cget i (counter s) = 0 -> a_wr (get s i) = false -> release s i = s.
Proof.
  intros HA Hi Hc Hw. unfold release. cbv zeta. unfold get in *. rewrite (gK HA Hi). rewrite Hc. simpl.
  rewrite Hw. destruct (a_base (g (arrs s) i)); reflexivity.
Qed.

Lemma release_eq_dec s i m : GA (arrs s) -> i < length (arrs s) ->
  cget i (counter s) = S (S m) -> a_wr (get s i) = false ->
  release s i = mk (arrs s) (aset i (S m) (counter s)) (tracker s) (waiting s) (ops s).
Proof.
  intros HA Hi Hc Hw. unfold release. cbv zeta. unfold get in *. rewrite (gK HA Hi). rewrite Hc. simpl.
  rewrite Hw. destruct (a_base (g (arrs s) i)); reflexivity.
Qed.

Definition wadd (i : nat) (cur : list nat) : list nat :=
  if existsb (Nat.eqb i) cur then cur else cur ++ [i].
Definition wcur (b : nat) (W : list (nat * list nat)) : list nat :=
  match aget b W with Some l => l | None => [] end.

Lemma release_eq_wait s i b : GA (arrs s) -> i < length (arrs s) ->
  cget i (counter s) = 1 -> a_base (get s i) = Some b -> a_wr (get s b) = false ->
  release s i = mk (arrs s) (adel i (counter s)) (tracker s)
                   (aset b (wadd i (wcur b (waiting s))) (waiting s)) (ops s).
Proof.
  intros HA Hi Hc Hb Hw. unfold get in *.
  assert (Hbl : b < length (arrs s)) by (destruct (gBase HA _ Hb); lia).
  unfold release. cbv zeta. unfold get. rewrite (gK HA Hi). rewrite Hc. simpl.
  rewrite Hb. rewrite (gK HA Hbl). rewrite Hw. simpl. rewrite Hb.
  unfold wadd, wcur. reflexivity.
Qed.

Lemma release_eq_untrack_view s i b : GA (arrs s) -> i < length (arrs s) ->
  cget i (counter s) = 1 -> a_base (get s i) = Some b -> a_wr (get s b) = true ->
  release s i = mk (upd_arr (arrs s) i (set_wr true)) (adel i (counter s)) (adel i (tracker s))
                   (wclear (adel i (tracker s)) (waiting s)) (ops s).
Proof.
  intros HA Hi Hc Hb Hw. unfold get in *.
  unfold release. cbv zeta. unfold get. rewrite (gK HA Hi). rewrite Hc. simpl.
  rewrite Hb. rewrite Hw. simpl. rewrite nth_upd_arr_eq by auto. simpl. rewrite Hb. reflexivity.
Qed.

Lemma release_eq_owner s i : GA (arrs s) -> i < length (arrs s) ->
  cget i (counter s) = 1 -> a_base (get s i) = None ->
  release s i =
    let A1 := upd_arr (arrs s) i (set_wr true) in
    let C1 := adel i (counter s) in
    let T1 := adel i (tracker s) in
    let W1 := wclear T1 (waiting s) in
    match aget i W1 with
    | Some vs => let '(A2, T2, rest) := wake_views i vs A1 C1 T1 [] in
                 mk A2 C1 T2 (match rest with [] => adel i W1 | _ => aset i rest W1 end) (ops s)
    | None => mk A1 C1 T1 W1 (ops s)
    end.
Proof.
  intros HA Hi Hc Hb. unfold get in *.
  unfold release. cbv zeta. unfold get. rewrite (gK HA Hi). rewrite Hc. simpl.
  rewrite Hb. simpl. rewrite nth_upd_arr_eq by auto. simpl. rewrite Hb.
  unfold wclear. destruct (aget i match adel i (tracker s) with [] => [] | _ :: _ => waiting s end); reflexivity.
Qed.

Lemma GT_adel n i T : GT n T -> GT n (adel i T).
Proof.
  intros H k j Hk. destruct (Nat.eq_dec k i) as [->|Hne].
  - rewrite aget_adel_eq in Hk. discriminate.
  - rewrite aget_adel_neq in Hk; auto.
Qed.
Lemma GC_adel n i C : GC n C -> GC n (adel i C).
Proof.
  intros H k Hk. destruct (Nat.eq_dec k i) as [->|Hne].
  - apply cget_adel_eq.
  - rewrite cget_adel_neq; auto.
Qed.
Lemma GC_aset n i v C : i < n -> GC n C -> GC n (aset i v C).
Proof. intros Hi H k Hk. rewrite cget_aset_neq; auto. lia. Qed.

Lemma tb_nil k : tb [] k = false. Proof. reflexivity. Qed.

Lemma inw_wclear T' W b v k : tb T' k = true -> inw (wclear T' W) b v = inw W b v.
Proof. intros H. destruct T'; [rewrite tb_nil in H; discriminate | reflexivity]. Qed.

Lemma Inv_release_dec A C T W c i m :
  Inv A C T W c -> i < length A -> a_orig (g A i) = true -> cget i C = S (S m) ->
  Inv A (aset i (S m) C) T W (upd c i (S m)).
Proof.
  intros HI Hi Ho Hc.
  destruct (iLoc HI Hi) as [hC hRO hT]. specialize (hT Ho). destruct hT as [a1 a2 a3 a4 a5 a6 a7].
  assert (Ht : tb T i = true) by (apply a2; lia).
  destruct HI as [H1 H2 H3 H4 H5]. split; auto.
  - apply GC_aset; auto.
  - intros j Hj. destruct (Nat.eq_dec j i) as [->|Hne]; auto. rewrite upd_neq in Hj; auto.
  - intros j Hj. destruct (Nat.eq_dec j i) as [->|Hne].
    + split.
      * intros _. apply hC. lia.
      * intros; congruence.
      * intros _. split; rewrite ?cget_aset_eq, ?upd_eq; auto; intros; try lia; try congruence.
    + eapply Loc_frame; eauto.
      * apply cget_aset_neq; auto.
      * apply upd_neq; auto.
Qed.

Lemma Inv_release_wait A C T W W' c i b :
  Inv A C T W c -> i < length A -> a_orig (g A i) = true -> a_base (g A i) = Some b ->
  cget i C = 1 -> a_wr (g A b) = false ->
  inw W' b i = true -> (forall b' v, inw W b' v = true -> inw W' b' v = true) ->
  Inv A (adel i C) T W' (upd c i 0).
Proof.
  intros HI Hi Ho Hb Hc Hwb Hin Hsub.
  destruct (iLoc HI Hi) as [hC hRO hT]. specialize (hT Ho). destruct hT as [a1 a2 a3 a4 a5 a6 a7].
  assert (Ht : tb T i = true) by (apply a2; lia).
  destruct (gBase (iGA HI) _ Hb) as (Hbi & Hbb & Hob & Hab).
  assert (Hbl : b < length A) by lia.
  assert (Htb : tb T b = true).
  { destruct (tb T b) eqn:E; auto.
    destruct (iLoc HI Hbl) as [_ _ hT']. rewrite Ho in Hob. specialize (hT' Hob).
    assert (a_wr (g A b) = true) by (apply (l3 hT'); auto). congruence. }
  destruct HI as [H1 H2 H3 H4 H5]. split; auto.
  - apply GC_adel; auto.
  - intros j Hj. destruct (Nat.eq_dec j i) as [->|Hne].
    + rewrite upd_eq in Hj. lia.
    + rewrite upd_neq in Hj; auto.
  - intros j Hj. destruct (Nat.eq_dec j i) as [->|Hne].
    + split.
      * rewrite upd_eq. lia.
      * intros; congruence.
      * intros _. split; rewrite ?cget_adel_eq, ?upd_eq; auto; intros; try lia; try congruence.
        assert (b0 = b) by congruence. subst b0. auto.
    + eapply Loc_frame; eauto.
      * apply cget_adel_neq; auto.
      * apply upd_neq; auto.
Qed.

Lemma Inv_release_untrack_view A C T W c i b :
  Inv A C T W c -> i < length A -> a_orig (g A i) = true -> a_base (g A i) = Some b ->
  cget i C = 1 ->
  Inv (upd_arr A i (set_wr true)) (adel i C) (adel i T) (wclear (adel i T) W) (upd c i 0).
Proof.
  intros HI Hi Ho Hb Hc.
  destruct (iLoc HI Hi) as [hC hRO hT]. specialize (hT Ho). destruct hT as [a1 a2 a3 a4 a5 a6 a7].
  assert (HGA := iGA HI).
  destruct HI as [H1 H2 H3 H4 H5].
  assert (HS : sbwl A (upd_arr A i (set_wr true))) by apply sbwl_upd.
  split; rewrite ?length_upd_arr.
  - eapply GA_sbwl; eauto.
  - apply GT_adel; auto.
  - apply GC_adel; auto.
  - intros j Hj. destruct (Nat.eq_dec j i) as [->|Hne].
    + rewrite upd_eq in Hj. lia.
    + rewrite upd_neq in Hj; auto.
  - intros j Hj. destruct (Nat.eq_dec j i) as [->|Hne].
    + split; rewrite ?g_upd_eq by auto; simpl.
      * rewrite upd_eq. lia.
      * intros; congruence.
      * intros _. split; rewrite ?g_upd_eq by auto; simpl;
          rewrite ?cget_adel_eq, ?upd_eq, ?tb_adel_eq; auto; intros; try lia; try congruence.
    + eapply Loc_frame; eauto.
      * apply g_upd_neq; auto.
      * apply cget_adel_neq; auto.
      * apply tb_adel_neq; auto.
      * apply upd_neq; auto.
      * intros b' Hoj Hbj Htj Hcj Hw Htb'.
        assert (Hne' : b' <> i).
        { intros ->. destruct (gBase HGA _ Hbj) as (_ & Hbb & _). congruence. }
        split.
        -- rewrite (inw_wclear _ _ _ _ j); auto. rewrite tb_adel_neq; auto.
        -- rewrite tb_adel_neq; auto.
Qed.

Lemma Inv_release_owner A C T W c i A2 T2 W2 (pw : nat -> bool) :
  Inv A C T W c -> i < length A -> a_orig (g A i) = true -> a_base (g A i) = None -> cget i C = 1 ->
  (forall k, pw k = true -> k <> i -> cget k C = 0) ->
  (forall k, aget k T2 = if Nat.eqb k i || pw k then None else aget k T) ->
  sbwl A A2 ->
  a_wr (g A2 i) = true ->
  (forall j, j <> i -> pw j && tb T j = false -> g A2 j = g A j) ->
  (forall j, j <> i -> pw j = true -> tb T j = true -> a_alive (g A j) = true -> a_wr (g A2 j) = true) ->
  (forall v, v <> i -> a_base (g A v) = Some i -> inw W i v = true -> tb T v = true -> cget v C = 0 -> pw v = true) ->
  ((forall b v, b <> i -> inw W b v = true -> inw W2 b v = true) \/ (forall k, tb T2 k = false)) ->
  Inv A2 (adel i C) T2 W2 (upd c i 0).
Proof.
  intros HI Hi Ho Hb Hc Hp0 HT2 HS Hwi Hun Hwk Hall HW2.
  assert (HGA := iGA HI).
  assert (Htb2 : forall k, tb T2 k = if Nat.eqb k i || pw k then false else tb T k).
  { intros k. unfold tb. rewrite HT2. destruct (Nat.eqb k i || pw k); auto. }
  destruct HS as [HL HS].
  split; rewrite ?HL.
  - eapply GA_sbwl; eauto. split; auto.
  - intros k j Hk. rewrite HT2 in Hk. destruct (Nat.eqb k i || pw k); [discriminate|].
    apply (iGT HI); auto.
  - apply GC_adel. apply (iGC HI).
  - intros j Hj. destruct (Nat.eq_dec j i) as [->|Hne].
    + rewrite upd_eq in Hj. lia.
    + rewrite upd_neq in Hj; auto. apply (iLt HI); auto.
  - intros j Hj. destruct (HS j) as (Ek & Eb & Ea & Eo & Eu).
    destruct (Nat.eq_dec j i) as [->|Hne].
    + assert (Hti : tb T2 i = false) by (rewrite Htb2, Nat.eqb_refl; reflexivity).
      split.
      * rewrite upd_eq. lia.
      * intros; congruence.
      * intros _. split; rewrite ?cget_adel_eq, ?upd_eq, ?Eb; auto; intros; try lia; try congruence.
    + assert (Ei : Nat.eqb j i = false) by (apply Nat.eqb_neq; auto).
      destruct (pw j && tb T j) eqn:Epw.
      * apply andb_true_iff in Epw. destruct Epw as [Epj Etj].
        assert (Hcj : cget j C = 0) by (apply Hp0; auto).
        destruct (iLoc HI Hj) as [hC hRO hT].
        assert (Hoj : a_orig (g A j) = true).
        { destruct (a_orig (g A j)) eqn:E; auto. destruct (hRO eq_refl) as (_ & ? & _). congruence. }
        specialize (hT Hoj). destruct hT as [a1 a2 a3 a4 a5 a6 a7].
        assert (Hbj : a_base (g A j) <> None).
        { intros E. specialize (a5 E Etj). lia. }
        assert (Htj2 : tb T2 j = false) by (rewrite Htb2, Ei, Epj; reflexivity).
        split.
        -- rewrite upd_neq by auto. intros. lia.
        -- rewrite Eo. intros; congruence.
        -- intros _. split; rewrite ?cget_adel_neq by auto; rewrite ?upd_neq by auto; rewrite ?Eb, ?Ea, ?Eu;
             auto; intros; try lia; try congruence; try (apply Hwk; auto).
      * assert (Eg : g A2 j = g A j) by (apply Hun; auto).
        assert (Etj : tb T2 j = tb T j).
        { rewrite Htb2, Ei. simpl. destruct (pw j); simpl in *; auto. }
        apply Loc_frame with (A := A) (C := C) (T := T) (W := W) (c := c).
        -- apply (iLoc HI Hj).
        -- exact Eg.
        -- apply cget_adel_neq; auto.
        -- exact Etj.
        -- apply upd_neq; auto.
        -- intros b Hoj Hbj Htj Hcj Hw Htb.
           assert (Epj : pw j = false) by (rewrite Htj, andb_true_r in Epw; auto).
           destruct (Nat.eq_dec b i) as [->|Hbi].
           { rewrite (Hall j) in Epj; auto. discriminate. }
           split.
           ++ destruct HW2 as [HW2|HW2]; auto. rewrite HW2 in Etj. congruence.
           ++ rewrite Htb2. apply Nat.eqb_neq in Hbi. rewrite Hbi. simpl.
              destruct (pw b) eqn:Epb; auto.
              apply Nat.eqb_neq in Hbi.
              destruct (gBase HGA _ Hbj) as (Hlt & Hbb & Hob & _).
              assert (Hbl : b < length A) by lia.
              destruct (iLoc HI Hbl) as [_ _ hT']. rewrite Hoj in Hob. specialize (hT' Hob).
              assert (0 < cget b C) by (apply (l4 hT'); auto).
              rewrite (Hp0 b) in H; auto. lia.
Qed.

Lemma Inv_release_owner_full A C T W c i :
  Inv A C T W c -> i < length A -> a_orig (g A i) = true -> a_base (g A i) = None -> cget i C = 1 ->
  let A1 := upd_arr A i (set_wr true) in
  let C1 := adel i C in
  let T1 := adel i T in
  let W1 := wclear T1 W in
  match aget i W1 with
  | Some vs => let '(A2, T2, rest) := wake_views i vs A1 C1 T1 [] in
               Inv A2 C1 T2 (match rest with [] => adel i W1 | _ => aset i rest W1 end) (upd c i 0)
  | None => Inv A1 C1 T1 W1 (upd c i 0)
  end.
Proof.
  intros HI Hi Ho Hb Hc A1 C1 T1 W1.
  assert (HS1 : sbwl A A1) by apply sbwl_upd.
  assert (HT1 : forall k j, aget k T1 = Some j -> j = k).
  { intros k j Hk. apply (GT_adel _ i _ (iGT HI)) in Hk. tauto. }
  destruct (aget i W1) as [vs|] eqn:EW.
  - assert (EW1 : W1 = W).
    { unfold W1, wclear in *. destruct T1; auto. simpl in EW. discriminate. }
    destruct (wake_views i vs A1 C1 T1 []) as [[A2 T2] rest] eqn:Ewk.
    destruct (wake_spec _ _ _ _ _ _ _ _ _ HT1 Ewk) as (Ha & Hb2 & Hc2 & Hd2).
    apply Inv_release_owner with (A := A) (T := T) (W := W) (pw := pw i vs C1 A1); auto.
    + intros k Hk Hne. unfold pw, pb in Hk. apply andb_true_iff in Hk. destruct Hk as [Hk _].
      apply andb_true_iff in Hk. destruct Hk as [_ Hk].
      apply Nat.eqb_eq in Hk. unfold C1 in Hk. rewrite cget_adel_neq in Hk; auto.
    + intros k. rewrite Hb2. unfold T1. destruct (Nat.eq_dec k i) as [->|Hne].
      * rewrite Nat.eqb_refl, aget_adel_eq. simpl. destruct (pw i vs C1 A1 i); auto.
      * apply Nat.eqb_neq in Hne. rewrite Hne. simpl. apply Nat.eqb_neq in Hne.
        rewrite aget_adel_neq; auto.
    + eapply sbwl_trans; eauto.
    + rewrite Hc2.
      * unfold A1. rewrite g_upd_eq; auto.
      * unfold T1. rewrite tb_adel_eq, andb_false_r. auto.
    + intros j Hne Hj. rewrite Hc2.
      * unfold A1. apply g_upd_neq; auto.
      * unfold T1. rewrite tb_adel_neq; auto.
    + intros j Hne Hp Ht Hal. apply Hd2; auto.
      * unfold T1. rewrite tb_adel_neq; auto.
      * unfold A1. rewrite g_upd_neq; auto.
    + intros v Hne Hbv Hw Ht Hcv. unfold pw, pb, elig. rewrite EW1 in EW. unfold inw in Hw. rewrite EW in Hw.
      rewrite Hw. unfold C1. rewrite cget_adel_neq, Hcv by auto.
      unfold A1. rewrite g_upd_neq by auto. rewrite Hbv. simpl. rewrite Nat.eqb_refl. apply orb_true_r.
    + left. intros b v Hne Hw. rewrite EW1. unfold inw in *.
      destruct rest; [rewrite aget_adel_neq | rewrite aget_aset_neq]; auto.
  - apply Inv_release_owner with (A := A) (T := T) (W := W) (pw := fun _ => false); auto.
    + intros; discriminate.
    + intros k. rewrite orb_false_r. unfold T1. destruct (Nat.eq_dec k i) as [->|Hne].
      * rewrite Nat.eqb_refl, aget_adel_eq. auto.
      * rewrite aget_adel_neq; auto. apply Nat.eqb_neq in Hne. rewrite Hne. auto.
    + unfold A1. rewrite g_upd_eq; auto.
    + intros j Hne _. unfold A1. apply g_upd_neq; auto.
    + intros; discriminate.
    + intros v Hne _ Hw Ht Hcv. exfalso.
      assert (Ht1 : tb T1 v = true) by (unfold T1; rewrite tb_adel_neq; auto).
      unfold W1, wclear in EW. destruct T1 eqn:ET1.
      * rewrite tb_nil in Ht1. discriminate.
      * unfold inw in Hw. rewrite EW in Hw. discriminate.
    + unfold W1, wclear. destruct T1 eqn:ET1.
      * right. intros k. apply tb_nil.
      * left. auto.
Qed.

Lemma release_inv s c i : InvS s c -> 0 < c i -> InvS (release s i) (upd c i (c i - 1)).
Proof.
  intros HI Hci.
  assert (Hi : i < length (arrs s)) by (apply (iLt HI); auto).
  destruct (iLoc HI Hi) as [hC hRO hT]. specialize (hC Hci).
  assert (HGA := iGA HI).
  destruct (a_orig (g (arrs s) i)) eqn:Ho.
  - specialize (hT eq_refl). destruct hT as [a1 a2 a3 a4 a5 a6 a7].
    assert (Ht : tb (tracker s) i = true) by (apply a2; lia).
    assert (Hw : a_wr (g (arrs s) i) = false) by auto.
    destruct (c i) as [|[|m]] eqn:Ec; [lia| |].
    + (* last reference *)
      simpl.
      destruct (a_base (g (arrs s) i)) as [b|] eqn:Hb.
      * destruct (a_wr (g (arrs s) b)) eqn:Hwb.
        -- rewrite (release_eq_untrack_view s i b); auto.
           unfold InvS, mk; simpl. eapply Inv_release_untrack_view; eauto.
        -- rewrite (release_eq_wait s i b); auto.
           unfold InvS, mk; simpl. eapply Inv_release_wait; eauto.
           ++ unfold inw. rewrite aget_aset_eq. unfold wadd.
              destruct (existsb (Nat.eqb i) (wcur b (waiting s))) eqn:E; auto.
              rewrite existsb_app. simpl. rewrite Nat.eqb_refl. rewrite orb_true_r. auto.
           ++ intros b' v Hin. unfold inw in *. destruct (Nat.eq_dec b' b) as [->|Hne].
              ** rewrite aget_aset_eq. unfold wadd, wcur.
                 destruct (aget b (waiting s)) as [l|]; [|discriminate].
                 destruct (existsb (Nat.eqb i) l); auto. rewrite existsb_app, Hin. auto.
              ** rewrite aget_aset_neq; auto.
      * rewrite (release_eq_owner s i); auto.
        assert (HF := Inv_release_owner_full _ _ _ _ _ i HI Hi Ho Hb a1). cbv zeta in *.
        destruct (aget i (wclear (adel i (tracker s)) (waiting s))) as [vs|].
        -- destruct (wake_views i vs _ _ _ []) as [[A2 T2] rest]. exact HF.
        -- exact HF.
    + rewrite (release_eq_dec s i m); auto.
      unfold InvS, mk; simpl. replace (S (S m) - 1) with (S m) by lia.
      apply Inv_release_dec; auto.
  - destruct (hRO eq_refl) as (Hw & Ht & Hc).
    rewrite release_eq_noop; auto. apply Inv_c_ro; auto.
Qed.

Lemma release_ops s i : ops (release s i) = ops s.
Proof.
  unfold release. cbv zeta.
  set (s1 := if Nat.eqb _ 1 then _ else _).
  assert (H1 : ops s1 = ops s).
  { unfold s1. destruct (Nat.eqb _ 1).
    - destruct (a_base (get s i)); auto. destruct (negb _); auto.
    - destruct (Nat.ltb 0 _); auto. }
  destruct (a_base (get s1 i)); auto. destruct (a_wr (get s1 i)); auto.
  destruct (aget _ (waiting s1)); auto.
  destruct (wake_views _ _ _ _ _ _) as [[? ?] ?]. simpl. auto.
Qed.

Lemma wake_sbwl ib vs : forall A C T rest, sbwl A (fst (fst (wake_views ib vs A C T rest))).
Proof.
  induction vs as [|v vs IH]; intros A C T rest; simpl.
  - apply sbwl_refl.
  - destruct (Nat.ltb 0 (cget v C)); auto.
    destruct (aget v T) as [j|]; auto.
    destruct (a_alive (g A j)); auto.
    destruct (opt_nat_eqb (a_base (g A j)) ib); auto.
    eapply sbwl_trans; [apply sbwl_upd | apply IH].
Qed.

Lemma release_sbwl s i : sbwl (arrs s) (arrs (release s i)).
Proof.
  unfold release. cbv zeta.
  set (s1 := if Nat.eqb _ 1 then _ else _).
  assert (H1 : sbwl (arrs s) (arrs s1)).
  { unfold s1. destruct (Nat.eqb _ 1).
    - destruct (a_base (get s i)).
      + destruct (negb _); simpl; [apply sbwl_refl | apply sbwl_upd].
      + simpl. apply sbwl_upd.
    - destruct (Nat.ltb 0 _); simpl; apply sbwl_refl. }
  destruct (a_base (get s1 i)); auto. destruct (a_wr (get s1 i)); auto.
  destruct (aget _ (waiting s1)) as [vs|]; auto.
  assert (H2 := wake_sbwl i vs (arrs s1) (counter s1) (tracker s1) []).
  destruct (wake_views _ _ _ _ _ _) as [[A2 T2] rest]. simpl in *.
  eapply sbwl_trans; eauto.
Qed.

(* ================================================================== *)
(** * 6. New arrays, [set_used], [set_dead]                           *)
(* ================================================================== *)

Lemma GA_same A A' : length A' = length A ->
  (forall j, a_key (g A' j) = a_key (g A j) /\ a_base (g A' j) = a_base (g A j) /\
             a_orig (g A' j) = a_orig (g A j)) ->
  (forall j b, a_base (g A j) = Some b -> a_alive (g A' j) = true ->
               a_alive (g A j) = true /\ (a_alive (g A b) = true -> a_alive (g A' b) = true)) ->
  GA A -> GA A'.
Proof.
  intros HL HS Hal [HK HB]. split.
  - intros i Hi. destruct (HS i) as (E&_). rewrite E. apply HK. lia.
  - intros i b Hb. destruct (HS i) as (_&Eb&Eo). destruct (HS b) as (_&Eb'&Eo').
    rewrite Eb in Hb. destruct (HB _ _ Hb) as (H1&H2&H3&H4).
    rewrite Eb', Eo', Eo. repeat split; auto.
    intros Ha. destruct (Hal _ _ Hb Ha) as [Ha1 Ha2]. auto.
Qed.

Lemma g_app_old A x j : j < length A -> g (A ++ [x]) j = g A j.
Proof. intros. apply app_nth1; auto. Qed.
Lemma g_app_new A x : g (A ++ [x]) (length A) = x.
Proof. rewrite app_nth2; auto. rewrite Nat.sub_diag. reflexivity. Qed.

Lemma Inv_new_gen A C T W c x :
  Inv A C T W c ->
  a_key x = length A -> a_alive x = true -> a_used x = false ->
  (forall b, a_base x = Some b -> b < length A /\ a_base (g A b) = None /\ a_orig (g A b) = a_orig x /\
                                   a_alive (g A b) = true) ->
  (a_orig x = false -> a_wr x = false) ->
  (a_orig x = true -> a_base x = None -> a_wr x = true) ->
  Inv (A ++ [x]) C T W c.
Proof.
  intros HI Hk Hal Hu Hb Hro Hw.
  assert (HGT : GT (length A) T) by apply HI. unfold GT in HGT.
  assert (HL : length (A ++ [x]) = S (length A)) by (rewrite app_length; simpl; lia).
  assert (Hc0 : c (length A) = 0).
  { destruct (c (length A)) eqn:E; auto. assert (length A < length A) by (apply (iLt HI); lia). lia. }
  assert (Ht0 : tb T (length A) = false).
  { unfold tb. destruct (aget (length A) T) eqn:E; auto. destruct (HGT _ _ E). lia. }
  assert (HC0 : cget (length A) C = 0) by (apply (iGC HI); lia).
  split; rewrite ?HL.
  - destruct (iGA HI) as [HK HB]. split.
    + intros i Hi. rewrite HL in Hi. destruct (Nat.eq_dec i (length A)) as [->|Hne].
      * rewrite g_app_new. auto.
      * rewrite g_app_old by lia. apply HK. lia.
    + intros i b Hbi. assert (Hi := base_lt _ _ Hbi). rewrite HL in Hi.
      destruct (Nat.eq_dec i (length A)) as [->|Hne].
      * rewrite g_app_new in *. destruct (Hb _ Hbi) as (H1 & H2 & H3 & H4).
        rewrite g_app_old by lia. auto.
      * rewrite g_app_old in Hbi by lia. destruct (HB _ _ Hbi) as (H1 & H2 & H3 & H4).
        rewrite !g_app_old by lia. auto.
  - intros k j Hkj. destruct (HGT _ _ Hkj). split; auto.
  - intros k Hk'. apply (iGC HI). lia.
  - intros j Hj. assert (j < length A) by (apply (iLt HI); auto). lia.
  - intros j Hj. destruct (Nat.eq_dec j (length A)) as [->|Hne].
    + split; rewrite ?g_app_new.
      * rewrite Hc0. lia.
      * intros Ho. auto.
      * intros Ho. split; rewrite ?g_app_new, ?Hc0, ?HC0, ?Ht0; auto; intros; try lia; try congruence.
    + assert (Hj' : j < length A) by lia.
      apply Loc_frame with (A := A) (C := C) (T := T) (W := W) (c := c); auto.
      * apply (iLoc HI Hj').
      * apply g_app_old; auto.
Qed.

Definition new_owner (k : nat) (w : bool) : arr :=
  {| a_key := k; a_wr := w; a_base := None; a_alive := true; a_orig := w; a_used := false |}.
Definition new_view (A : list arr) (k src : nat) : arr :=
  let o := match a_base (g A src) with Some b => b | None => src end in
  {| a_key := k; a_wr := a_wr (g A src); a_base := Some o; a_alive := true;
     a_orig := a_orig (g A o); a_used := false |}.

Lemma Inv_new_owner A C T W c w : Inv A C T W c -> Inv (A ++ [new_owner (length A) w]) C T W c.
Proof.
  intros HI. apply Inv_new_gen; simpl; auto. intros; discriminate.
Qed.

Lemma Inv_new_view A C T W c src : Inv A C T W c -> src < length A -> a_alive (g A src) = true ->
  Inv (A ++ [new_view A (length A) src]) C T W c.
Proof.
  intros HI Hs Hal. apply Inv_new_gen; unfold new_view; simpl; auto.
  - intros b Hb. inversion Hb; subst b; clear Hb.
    destruct (a_base (g A src)) as [b|] eqn:Hbs.
    + destruct (gBase (iGA HI) _ Hbs) as (H1 & H2 & H3 & H4). repeat split; auto. lia.
    + auto.
  - intros Ho. destruct (a_base (g A src)) as [b|] eqn:Hbs.
    + destruct (gBase (iGA HI) _ Hbs) as (H1 & H2 & H3 & H4).
      rewrite H3 in Ho. destruct (iLoc HI Hs) as [_ hRO _]. apply hRO; auto.
    + destruct (iLoc HI Hs) as [_ hRO _]. apply hRO; auto.
  - intros; discriminate.
Qed.

Lemma Inv_set_used A C T W c i : Inv A C T W c -> 0 < c i -> Inv (upd_arr A i set_used) C T W c.
Proof.
  intros HI Hci.
  assert (Hi : i < length A) by (apply (iLt HI); auto).
  assert (HS : forall j, a_key (g (upd_arr A i set_used) j) = a_key (g A j) /\
                         a_base (g (upd_arr A i set_used) j) = a_base (g A j) /\
                         a_orig (g (upd_arr A i set_used) j) = a_orig (g A j) /\
                         a_alive (g (upd_arr A i set_used) j) = a_alive (g A j) /\
                         a_wr (g (upd_arr A i set_used) j) = a_wr (g A j)).
  { intros j. destruct (Nat.eq_dec j i) as [->|Hne].
    - rewrite g_upd_eq by auto. simpl. repeat split.
    - rewrite g_upd_neq by auto. repeat split. }
  split; rewrite ?length_upd_arr; [ | apply (iGT HI) | apply (iGC HI) | apply (iLt HI) | ].
  - apply GA_same with (A := A); [ | | | apply (iGA HI)].
    + apply length_upd_arr.
    + intros j. destruct (HS j) as (?&?&?&?&?). auto.
    + intros j b Hb Ha. destruct (HS j) as (?&?&?&E1&?). destruct (HS b) as (?&?&?&E2&?).
      rewrite E1 in Ha. rewrite E2. auto.
  - intros j Hj. destruct (Nat.eq_dec j i) as [->|Hne].
    + destruct (iLoc HI Hi) as [hC hRO hT]. destruct (HS i) as (Ek & Eb & Eo & Ea & Ew).
      split; rewrite ?Eo, ?Ea, ?Ew; auto.
      intros Ho. specialize (hT Ho). destruct hT as [a1 a2 a3 a4 a5 a6 a7].
      split; rewrite ?Eb, ?Ea, ?Ew; auto.
      intros _ _ _ Ht. assert (tb T i = true) by (apply a2; lia). congruence.
    + apply Loc_frame with (A := A) (C := C) (T := T) (W := W) (c := c); auto.
      * apply (iLoc HI Hj).
      * apply g_upd_neq; auto.
Qed.

Lemma Inv_fold_used listed : forall A C T W c, Inv A C T W c -> (forall i, In i listed -> 0 < c i) ->
  Inv (fold_left (fun l i => upd_arr l i set_used) listed A) C T W c.
Proof.
  induction listed as [|i t IH]; intros A C T W c HI H; simpl; auto.
  apply IH.
  - apply Inv_set_used; auto. apply H. left; auto.
  - intros j Hj. apply H. right; auto.
Qed.

Lemma Inv_die A C T W c i : Inv A C T W c -> a_alive (g A i) = true -> c i = 0 ->
  (forall j, a_alive (g A j) = true -> a_base (g A j) <> Some i) ->
  Inv (upd_arr A i set_dead) C T W c.
Proof.
  intros HI Hal Hci Hnv.
  assert (Hi : i < length A) by (apply alive_lt; auto).
  assert (HS : forall j, a_key (g (upd_arr A i set_dead) j) = a_key (g A j) /\
                         a_base (g (upd_arr A i set_dead) j) = a_base (g A j) /\
                         a_orig (g (upd_arr A i set_dead) j) = a_orig (g A j) /\
                         a_used (g (upd_arr A i set_dead) j) = a_used (g A j) /\
                         a_wr (g (upd_arr A i set_dead) j) = a_wr (g A j)).
  { intros j. destruct (Nat.eq_dec j i) as [->|Hne].
    - rewrite g_upd_eq by auto. simpl. repeat split.
    - rewrite g_upd_neq by auto. repeat split. }
  split; rewrite ?length_upd_arr; [ | apply (iGT HI) | apply (iGC HI) | apply (iLt HI) | ].
  - apply GA_same with (A := A); [ | | | apply (iGA HI)].
    + apply length_upd_arr.
    + intros j. destruct (HS j) as (?&?&?&?&?). auto.
    + intros j b Hb Ha. destruct (Nat.eq_dec j i) as [->|Hne].
      * rewrite g_upd_eq in Ha; auto. simpl in Ha. discriminate.
      * rewrite g_upd_neq in Ha; auto. split; auto. intros Hab.
        destruct (Nat.eq_dec b i) as [->|Hne'].
        -- exfalso. apply (Hnv j); auto.
        -- rewrite g_upd_neq; auto.
  - intros j Hj. destruct (Nat.eq_dec j i) as [->|Hne].
    + destruct (iLoc HI Hi) as [hC hRO hT]. destruct (HS i) as (Ek & Eb & Eo & Eu & Ew).
      split; rewrite ?Eo, ?Ew; auto.
      * intros. lia.
      * intros Ho. specialize (hT Ho). destruct hT as [a1 a2 a3 a4 a5 a6 a7].
        split; rewrite ?Eb, ?Eu, ?Ew; auto;
          try (rewrite g_upd_eq by auto; simpl; intros; discriminate).
    + apply Loc_frame with (A := A) (C := C) (T := T) (W := W) (c := c); auto.
      * apply (iLoc HI Hj).
      * apply g_upd_neq; auto.
Qed.

(* ================================================================== *)
(** * 7. [uniq_bases_then], folds of lock / release                   *)
(* ================================================================== *)

Fixpoint ord_ok (A : list arr) (seen l : list nat) : Prop :=
  match l with
  | [] => True
  | i :: t => ~ In i seen /\ i < length A /\ a_alive (g A i) = true /\
              (forall b, a_base (g A i) = Some b -> In b seen) /\ ord_ok A (i :: seen) t
  end.

Lemma ubt_ord_ok s : GA (arrs s) -> forall l seen,
  (forall i, In i l -> i < length (arrs s) /\ a_alive (get s i) = true) ->
  ord_ok (arrs s) seen (uniq_bases_then s l seen).
Proof.
  intros HA. induction l as [|i t IH]; intros seen H; simpl; auto.
  assert (Ht : forall j, In j t -> j < length (arrs s) /\ a_alive (get s j) = true)
    by (intros; apply H; right; auto).
  destruct (H i (or_introl eq_refl)) as [Hi Hal]. unfold get in *.
  destruct (existsb (Nat.eqb i) seen) eqn:E; auto.
  apply existsb_eqb_nIn in E.
  destruct (a_base (g (arrs s) i)) as [b|] eqn:Hb.
  - destruct (gBase HA _ Hb) as (Hbi & Hbb & Hob & Hab).
    destruct (existsb (Nat.eqb b) seen) eqn:Eb.
    + apply existsb_eqb_In in Eb. simpl. repeat split; auto.
      intros b0 Hb0. rewrite Hb in Hb0. inversion Hb0; subst; auto.
    + apply existsb_eqb_nIn in Eb. simpl. repeat split; auto; try lia.
      * intros b0 Hb0. congruence.
      * intros [Hx|Hx]; [lia | auto].
      * intros b0 Hb0. rewrite Hb in Hb0. inversion Hb0; subst; auto.
  - simpl. repeat split; auto. intros b0 Hb0. congruence.
Qed.

Lemma ubt_in s : forall l seen i, In i l -> In i seen \/ In i (uniq_bases_then s l seen).
Proof.
  induction l as [|i0 t IH]; intros seen i Hin; simpl in *; [tauto|].
  destruct (existsb (Nat.eqb i0) seen) eqn:E.
  - destruct Hin as [->|Hin]; auto. apply existsb_eqb_In in E. auto.
  - destruct (a_base (get s i0)) as [b|].
    + destruct (existsb (Nat.eqb b) seen).
      * destruct Hin as [->|Hin]; [right; left; auto|].
        destruct (IH (i0 :: seen) i Hin) as [[->|H]|H]; simpl; auto.
      * destruct Hin as [->|Hin]; [right; right; left; auto|].
        destruct (IH (i0 :: b :: seen) i Hin) as [[->|[->|H]]|H]; simpl; auto.
    + destruct Hin as [->|Hin]; [right; left; auto|].
      destruct (IH (i0 :: seen) i Hin) as [[->|H]|H]; simpl; auto.
Qed.

Lemma ord_ok_props A : forall l seen, ord_ok A seen l ->
  NoDup l /\ forall i, In i l -> ~ In i seen /\ i < length A /\ a_alive (g A i) = true /\
                                forall b, a_base (g A i) = Some b -> In b seen \/ In b l.
Proof.
  induction l as [|i t IH]; intros seen H; simpl in *.
  - split; [constructor | tauto].
  - destruct H as (H1 & H2 & H3 & H4 & H5). destruct (IH _ H5) as [Hn Hall]. split.
    + constructor; auto. intros Hin. destruct (Hall _ Hin) as (Hx & _). apply Hx. left; auto.
    + intros j [->|Hj].
      * repeat split; auto.
      * destruct (Hall _ Hj) as (Hx & Hy & Hz & Hw). repeat split; auto.
        -- intros Hs. apply Hx. right; auto.
        -- intros b Hb. destruct (Hw b Hb) as [[->|?]|?]; auto.
Qed.

Lemma ord_ok_sbwl A A' : sbwl A A' -> forall l seen, ord_ok A seen l -> ord_ok A' seen l.
Proof.
  intros [HL HS]. induction l as [|i t IH]; intros seen H; simpl in *; auto.
  destruct H as (H1 & H2 & H3 & H4 & H5). destruct (HS i) as (_ & Eb & Ea & _).
  rewrite HL, Eb, Ea. repeat split; auto.
Qed.

Definition cplus (c0 : nat -> nat) (l : list nat) : nat -> nat :=
  fun j => c0 j + (if existsb (Nat.eqb j) l then 1 else 0).

Lemma cplus_nil c0 j : cplus c0 [] j = c0 j.
Proof. unfold cplus. simpl. lia. Qed.

Lemma cplus_cons c0 i l j : ~ In i l -> upd (cplus c0 l) i (S (cplus c0 l i)) j = cplus c0 (i :: l) j.
Proof.
  intros Hn. apply existsb_eqb_nIn in Hn. unfold upd, cplus. simpl.
  destruct (Nat.eqb j i) eqn:E.
  - apply Nat.eqb_eq in E. subst. rewrite Hn. simpl. lia.
  - simpl. reflexivity.
Qed.

Lemma cplus_uncons c0 i l j : ~ In i l -> upd (cplus c0 (i :: l)) i (cplus c0 (i :: l) i - 1) j = cplus c0 l j.
Proof.
  intros Hn. apply existsb_eqb_nIn in Hn. unfold upd, cplus. simpl.
  destruct (Nat.eqb j i) eqn:E.
  - apply Nat.eqb_eq in E. subst. rewrite Hn, Nat.eqb_refl. simpl. lia.
  - simpl. reflexivity.
Qed.

Lemma cplus_mem c0 l l' j : (forall k, In k l <-> In k l') -> cplus c0 l j = cplus c0 l' j.
Proof.
  intros H. unfold cplus.
  destruct (existsb (Nat.eqb j) l) eqn:E1; destruct (existsb (Nat.eqb j) l') eqn:E2; auto.
  - apply existsb_eqb_In in E1. apply existsb_eqb_nIn in E2. apply H in E1. tauto.
  - apply existsb_eqb_In in E2. apply existsb_eqb_nIn in E1. apply H in E2. tauto.
Qed.

Lemma cplus_pos c0 l j : In j l -> 0 < cplus c0 l j.
Proof. intros H. apply existsb_eqb_In in H. unfold cplus. rewrite H. lia. Qed.

Lemma fold_lock_inv c0 : forall todo s seen,
  ord_ok (arrs s) seen todo -> InvS s (cplus c0 seen) ->
  InvS (fold_left (fun st i => lock st i false) todo s) (cplus c0 (todo ++ seen)) /\
  ops (fold_left (fun st i => lock st i false) todo s) = ops s /\
  sbwl (arrs s) (arrs (fold_left (fun st i => lock st i false) todo s)).
Proof.
  induction todo as [|i t IH]; intros s seen Hord HI; simpl.
  - split; auto. split; auto. apply sbwl_refl.
  - destruct Hord as (H1 & H2 & H3 & H4 & H5).
    assert (HI1 : InvS (lock s i false) (cplus c0 (i :: seen))).
    { apply Inv_ext with (c := upd (cplus c0 seen) i (S (cplus c0 seen i))).
      { intros j. apply cplus_cons; auto. }
      apply lock_inv; auto.
      intros b Hb. apply cplus_pos. apply H4. exact Hb. }
    assert (HS1 := lock_sbwl s i false).
    assert (Hord1 : ord_ok (arrs (lock s i false)) (i :: seen) t) by (eapply ord_ok_sbwl; eauto).
    destruct (IH _ _ Hord1 HI1) as (Ha & Hb & Hc). split; [|split].
    + apply Inv_ext with (c := cplus c0 (t ++ i :: seen)); [|apply Ha]. intros j. apply cplus_mem. intros k.
      simpl. rewrite !in_app_iff. simpl. tauto.
    + rewrite Hb. apply lock_ops.
    + eapply sbwl_trans; eauto.
Qed.

Lemma fold_release_inv c0 : forall todo s, NoDup todo -> InvS s (cplus c0 todo) ->
  InvS (fold_left (fun st i => if a_alive (get st i) then release st i else st) todo s) c0 /\
  ops (fold_left (fun st i => if a_alive (get st i) then release st i else st) todo s) = ops s /\
  sbwl (arrs s) (arrs (fold_left (fun st i => if a_alive (get st i) then release st i else st) todo s)).
Proof.
  induction todo as [|i t IH]; intros s Hnd HI; simpl.
  - split; [|split; [auto|apply sbwl_refl]].
    apply Inv_ext with (c := cplus c0 []); [|apply HI]. intros j. apply cplus_nil.
  - inversion Hnd as [|? ? Hni Hnd']; subst.
    assert (Hpos : 0 < cplus c0 (i :: t) i) by (apply cplus_pos; left; auto).
    assert (Hi : i < length (arrs s)) by (apply (iLt HI); auto).
    assert (Hal : a_alive (get s i) = true) by (apply (lC (iLoc HI Hi)); auto).
    rewrite Hal.
    assert (HI1 : InvS (release s i) (cplus c0 t)).
    { apply Inv_ext with (c := upd (cplus c0 (i :: t)) i (cplus c0 (i :: t) i - 1)).
      { intros j. apply cplus_uncons; auto. }
      apply release_inv; auto. }
    destruct (IH _ Hnd' HI1) as (Ha & Hb & Hc). split; [auto|split].
    + rewrite Hb. apply release_ops.
    + eapply sbwl_trans; [apply release_sbwl | apply Hc].
Qed.

(* ================================================================== *)
(** * 8. Counting                                                     *)
(* ================================================================== *)

Lemma cnt_in_app i O1 O2 : cnt_in i (O1 ++ O2) = cnt_in i O1 + cnt_in i O2.
Proof. unfold cnt_in. rewrite filter_app, app_length. reflexivity. Qed.

Lemma cnt_in_cons i l O : cnt_in i (l :: O) = (if existsb (Nat.eqb i) l then 1 else 0) + cnt_in i O.
Proof. unfold cnt_in. simpl. destruct (existsb (Nat.eqb i) l); reflexivity. Qed.

Lemma cnt_in_snoc i O l : cnt_in i (O ++ [l]) = cplus (fun j => cnt_in j O) l i.
Proof.
  rewrite cnt_in_app, cnt_in_cons. unfold cplus.
  replace (cnt_in i []) with 0 by reflexivity. lia.
Qed.

Lemma cnt_in_mid i pre l post : cnt_in i (pre ++ l :: post) = cplus (fun j => cnt_in j (pre ++ post)) l i.
Proof. unfold cplus. rewrite !cnt_in_app, cnt_in_cons. lia. Qed.

Lemma cnt_in_pos i O : 0 < cnt_in i O <-> exists l, In l O /\ In i l.
Proof.
  induction O as [|l O IH].
  - unfold cnt_in. simpl. split; [lia | intros (l & [] & _)].
  - rewrite cnt_in_cons. split.
    + intros H. destruct (existsb (Nat.eqb i) l) eqn:E.
      * exists l. split; [left; auto | apply existsb_eqb_In; auto].
      * simpl in H. apply IH in H. destruct H as (l' & H1 & H2). exists l'. split; [right|]; auto.
    + intros (l' & [->|H1] & H2).
      * apply existsb_eqb_In in H2. rewrite H2. lia.
      * assert (0 < cnt_in i O) by (apply IH; eauto). lia.
Qed.

Lemma cnt_in_zero i O : (forall l, In l O -> ~ In i l) -> cnt_in i O = 0.
Proof.
  intros H. destruct (cnt_in i O) eqn:E; auto.
  assert (Hp : 0 < cnt_in i O) by lia. apply cnt_in_pos in Hp. destruct Hp as (l & H1 & H2).
  exfalso. eapply H; eauto.
Qed.

Lemma remove_nth_app {X} (l1 : list X) x l2 : remove_nth (l1 ++ x :: l2) (length l1) = l1 ++ l2.
Proof. induction l1; simpl; auto. rewrite IHl1. reflexivity. Qed.

(* ================================================================== *)
(** * 9. The state invariant is preserved by well-formed events       *)
(* ================================================================== *)

(* every listed view comes with its base *)
Definition ClosedL (A : list arr) (O : list (list nat)) : Prop :=
  forall l i b, In l O -> In i l -> a_base (g A i) = Some b -> In b l.

Definition SInv (s : lstate) : Prop :=
  InvS s (fun i => cnt_in i (ops s)) /\ (forall l, In l (ops s) -> NoDup l) /\ ClosedL (arrs s) (ops s).

Lemma ClosedL_bp A A' O : (forall l i, In l O -> In i l -> a_base (g A' i) = a_base (g A i)) ->
  ClosedL A O -> ClosedL A' O.
Proof. intros H HC l i b Hl Hi Hb. rewrite (H l i Hl Hi) in Hb. eapply HC; eauto. Qed.

Lemma ClosedL_sbwl A A' O : sbwl A A' -> ClosedL A O -> ClosedL A' O.
Proof. intros [_ HS]. apply ClosedL_bp. intros l i _ _. apply (HS i). Qed.

Lemma base_upd A i f j : (forall a, a_base (f a) = a_base a) ->
  a_base (g (upd_arr A i f) j) = a_base (g A j).
Proof.
  intros Hf. destruct (Nat.eq_dec j i) as [->|Hne].
  - destruct (lt_dec i (length A)).
    + rewrite g_upd_eq; auto.
    + rewrite !g_overflow; try rewrite length_upd_arr; auto; lia.
  - rewrite g_upd_neq; auto.
Qed.

Lemma base_fold_used listed : forall A j,
  a_base (g (fold_left (fun l i => upd_arr l i set_used) listed A) j) = a_base (g A j).
Proof.
  induction listed as [|i t IH]; intros A j; simpl; auto.
  rewrite IH. apply base_upd. reflexivity.
Qed.

Lemma NoDup_snoc {X} (l : list X) x : NoDup l -> ~ In x l -> NoDup (l ++ [x]).
Proof.
  induction l as [|a t IH]; intros Hn Hx; simpl.
  - constructor; auto.
  - inversion Hn; subst. constructor.
    + rewrite in_app_iff. simpl. intros [H|[H|[]]]; auto. subst. apply Hx. left; auto.
    + apply IH; auto. intros H. apply Hx. right; auto.
Qed.

Lemma EOp_finish s2 O listed :
  InvS s2 (cplus (fun j => cnt_in j O) listed) -> ops s2 = O -> NoDup listed ->
  (forall l, In l O -> NoDup l) -> ClosedL (arrs s2) (O ++ [listed]) ->
  SInv (mk (fold_left (fun l i => upd_arr l i set_used) listed (arrs s2)) (counter s2) (tracker s2)
           (waiting s2) (ops s2 ++ [listed])).
Proof.
  intros HI Hops Hnd HN HC. unfold SInv, InvS, mk; simpl. split; [|split].
  - apply Inv_ext with (c := cplus (fun j => cnt_in j O) listed).
    + intros j. rewrite Hops, cnt_in_snoc. reflexivity.
    + apply Inv_fold_used; auto. intros i Hi. apply cplus_pos; auto.
  - intros l Hl. apply in_app_or in Hl. destruct Hl as [Hl|[<-|[]]]; auto. rewrite Hops in Hl; auto.
  - rewrite Hops. eapply ClosedL_bp; [|apply HC]. intros l i _ _. apply base_fold_used.
Qed.

Lemma EOp_out s1' O order oidx :
  InvS s1' (cplus (fun j => cnt_in j O) order) -> ops s1' = O ->
  oidx < length (arrs s1') -> a_alive (get s1' oidx) = true ->
  (forall b, a_base (get s1' oidx) = Some b -> In b order) ->
  ~ In oidx order -> NoDup order -> (forall l, In l O -> NoDup l) ->
  ClosedL (arrs s1') (O ++ [order]) ->
  SInv (mk (fold_left (fun l i => upd_arr l i set_used) (order ++ [oidx]) (arrs (lock s1' oidx false)))
           (counter (lock s1' oidx false)) (tracker (lock s1' oidx false))
           (waiting (lock s1' oidx false)) (ops (lock s1' oidx false) ++ [order ++ [oidx]])).
Proof.
  intros HI Hops Hlt Hal Hb Hni Hnd HN HC.
  apply EOp_finish with (O := O); auto.
  - set (c0 := fun j => cnt_in j O) in *.
    apply Inv_ext with (c := cplus c0 (oidx :: order)).
    { intros j. apply cplus_mem. intros k. rewrite in_app_iff. simpl. tauto. }
    apply Inv_ext with (c := upd (cplus c0 order) oidx (S (cplus c0 order oidx))).
    { intros j. apply cplus_cons; auto. }
    apply lock_inv; auto.
    intros b Hbb. apply cplus_pos. auto.
  - rewrite lock_ops. auto.
  - apply NoDup_snoc; auto.
  - apply ClosedL_sbwl with (A := arrs s1'); [apply lock_sbwl|].
    intros l i b Hl Hi Hbi. apply in_app_or in Hl. destruct Hl as [Hl|[<-|[]]].
    + apply (HC l i b); auto. apply in_or_app; auto.
    + apply in_app_or in Hi. apply in_or_app. destruct Hi as [Hi|[<-|[]]].
      * left. apply (HC order i b); auto. apply in_or_app. right. left. auto.
      * left. apply Hb. exact Hbi.
Qed.

Lemma listed_lt s l i : InvS s (fun i => cnt_in i (ops s)) -> In l (ops s) -> In i l -> i < length (arrs s).
Proof. intros HI Hl Hi. apply (iLt HI i). apply cnt_in_pos. eauto. Qed.

Lemma step_SInv s e : SInv s -> ev_ok s e -> SInv (step s e).
Proof.
  intros (HI & HN & HC) Hok. destruct e as [key ro|src key|i f|i|inputs out|n|i]; simpl in Hok.
  - (* ENew *)
    subst key. split; [|split]; simpl; auto.
    + unfold InvS; simpl. exact (Inv_new_owner _ _ _ _ _ (negb ro) HI).
    + eapply ClosedL_bp; [|apply HC]. intros l i Hl Hi. rewrite g_app_old; auto. eapply listed_lt; eauto.
  - (* EView *)
    destruct Hok as (-> & Hs & Hal). split; [|split]; simpl; auto.
    + unfold InvS; simpl. exact (Inv_new_view _ _ _ _ _ src HI Hs Hal).
    + eapply ClosedL_bp; [|apply HC]. intros l i Hl Hi. rewrite g_app_old; auto. eapply listed_lt; eauto.
  - contradiction.
  - contradiction.
  - (* EOp *)
    destruct Hok as [Hin Hout].
    unfold step. cbv zeta.
    set (order := uniq_bases_then s inputs []).
    assert (Hord : ord_ok (arrs s) [] order) by (apply ubt_ord_ok; auto; apply HI).
    destruct (ord_ok_props _ _ _ Hord) as [Hnd Hall].
    assert (Hlts : forall l i, In l (ops s) -> In i l -> i < length (arrs s)).
    { intros l i Hl Hi. eapply listed_lt; eauto. }
    set (c0 := fun j => cnt_in j (ops s)) in *.
    assert (HI0 : InvS s (cplus c0 [])).
    { apply Inv_ext with (c := c0); auto. intros j. symmetry. apply cplus_nil. }
    destruct (fold_lock_inv c0 order s [] Hord HI0) as (HI1 & Hops1 & HS1).
    rewrite app_nil_r in HI1.
    set (s1 := fold_left (fun st i => lock st i false) order s) in *.
    assert (HC1 : ClosedL (arrs s1) (ops s ++ [order])).
    { apply ClosedL_sbwl with (A := arrs s); auto.
      intros l i b Hl Hi Hb. apply in_app_or in Hl. destruct Hl as [Hl|[<-|[]]].
      - eapply HC; eauto.
      - destruct (Hall _ Hi) as (_ & _ & _ & Hbase). destruct (Hbase b Hb) as [[]|]; auto. }
    destruct HS1 as [HL1 HS1].
    assert (Hni : ~ In (length (arrs s1)) order).
    { intros Hx. destruct (Hall _ Hx) as (_ & Hlt & _). lia. }
    assert (HC1' : forall x, ClosedL (arrs s1 ++ [x]) (ops s ++ [order])).
    { intros x. eapply ClosedL_bp; [|apply HC1]. intros l i Hl Hi. rewrite g_app_old; auto.
      rewrite HL1. apply in_app_or in Hl. destruct Hl as [Hl|[<-|[]]]; eauto.
      destruct (Hall _ Hi) as (_ & Hlt & _). auto. }
    destruct out as [[[src|] key]|].
    + (* output is a view of input src *)
      destruct Hout as [-> Hsrc].
      destruct (Hin _ Hsrc) as [Hslt Hsal]. unfold get in Hsal.
      destruct (HS1 src) as (_ & Ebs & Eas & _).
      assert (Hso : In src order).
      { destruct (ubt_in s inputs [] src Hsrc) as [[]|]; auto. }
      apply EOp_out with (O := ops s); auto.
      * unfold InvS, with_arrs; simpl. rewrite <- HL1.
        apply (Inv_new_view _ _ _ _ _ src HI1); [lia | congruence].
      * simpl. rewrite app_length. simpl. lia.
      * unfold get, with_arrs; simpl. rewrite g_app_new. reflexivity.
      * unfold get, with_arrs; simpl. rewrite g_app_new. simpl. intros b Hb. inversion Hb; subst b; clear Hb.
        unfold owner_of, get. rewrite Ebs.
        destruct (Hall _ Hso) as (_ & _ & _ & Hbase).
        destruct (a_base (g (arrs s) src)) as [b|] eqn:E; auto.
        destruct (Hbase b eq_refl) as [[]|]; auto.
      * simpl. apply HC1'.
    + (* output is a fresh array *)
      subst key.
      apply EOp_out with (O := ops s); auto.
      * unfold InvS, with_arrs; simpl. rewrite <- HL1.
        exact (Inv_new_owner _ _ _ _ _ true HI1).
      * simpl. rewrite app_length. simpl. lia.
      * unfold get, with_arrs; simpl. rewrite g_app_new. reflexivity.
      * unfold get, with_arrs; simpl. rewrite g_app_new. simpl. intros; discriminate.
      * simpl. apply HC1'.
    + (* no output *)
      rewrite app_nil_r. apply EOp_finish with (O := ops s); auto.
  - (* EOpDie *)
    unfold step. cbv zeta.
    destruct (nth_split (ops s) [] Hok) as (pre & post & Eops & Elen).
    set (listed := nth n (ops s) []) in *.
    assert (HIl : InvS s (cplus (fun j => cnt_in j (pre ++ post)) listed)).
    { apply Inv_ext with (c := fun j => cnt_in j (ops s)); auto. intros j. rewrite Eops. apply cnt_in_mid. }
    assert (Hndl : NoDup listed) by (apply HN; rewrite Eops; apply in_elt).
    destruct (fold_release_inv _ listed s Hndl HIl) as (HI1 & Hops1 & HS1).
    set (s1 := fold_left (fun st i => if a_alive (get st i) then release st i else st) listed s) in *.
    assert (Erm : remove_nth (ops s1) n = pre ++ post).
    { rewrite Hops1, Eops, <- Elen. apply remove_nth_app. }
    assert (Hsub : forall l, In l (pre ++ post) -> In l (ops s)).
    { intros l Hl. rewrite Eops. apply in_app_or in Hl. apply in_or_app.
      destruct Hl; [left | right; right]; auto. }
    split; [|split]; simpl; rewrite Erm.
    + exact HI1.
    + intros l Hl. apply HN. auto.
    + apply ClosedL_sbwl with (A := arrs s); auto.
      intros l i b Hl Hi Hb. eapply HC; eauto.
  - (* EDie *)
    destruct Hok as (Hal & Hno & Hnv). split; [|split]; simpl; auto.
    + unfold InvS; simpl. apply Inv_die; auto. apply cnt_in_zero; auto.
    + eapply ClosedL_bp; [|apply HC]. intros l j _ _. apply base_upd. reflexivity.
Qed.

Lemma SInv_init : SInv l_init.
Proof.
  split; [|split]; simpl; [| tauto | intros l i b []].
  unfold InvS; simpl. split; simpl.
  - split; simpl.
    + intros; lia.
    + intros i b H. destruct i; discriminate.
  - intros k j H. discriminate.
  - intros k _. reflexivity.
  - intros j H. unfold cnt_in in H. simpl in H. lia.
  - intros; lia.
Qed.

Lemma run_from_SInv : forall es s, SInv s -> wf_from s es -> SInv (fold_left step es s).
Proof.
  induction es as [|e t IH]; intros s HS Hwf; simpl in *; auto.
  destruct Hwf as [Hok Hwf]. apply IH; auto. apply step_SInv; auto.
Qed.

Theorem run_SInv es : wf_events es -> SInv (run es).
Proof. intros H. apply run_from_SInv; auto. apply SInv_init. Qed.

(* ================================================================== *)
(** * 10. Boolean well-formedness (for examples)                      *)
(* ================================================================== *)

Definition alive_idx (s : lstate) (i : nat) : bool := Nat.ltb i (length (arrs s)) && a_alive (get s i).

Definition ev_okb (s : lstate) (e : event) : bool :=
  let n := length (arrs s) in
  match e with
  | ENew key _ => Nat.eqb key n
  | EView src key => Nat.eqb key n && alive_idx s src
  | ELock _ _ => false
  | ERelease _ => false
  | EOp inputs out =>
      forallb (alive_idx s) inputs &&
      match out with
      | None => true
      | Some (None, key) => Nat.eqb key n
      | Some (Some src, key) => Nat.eqb key n && existsb (Nat.eqb src) inputs
      end
  | EOpDie k => Nat.ltb k (length (ops s))
  | EDie i => a_alive (get s i) && forallb (fun l => negb (existsb (Nat.eqb i) l)) (ops s)
              && forallb (fun a => negb (a_alive a && match a_base a with Some b => Nat.eqb b i | None => false end))
                         (arrs s)
  end.

Fixpoint wf_fromb (s : lstate) (es : list event) : bool :=
  match es with
  | [] => true
  | e :: t => ev_okb s e && wf_fromb (step s e) t
  end.

Lemma alive_idx_ok s i : alive_idx s i = true -> i < length (arrs s) /\ a_alive (get s i) = true.
Proof. unfold alive_idx. intros H. apply andb_true_iff in H. destruct H as [H1 H2]. apply Nat.ltb_lt in H1. auto. Qed.

Lemma ev_okb_ok s e : ev_okb s e = true -> ev_ok s e.
Proof.
  destruct e as [key ro|src key|i f|i|inputs out|n|i]; simpl; intros H; try discriminate.
  - apply Nat.eqb_eq; auto.
  - apply andb_true_iff in H. destruct H as [H1 H2]. apply Nat.eqb_eq in H1. apply alive_idx_ok in H2. tauto.
  - apply andb_true_iff in H. destruct H as [H1 H2]. split.
    + intros i Hi. rewrite forallb_forall in H1. apply alive_idx_ok. auto.
    + destruct out as [[[src|] key]|]; auto.
      * apply andb_true_iff in H2. destruct H2 as [H2 H3]. apply Nat.eqb_eq in H2.
        apply existsb_eqb_In in H3. auto.
      * apply Nat.eqb_eq; auto.
  - apply Nat.ltb_lt; auto.
  - apply andb_true_iff in H. destruct H as [H H3]. apply andb_true_iff in H. destruct H as [H1 H2].
    split; auto. split.
    + intros l Hl. rewrite forallb_forall in H2. specialize (H2 l Hl).
      apply negb_true_iff in H2. apply existsb_eqb_nIn; auto.
    + intros j Hj Hb. unfold get in *.
      assert (Hlt : j < length (arrs s)) by (apply alive_lt; auto).
      rewrite forallb_forall in H3. specialize (H3 (g (arrs s) j) (nth_In _ _ Hlt)).
      rewrite Hj, Hb, Nat.eqb_refl in H3. discriminate.
Qed.

Lemma wf_fromb_ok : forall es s, wf_fromb s es = true -> wf_from s es.
Proof.
  induction es as [|e t IH]; intros s H; simpl in *; auto.
  apply andb_true_iff in H. destruct H as [H1 H2]. split; auto. apply ev_okb_ok; auto.
Qed.

Lemma wf_eventsb_ok es : wf_fromb l_init es = true -> wf_events es.
Proof. apply wf_fromb_ok. Qed.

(* ================================================================== *)
(** * 11. Main theorems                                               *)
(* ================================================================== *)

Section Theorems.
Variable es : list event.
Hypothesis Hwf : wf_events es.
Let s := run es.

Lemma s_inv : InvS s (fun i => cnt_in i (ops s)).
Proof. destruct (run_SInv es Hwf) as (H & _ & _). exact H. Qed.

Lemma listed_pos l i : In l (ops s) -> In i l -> 0 < cnt_in i (ops s).
Proof. intros. apply cnt_in_pos. eauto. Qed.

(** Listed arrays exist and are alive. *)
Theorem C08_listed_alive l i : In l (ops s) -> In i l -> i < length (arrs s) /\ a_alive (get s i) = true.
Proof.
  intros Hl Hi. assert (Hp := listed_pos l i Hl Hi). assert (HI := s_inv).
  assert (Hlt : i < length (arrs s)) by (apply (iLt HI i); auto).
  split; auto. apply (lC (iLoc HI Hlt)); auto.
Qed.

(** Each live operation lists an array at most once. *)
Theorem C08_nodup l : In l (ops s) -> NoDup l.
Proof. destruct (run_SInv es Hwf) as (_ & H & _). apply H. Qed.

(** A live operation that lists a view also lists its base. *)
Theorem C08_base_listed l i b : In l (ops s) -> In i l -> a_base (get s i) = Some b -> In b l.
Proof. destruct (run_SInv es Hwf) as (_ & _ & H). intros. eapply H; eauto. Qed.

(** 1. Counters.  The statement requested in TASK_D (counter = number of live ops listing the array, for every
    alive array) is FALSE for natively read-only memory (see [C08_counts_original_false] below): such arrays are
    never entered in the tables.  True statement: *)
Theorem C08_counts i :
  cget i (counter s) = if a_orig (get s i) then cnt_in i (ops s) else 0.
Proof.
  assert (HI := s_inv). unfold get.
  destruct (lt_dec i (length (arrs s))) as [Hlt|Hge].
  - destruct (iLoc HI Hlt) as [hC hRO hT].
    destruct (a_orig (g (arrs s) i)) eqn:Ho.
    + apply (lA (hT eq_refl)).
    + apply hRO; auto.
  - rewrite g_overflow by lia. simpl. apply (iGC HI). lia.
Qed.

Corollary C08_counts_writeable i : a_alive (get s i) = true -> a_orig (get s i) = true ->
  cget i (counter s) = length (filter (fun l => existsb (Nat.eqb i) l) (ops s)).
Proof. intros _ Ho. rewrite C08_counts, Ho. reflexivity. Qed.

(** 2. Every array listed by a live operation is read-only. *)
Theorem C08_locked l i : In l (ops s) -> In i l -> a_alive (get s i) = true -> a_wr (get s i) = false.
Proof.
  intros Hl Hi _. assert (Hp := listed_pos l i Hl Hi). assert (HI := s_inv).
  assert (Hlt : i < length (arrs s)) by (apply (iLt HI i); auto).
  destruct (iLoc HI Hlt) as [hC hRO hT]. unfold get.
  destruct (a_orig (g (arrs s) i)) eqn:Ho.
  - specialize (hT eq_refl). apply (l2 hT). apply (l1 hT). rewrite (lA hT). auto.
  - apply hRO; auto.
Qed.

(** 2'. ... and so is the base (memory owner) of every such array. *)
Theorem C08_locked_base l i b : In l (ops s) -> In i l -> a_base (get s i) = Some b ->
  a_alive (get s b) = true /\ a_wr (get s b) = false.
Proof.
  intros Hl Hi Hb. assert (Hbl := C08_base_listed l i b Hl Hi Hb).
  destruct (C08_listed_alive l b Hl Hbl) as [_ Hal]. split; auto.
  apply (C08_locked l b); auto.
Qed.

(** 3. Memory that was created read-only is never writeable (owner or view). *)
Theorem C08_readonly_any i : a_orig (get s i) = false -> a_wr (get s i) = false.
Proof.
  assert (HI := s_inv). unfold get. intros Ho.
  destruct (lt_dec i (length (arrs s))) as [Hlt|Hge].
  - apply (lRO (iLoc HI Hlt)); auto.
  - rewrite g_overflow by lia. reflexivity.
Qed.

Theorem C08_readonly_stays i : a_base (get s i) = None -> a_orig (get s i) = false -> a_wr (get s i) = false.
Proof. intros _. apply C08_readonly_any. Qed.

(** the [a_orig] ghost of a view is that of its owner *)
Theorem C08_orig_view i b : a_base (get s i) = Some b ->
  a_base (get s b) = None /\ b < i /\ a_orig (get s i) = a_orig (get s b).
Proof.
  assert (HI := s_inv). unfold get. intros Hb.
  destruct (gBase (iGA HI) _ Hb) as (H1 & H2 & H3 & H4). auto.
Qed.

Theorem C08_keys i : i < length (arrs s) -> a_key (get s i) = i.
Proof. assert (HI := s_inv). intros. apply (gK (iGA HI)); auto. Qed.

(** 4. Quiescence: no live operation => tables empty for alive arrays, flags restored. *)
Theorem C08_restored : ops s = [] -> forall i, a_alive (get s i) = true ->
  cget i (counter s) = 0 /\ tracked s i = false /\ aget i (tracker s) = None /\
  (a_used (get s i) = true -> a_wr (get s i) = a_orig (get s i)).
Proof.
  intros Hops i Hal. assert (HI := s_inv). unfold get in *.
  assert (Hlt : i < length (arrs s)) by (apply alive_lt; auto).
  assert (Hz : forall j, cnt_in j (ops s) = 0) by (intros j; rewrite Hops; reflexivity).
  assert (Hc : cget i (counter s) = 0).
  { rewrite C08_counts. rewrite Hz. destruct (a_orig (get s i)); auto. }
  assert (Ht : tb (tracker s) i = false).
  { destruct (iLoc HI Hlt) as [hC hRO hT].
    destruct (a_orig (g (arrs s) i)) eqn:Ho; [|apply hRO; auto].
    specialize (hT eq_refl). destruct (tb (tracker s) i) eqn:Et; auto. exfalso.
    destruct (a_base (g (arrs s) i)) as [b|] eqn:Hb.
    - destruct (l5 hT Hb Et Hc) as [_ Htb].
      destruct (gBase (iGA HI) _ Hb) as (Hbi & Hbb & Hob & _).
      assert (Hbl : b < length (arrs s)) by lia.
      destruct (iLoc HI Hbl) as [_ _ hT']. rewrite Ho in Hob. specialize (hT' Hob).
      assert (Hpos := l4 hT' Hbb Htb). rewrite (lA hT'), Hz in Hpos. lia.
    - assert (Hpos := l4 hT Hb Et). lia. }
  split; auto. split; [|split].
  - rewrite (tracked_eq s i (iGA HI) (iGT HI) Hlt). rewrite Ht. reflexivity.
  - unfold tb in Ht. destruct (aget i (tracker s)); auto. discriminate.
  - intros Hu. destruct (iLoc HI Hlt) as [hC hRO hT].
    destruct (a_orig (g (arrs s) i)) eqn:Ho; [|apply hRO; auto].
    specialize (hT eq_refl).
    destruct (a_base (g (arrs s) i)) as [b|] eqn:Hb.
    + apply (l6 hT); auto. congruence.
    + apply (l3 hT); auto.
Qed.

End Theorems.

(** 5. Order independence: [EOpDie n] is admissible for *every* live operation index, whatever the order in
    which operations were created or other operations died; all theorems above quantify over all such orders. *)
Lemma C08_any_order s n : n < length (ops s) -> ev_ok s (EOpDie n).
Proof. intros H. exact H. Qed.

(* ================================================================== *)
(** * 12. Counterexamples to the statements as originally phrased     *)
(* ================================================================== *)

(** (a) TASK_D item 1 as written -- "for every alive i, counter = number of live ops listing i" -- is false:
    natively read-only memory is never entered in the tables (lock_arr_writeability returns early). *)
Definition cex_counts : list event := [ENew 0 true; EOp [0] None].
Example C08_counts_original_false :
  wf_events cex_counts /\
  let s := run cex_counts in
  a_alive (get s 0) = true /\ cget 0 (counter s) = 0 /\
  length (filter (fun l => existsb (Nat.eqb 0) l) (ops s)) = 1.
Proof. split; [apply wf_eventsb_ok; vm_compute; reflexivity | vm_compute; auto]. Qed.

(** (b) TASK_D item 4 without the [a_used] guard is false: a view taken while its owner is locked inherits
    writeable=False and, never having entered an operation, is never restored. *)
Definition cex_restore : list event := [ENew 0 false; EOp [0] None; EView 0 1; EOpDie 0].
Example C08_restored_needs_used :
  wf_events cex_restore /\
  let s := run cex_restore in
  ops s = [] /\ a_alive (get s 1) = true /\ a_used (get s 1) = false /\
  a_wr (get s 1) = false /\ a_orig (get s 1) = true /\ a_wr (get s 0) = true.
Proof. split; [apply wf_eventsb_ok; vm_compute; reflexivity | vm_compute; repeat split]. Qed.

(** (c) The optional addendum of item 4 -- "ops s = [] -> waiting has no entry for any alive array" -- is false:
    a stale entry survives in _views_waiting_for_unlock when the tracker is emptied by the wake-up loop
    (the table is only cleared on the two `del _array_tracker[...]` paths of the release function itself).
    Arrays: 0 = owner c, 1 = view w of c, 2 = owner e, 3 = view f of e. *)
Definition cex_waiting : list event :=
  [ENew 0 false; EView 0 1; ENew 2 false; EView 2 3;
   EOp [1] None;      (* A = [0;1] *)
   EOp [0] None;      (* B = [0]   *)
   EOpDie 0;          (* A dies: view 1 waits for base 0 *)
   EOp [1] None;      (* X = [0;1]; ops = [B; X] *)
   EOpDie 0;          (* B dies *)
   EOp [3] None;      (* F = [2;3]; ops = [X; F] *)
   EOp [2] None;      (* G = [2];   ops = [X; F; G] *)
   EOpDie 1;          (* F dies: view 3 waits for base 2; ops = [X; G] *)
   EOpDie 0;          (* X dies: 0 released, 1 stays listed in waiting[0], then 1 released; ops = [G] *)
   EOpDie 0].         (* G dies: 2 released, 3 woken, tracker now empty, waiting[0] = [1] survives *)
Example C08_waiting_not_emptied :
  wf_events cex_waiting /\
  let s := run cex_waiting in
  ops s = [] /\ tracker s = [] /\ counter s = [] /\ a_alive (get s 0) = true /\
  aget 0 (waiting s) = Some [1] /\
  (forall i, i < 4 -> a_wr (get s i) = true).
Proof.
  split; [apply wf_eventsb_ok; vm_compute; reflexivity |].
  vm_compute. repeat split.
  intros i Hi. do 4 (destruct i as [|i]; [reflexivity|]). lia.
Qed.

(* ================================================================== *)
(** * 13. Non-vacuity                                                 *)
(* ================================================================== *)

(** Two overlapping operations on array 0 and its view 1, the first dying before the second.
    obs = (writeable, counter, tracked, waiting) *)
Definition demo : list event :=
  [ENew 0 false; EView 0 1;
   EOp [1] (Some (None, 2));     (* op0 lists [0;1;2] *)
   EOp [0; 1] None;              (* op1 lists [0;1]   *)
   EOpDie 0;                     (* op0 dies first *)
   EOpDie 0].                    (* then op1 *)

Example demo_wf : wf_events demo.
Proof. apply wf_eventsb_ok. vm_compute. reflexivity. Qed.

Example demo_mid :  (* after both ops were created *)
  let s := run (firstn 4 demo) in
  ops s = [[0; 1; 2]; [0; 1]] /\
  map (obs_arr s) [0; 1; 2] = [(false, 2, true, []); (false, 2, true, []); (false, 1, true, [])].
Proof. vm_compute. auto. Qed.

Example demo_one_dead :  (* op0 dead, op1 alive: inputs still locked, op0's output released *)
  let s := run (firstn 5 demo) in
  ops s = [[0; 1]] /\
  map (obs_arr s) [0; 1; 2] = [(false, 1, true, []); (false, 1, true, []); (true, 0, false, [])].
Proof. vm_compute. auto. Qed.

Example demo_final :  (* all flags restored, tables empty *)
  let s := run demo in
  ops s = [] /\ counter s = [] /\ tracker s = [] /\ waiting s = [] /\
  map (obs_arr s) [0; 1; 2] = [(true, 0, false, []); (true, 0, false, []); (true, 0, false, [])].
Proof. vm_compute. repeat split. Qed.

(** the general theorems instantiated on the demo *)
Example demo_locked : forall l i, let s := run (firstn 5 demo) in
  In l (ops s) -> In i l -> a_alive (get s i) = true -> a_wr (get s i) = false.
Proof.
  apply (C08_locked (firstn 5 demo)). apply wf_eventsb_ok. vm_compute. reflexivity.
Qed.

(* ================================================================== *)
(** * 14. Id re-use (outside [wf_events]): the repaired wake-up loop   *)
(* ================================================================== *)

(** The event language expresses id re-use directly: [ENew]/[EView]/[EOp] take the observed id ([a_key]) of the new
    array as an argument and [EDie] deallocates an array, so a later array may be given the key of a dead one.  Such a
    history is NOT [wf_events] ([ev_ok] demands key = index, i.e. fresh ids); the example is computed on the model.
    Arrays (index: key):  0: owner A0 (key 0);  1: view V1 of A0 (key 1);  2: owner A3 (key 2);
                          3: view V2 of A3, key 1 = the id of the dead V1. *)
Definition id_reuse : list event :=
  [ENew 0 false; EView 0 1;
   EOp [0] None;      (* op0 = [0]     : A0 locked *)
   EOp [1] None;      (* op1 = [0;1]   : V1 used by a second op *)
   EOpDie 1;          (* op1 dies first: V1 waits for A0  (waiting[0] = [1], tracker[1] -> 1) *)
   EDie 1;            (* V1 dies while waiting: its id lingers in waiting[0] and in the tracker *)
   ENew 2 false;
   EOp [2] None;      (* op2 = [2]     : A3 locked;  ops = [op0; op2] *)
   EView 2 1;         (* V2, a view of A3, re-uses V1's id *)
   EOp [3] None;      (* op3 = [2;3]   : V2 locked, tracker[1] -> 3;  ops = [op0; op2; op3] *)
   EOpDie 2;          (* op3 dies: V2 waits for A3  (waiting[2] = [1]);  ops = [op0; op2] *)
   EOpDie 0;          (* op0 dies: A0 released; the stale entry 1 in waiting[0] must not disturb V2 *)
   EOpDie 0].         (* op2 dies: A3 released, V2 woken *)

Example C08_id_reuse_restored :
  (* fresh ids up to the creation of V2; the whole history is outside wf_events *)
  wf_fromb l_init (firstn 8 id_reuse) = true /\ wf_fromb l_init id_reuse = false /\
  (* just before A0's op dies: both waiting lists hold the id 1, the tracker entry of id 1 designates V2 *)
  (let s := run (firstn 11 id_reuse) in
   ops s = [[0]; [2]] /\ waiting s = [(2, [1]); (0, [1])] /\ aget 1 (tracker s) = Some 3 /\
   a_alive (get s 1) = false /\ a_alive (get s 3) = true /\ a_key (get s 3) = 1 /\ a_base (get s 3) = Some 2) /\
  (* after A0's op died: A0 is writeable again, its waiting list is gone, and V2 is untouched -- still read-only
     (its base A3 is still locked by op2), still tracked, still waiting for A3 *)
  (let s := run (firstn 12 id_reuse) in
   ops s = [[2]] /\ a_wr (get s 0) = true /\ a_wr (get s 2) = false /\ a_wr (get s 3) = false /\
   tracked s 3 = true /\ aget 1 (tracker s) = Some 3 /\ waiting s = [(2, [1])]) /\
  (* after A3's op died: every alive used array is writeable again, V2 in particular, and the tables are empty *)
  (let s := run id_reuse in
   ops s = [] /\ counter s = [] /\ tracker s = [] /\ waiting s = [] /\
   a_wr (get s 3) = true /\
   forallb (fun a => negb (a_alive a && a_used a) || Bool.eqb (a_wr a) (a_orig a)) (arrs s) = true /\
   map (fun a => (a_key a, a_alive a, a_used a, a_wr a)) (arrs s) =
     [(0, true, true, true); (1, false, true, false); (2, true, true, true); (1, true, true, true)]).
Proof. vm_compute. repeat split; reflexivity. Qed.

Print Assumptions run_SInv.
Print Assumptions C08_locked_base.
Print Assumptions C08_base_listed.
Print Assumptions C08_nodup.
Print Assumptions C08_counts_original_false.
Print Assumptions C08_restored_needs_used.
Print Assumptions C08_waiting_not_emptied.
Print Assumptions demo_final.
Print Assumptions C08_counts.
Print Assumptions C08_counts_writeable.
Print Assumptions C08_locked.
Print Assumptions C08_listed_alive.
Print Assumptions C08_readonly_stays.
Print Assumptions C08_readonly_any.
Print Assumptions C08_restored.
Print Assumptions C08_id_reuse_restored.
