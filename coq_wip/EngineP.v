(* Proofs about the history-level engine model of Model/GraphP.v:
   1. the checked sweep agrees with the unchecked one when it reports no error;
   2. the DFS order of Tensor.backward is a valid processing order;
   3. well-formedness invariant of histories;
   4. MAIN: do_backward computes the adjoint of forward-mode tangents (C01);
   5. constants never hold a gradient (C10). *)
From Coq Require Import ZArith List Arith Bool Lia Ring.
Import ListNotations.
From MG Require Import Base.EngCore Base.GatherScatter Base.Dfs Base.EngOrder
                       Model.OpsExact Proofs.OpsExactP Model.GraphP.
Local Open Scope nat_scope.

(* ------------------------------------------------------------------------- *)
(** * 0. small list facts                                                      *)
(* ------------------------------------------------------------------------- *)

Lemma length_set_nth {X} (l : list X) i x : length (set_nth l i x) = length l.
Proof. revert i; induction l as [|y l IH]; intros [|i]; simpl; auto. Qed.

Lemma length_set_all {X} (is : list nat) : forall (l : list X) x, length (set_all l is x) = length l.
Proof.
  unfold set_all. induction is as [|i is IH]; intros l x; simpl; [reflexivity|].
  rewrite IH. apply length_set_nth.
Qed.

Lemma nth_set_nth_eq {X} (l : list X) i x d : i < length l -> nth i (set_nth l i x) d = x.
Proof.
  revert i; induction l as [|y l IH]; intros [|i] H; simpl in *; try lia; [reflexivity|].
  apply IH. lia.
Qed.

Lemma nth_set_nth_neq {X} (l : list X) i x j d : i <> j -> nth j (set_nth l i x) d = nth j l d.
Proof.
  revert i j; induction l as [|y l IH]; intros [|i] [|j] H; simpl; try reflexivity; try lia.
  apply IH. lia.
Qed.

(* setting an entry to the default value: the entry reads as the default whatever the length *)
Lemma nth_set_nth_default {X} (l : list X) i d : nth i (set_nth l i d) d = d.
Proof.
  destruct (Nat.lt_ge_cases i (length l)) as [H|H].
  - apply nth_set_nth_eq. exact H.
  - apply nth_overflow. rewrite length_set_nth. exact H.
Qed.

Lemma nth_set_all_notin {X} (is : list nat) : forall (l : list X) x k d,
  ~ In k is -> nth k (set_all l is x) d = nth k l d.
Proof.
  unfold set_all. induction is as [|i is IH]; intros l x k d Hk; simpl; [reflexivity|].
  rewrite IH by (intros H; apply Hk; now right).
  apply nth_set_nth_neq. intros ->. apply Hk. now left.
Qed.

Lemma nth_set_all_keep_default {X} (is : list nat) : forall (l : list X) k d,
  nth k l d = d -> nth k (set_all l is d) d = d.
Proof.
  unfold set_all. induction is as [|i is IH]; intros l k d Hk; simpl; [exact Hk|].
  apply IH. destruct (Nat.eq_dec i k) as [->|Hne].
  - apply nth_set_nth_default.
  - rewrite nth_set_nth_neq by exact Hne. exact Hk.
Qed.

Lemma nth_set_all_in_default {X} (is : list nat) : forall (l : list X) k d,
  In k is -> nth k (set_all l is d) d = d.
Proof.
  induction is as [|i is IH]; intros l k d Hk; [destruct Hk|].
  destruct Hk as [->|Hk].
  - change (set_all l (k :: is) d) with (set_all (set_nth l k d) is d).
    apply nth_set_all_keep_default. apply nth_set_nth_default.
  - change (set_all l (i :: is) d) with (set_all (set_nth l i d) is d).
    apply IH. exact Hk.
Qed.

(* either untouched or reset *)
Lemma nth_set_all_default_cases {X} (is : list nat) (l : list X) k d :
  nth k (set_all l is d) d = d \/ nth k (set_all l is d) d = nth k l d.
Proof.
  destruct (in_dec Nat.eq_dec k is) as [H|H].
  - left. apply nth_set_all_in_default. exact H.
  - right. apply nth_set_all_notin. exact H.
Qed.

Lemma nth_error_snoc {X} (l : list X) (n : X) k x :
  nth_error (l ++ [n]) k = Some x -> nth_error l k = Some x \/ (k = length l /\ x = n).
Proof.
  intros H. destruct (Nat.lt_ge_cases k (length l)) as [Hk|Hk].
  - left. rewrite nth_error_app1 in H by exact Hk. exact H.
  - right. rewrite nth_error_app2 in H by exact Hk.
    destruct (k - length l) as [|m] eqn:E; simpl in H.
    + inversion H. split; [lia|reflexivity].
    + destruct m; discriminate.
Qed.

(* ------------------------------------------------------------------------- *)
(** * 1. the checked sweep is the plain sweep when no error is raised          *)
(* ------------------------------------------------------------------------- *)

Lemma push_chk_sound (P : list znode) (ho : list bool) (o : op Z) :
  forall (is : list nat) (p : nat) (g : zvec) (G G' : list zvec),
  push_chk P ho o p is g G = (G', false) -> G' = push Z Z.add P o p is g G.
Proof.
  induction is as [|i is IH]; intros p g G G' H; simpl in *.
  - inversion H. reflexivity.
  - destruct (nconst Z (nth i P (Leaf Z true))) eqn:Hc.
    + apply IH. exact H.
    + destruct (negb (nth i ho false)); [discriminate|]. apply IH. exact H.
Qed.

Lemma step_chk_sound (P : list znode) (ho : list bool) (k : nat) (G G' : list zvec) :
  step_chk P ho k G = (G', false) -> G' = step Z Z.add P k G.
Proof.
  unfold step_chk, step. intros H.
  destruct (nth k P (Leaf Z true)) as [c|[|] o].
  - inversion H. reflexivity.
  - inversion H. reflexivity.
  - apply push_chk_sound with (ho := ho). exact H.
Qed.

Theorem sweep_chk_sound (P : list znode) (ho : list bool) :
  forall (order : list nat) (G G' : list zvec),
  sweep_chk P ho order G = (G', false) -> G' = sweepL Z Z.add P order G.
Proof.
  induction order as [|k order IH]; intros G G' H; simpl in *.
  - inversion H. reflexivity.
  - destruct (step_chk P ho k G) as [G1 e] eqn:E.
    destruct e; [discriminate|].
    apply step_chk_sound in E. subst G1. apply IH. exact H.
Qed.
Print Assumptions sweep_chk_sound.

(* ------------------------------------------------------------------------- *)
(** * 2. the DFS order is a valid processing order                             *)
(* ------------------------------------------------------------------------- *)

Section Collect.
Variable P : list (node Z).
Hypothesis Hwf : wf Z P.

Lemma inputs_lt (t i : nat) : In i (inputs Z P t) -> i < t.
Proof.
  unfold inputs. intros H. destruct (nth_error P t) as [n|] eqn:E.
  - rewrite (nth_error_nth P t (Leaf Z true) E) in H. destruct n as [c|c o]; [destruct H|].
    pose proof (Hwf t c o E) as F. rewrite Forall_forall in F. apply F. exact H.
  - apply nth_error_None in E. rewrite nth_overflow in H by exact E. destruct H.
Qed.

Lemma isconst_false_lt (k : nat) : isconst Z P k = false -> k < length P.
Proof.
  unfold isconst. intros H. destruct (Nat.lt_ge_cases k (length P)) as [Hk|Hk]; [exact Hk|].
  rewrite nth_overflow in H by exact Hk. simpl in H. discriminate.
Qed.

Theorem collect_valid (L : nat) : L < length P -> isconst Z P L = false ->
  let order := collect (inputs Z P) (isconst Z P) L in
  valid_rest Z P order /\ In L order /\
  (forall k, In k order -> isconst Z P k = false /\ k <= L).
Proof.
  intros HL Hc order.
  pose proof (collect_spec (inputs Z P) (isconst Z P) inputs_lt L Hc) as Hs.
  cbv zeta in Hs. fold order in Hs. destruct Hs as (ND & Hhd & Hord).
  split; [|split].
  - intros r1 k r2 E. destruct (Hord r1 k r2 E) as [Fk Hin].
    split; [apply isconst_false_lt; exact Fk|]. split.
    + rewrite E in ND. apply NoDup_remove_2 in ND. intros Hk. apply ND. apply in_or_app. now right.
    + intros i Hi Hci. apply Hin; [exact Hi|exact Hci].
  - destruct order as [|x order']; simpl in Hhd; [discriminate|]. inversion Hhd. now left.
  - assert (G0 : good (inputs Z P) (isconst Z P) []).
    { split; [constructor|]. split; [intros pre k post E; destruct pre; discriminate|intros k []]. }
    destruct (dfs_spec (inputs Z P) (isconst Z P) inputs_lt (S L) L [] (Nat.lt_succ_diag_r L) G0)
      as ((_ & _ & Fr) & _ & (new & Enew & Bnew)).
    intros k Hk. split.
    + apply Fr. exact Hk.
    + unfold order, collect in Hk. rewrite Enew, app_nil_r in Hk.
      rewrite Forall_forall in Bnew. apply Bnew. exact Hk.
Qed.
End Collect.
Print Assumptions collect_valid.
